// C25: replica selection follows weights, health and locality.
//
// Part (a) — engine enum: every replica list inside the bounds (weights 0-8, datacenter
// local/other, up/down) x every local-read policy x initial round-robin counters (0, 1 and
// all values from 2^32-L-1 to 2^32-1, set through an injected accessor) x the shuffle of
// newBalancer decided by vrand.Chooser (all permutations for short queues, a fixed family
// of arrangements for long ones). The real DBInfo.InitBalancers builds the balancers, the
// real Slice.GetSlaveConn selects; the fake pool tells which node handed out the connection.
//
// Part (b) — engine vsched (vx): 2-3 threads doing 1-3 GetSlaveConn each on one DBInfo;
// the multiset of picks must equal the one of the same number of sequential calls.
package main

import (
	"encoding/json"
	"fmt"
	"os"
	"os/exec"
	"runtime"
	"runtime/debug"
	"sort"
	"strconv"
	"strings"
	"sync"
	"time"

	"github.com/XiaoMi/Gaea/backend"
	"github.com/XiaoMi/Gaea/mysql"
	"github.com/XiaoMi/Gaea/verifshim/vrand"
	"github.com/XiaoMi/Gaea/verifshim/vsched"

	"verif/engine/enum"
	"verif/engine/ev"
	"verif/engine/gx"
	"verif/engine/vx"
	fakepool "verif/ref/fakepool_backend"
)

type nodeSpec struct {
	W      int  `json:"w"`
	Remote bool `json:"remote,omitempty"`
	Down   bool `json:"down,omitempty"`
	// GetFail: the replica's pool cannot hand out a connection (ConnectionPool.Get returns a
	// connection error: pool exhausted / dial time-out). An environment answer, not a status.
	GetFail bool `json:"getfail,omitempty"`
}

// kase is one sequential run: build the list with the shuffle answers in Tape, set every
// balancer's counter to Start, do Calls selections with Policy.
type kase struct {
	Scenario string     `json:"scenario,omitempty"` // set in vsched witnesses (handled by vx)
	Nodes    []nodeSpec `json:"nodes"`
	Policy   int        `json:"policy"` // 0 closed (global), 1 prefer local, 2 force local
	Start    uint32     `json:"start"`
	Tape     []int      `json:"tape"`
	Calls    int        `json:"calls"`
}

const localDC, otherDC = "dc-local", "dc-other"

var chooserMu sync.Mutex // vrand.Chooser is process-global

type world struct {
	slice *backend.Slice
	dbi   *backend.DBInfo
	pools []*fakepool.Pool
	ns    []int // the n of every rand.Intn(n) asked while building
	asked []int // indexes of the pools whose Get was called during the current selection, in order
	// concurrent: several harness threads select at once (part b); asked is then meaningless
	concurrent bool
}

// build makes fresh nodes, pools, DBInfo and balancers. The k-th rand.Intn(n) of
// newBalancer's shuffle answers tape[k] (n-1, "no swap", beyond the tape).
func build(nodes []nodeSpec, tape []int) *world {
	w := &world{}
	dbi := &backend.DBInfo{}
	for i, n := range nodes {
		dc := localDC
		if n.Remote {
			dc = otherDC
		}
		st := backend.StatusUp
		if n.Down {
			st = backend.StatusDown
		}
		p := fakepool.New(fmt.Sprintf("n%d", i), dc)
		i, getFail := i, n.GetFail
		p.GetFn = func(p *fakepool.Pool) (backend.PooledConnect, error) {
			w.asked = append(w.asked, i)
			if getFail {
				return nil, mysql.NewConnTypeError(p.AddrS, "resource pool timed out")
			}
			return p.NewConn(), nil
		}
		w.pools = append(w.pools, p)
		dbi.Nodes = append(dbi.Nodes, &backend.NodeInfo{Address: p.AddrS, Datacenter: dc, Weight: n.W, ConnPool: p, Status: st})
	}
	err := func() error {
		chooserMu.Lock()
		defer chooserMu.Unlock()
		defer func() { vrand.Chooser = nil }()
		k := 0
		vrand.Chooser = func(n int, what string) int {
			w.ns = append(w.ns, n)
			c := n - 1
			if k < len(tape) && tape[k] >= 0 && tape[k] < n {
				c = tape[k]
			}
			k++
			return c
		}
		return dbi.InitBalancers(localDC)
	}()
	if err != nil {
		ev.Fatalf("InitBalancers(%v): %v", nodes, err)
	}
	w.dbi = dbi
	w.slice = &backend.Slice{Namespace: "ns", ProxyDatacenter: localDC, Slave: dbi}
	return w
}

// pick does one real selection. got = the node whose connection was handed out (-1:
// GetSlaveConn returned an error); asked = the nodes whose pool was asked for a connection
// during this selection, in order (being asked for a connection IS being picked).
func (w *world) pick(policy int) (got int, asked []int) {
	w.asked = w.asked[:0]
	pc, err := w.slice.GetSlaveConn(w.dbi, policy)
	asked = append([]int{}, w.asked...)
	if err != nil || pc == nil {
		return -1, asked
	}
	c, ok := pc.(*fakepool.Conn)
	if !ok {
		ev.Fatalf("unexpected connection type %T", pc)
	}
	for i, p := range w.pools {
		if p == c.Pool {
			if !w.concurrent && (len(asked) == 0 || asked[len(asked)-1] != i) {
				ev.Fatalf("connection of pool %d handed out but the pools asked were %v", i, asked)
			}
			return i, asked
		}
	}
	ev.Fatalf("connection of an unknown pool")
	return -1, asked
}

var whichAll = []string{"global", "local", "remote"}

func relevant(policy int) []string {
	switch policy {
	case backend.LocalSlaveReadForce:
		return []string{"local"}
	case backend.LocalSlaveReadPrefer:
		return []string{"local", "remote"}
	}
	return []string{"global"}
}

// ---- reference ------------------------------------------------------------------------

func gcd(a, b int) int {
	for b != 0 {
		a, b = b, a%b
	}
	return a
}

func canServe(n nodeSpec) bool { return n.W > 0 && !n.Down }

type refInfo struct {
	allUp      bool
	eligibleUp bool  // some replica the policy may use is up
	localServe bool  // some local replica with weight > 0 is up
	want       []int // all-up case: picks of node i per window
	L          int   // all-up case: window length (0: nothing can be picked)
}

func reference(nodes []nodeSpec, policy int) refInfo {
	ri := refInfo{allUp: true}
	for _, n := range nodes {
		if n.Down {
			ri.allUp = false
		}
		if canServe(n) && !n.Remote {
			ri.localServe = true
		}
	}
	for _, n := range nodes {
		if !canServe(n) {
			continue
		}
		switch policy {
		case backend.LocalSlaveReadForce:
			if !n.Remote {
				ri.eligibleUp = true
			}
		default:
			ri.eligibleUp = true
		}
	}
	if ri.allUp {
		// the set served: closed = every weighted node; force = weighted local nodes;
		// prefer = weighted local nodes if there are any, else weighted remote nodes
		g := 0
		in := make([]bool, len(nodes))
		for i, n := range nodes {
			switch policy {
			case backend.LocalSlaveReadForce:
				in[i] = n.W > 0 && !n.Remote
			case backend.LocalSlaveReadPrefer:
				in[i] = n.W > 0 && n.Remote != ri.localServe
			default:
				in[i] = n.W > 0
			}
			if in[i] {
				g = gcd(g, n.W)
			}
		}
		ri.want = make([]int, len(nodes))
		for i, n := range nodes {
			if in[i] {
				ri.want[i] = n.W / g
				ri.L += n.W / g
			}
		}
	}
	return ri
}

// ---- one run + oracle -----------------------------------------------------------------

type verdict struct {
	viol     string
	features map[string]string
	picks    []int
	skipped  bool // some call had to step over a down node or fell back to the remote balancer
}

func policyName(p int) string { return [...]string{"closed", "prefer_local", "force_local"}[p] }

func runOn(w *world, k kase) verdict {
	for _, b := range whichAll {
		backend.VerifSetNextIndex(w.dbi, b, k.Start)
	}
	ri := reference(k.Nodes, k.Policy)
	rel := relevant(k.Policy)
	v := verdict{}
	first := make([][]uint32, len(rel)) // first counter value consumed by call i on balancer b (valid if consumed)
	last := make([][]uint32, len(rel))
	used := make([][]bool, len(rel))
	fail := func(kind, wrap, msg string) verdict {
		v.viol = msg
		v.features = map[string]string{"part": "sequential", "kind": kind, "wrap": wrap, "policy": policyName(k.Policy)}
		return v
	}
	straddle := func(call int) bool {
		for bi := range rel {
			if used[bi][call] && last[bi][call] < first[bi][call] {
				return true
			}
		}
		return false
	}
	wrapTag := func(b bool) string {
		if b {
			return "straddles_nextIndex_wrap"
		}
		return "no"
	}
	for i := 0; i < k.Calls; i++ {
		before := make([]uint32, len(rel))
		for bi, b := range rel {
			before[bi], _ = backend.VerifNextIndex(w.dbi, b)
		}
		got, asked := w.pick(k.Policy)
		p := -1 // the selection of this call = the first pool asked
		if len(asked) > 0 {
			p = asked[0]
		}
		v.picks = append(v.picks, p)
		for bi, b := range rel {
			after, ok := backend.VerifNextIndex(w.dbi, b)
			first[bi] = append(first[bi], before[bi]+1)
			last[bi] = append(last[bi], after)
			used[bi] = append(used[bi], ok && after != before[bi])
			if ok && after-before[bi] > 1 {
				v.skipped = true
			}
		}
		poolFailed := false // a pool asked earlier in this call could not hand out a connection
		for _, a := range asked {
			n := k.Nodes[a]
			switch {
			case n.W == 0:
				return fail("zero_weight_picked", wrapTag(straddle(i)), fmt.Sprintf("call %d picked node %d whose weight is 0 (pools asked: %v)", i, a, asked))
			case n.Down && ri.eligibleUp:
				return fail("down_picked", wrapTag(straddle(i)), fmt.Sprintf("call %d picked node %d which is down while an eligible replica is up (pools asked: %v)", i, a, asked))
			case k.Policy == backend.LocalSlaveReadForce && n.Remote:
				return fail("force_local_picked_remote", wrapTag(straddle(i)), fmt.Sprintf("call %d picked remote node %d under force-local (pools asked: %v)", i, a, asked))
			case k.Policy == backend.LocalSlaveReadPrefer && n.Remote && ri.localServe && !poolFailed:
				return fail("prefer_local_picked_remote", wrapTag(straddle(i)), fmt.Sprintf("call %d picked remote node %d under prefer-local although a local replica can serve (pools asked: %v)", i, a, asked))
			}
			if n.Remote && k.Policy == backend.LocalSlaveReadPrefer {
				v.skipped = true
			}
			if n.GetFail {
				poolFailed = true
				v.skipped = true
			}
		}
		if got < 0 && !poolFailed && ri.eligibleUp {
			return fail("no_pick_although_eligible_up", wrapTag(straddle(i)),
				fmt.Sprintf("call %d failed although a replica the policy may use is up and no pool refused a connection", i))
		}
	}
	if ri.allUp && ri.L > 0 {
		cnt := make([]int, len(k.Nodes))
		for i, p := range v.picks {
			if p < 0 {
				return fail("no_pick_although_eligible_up", "no", fmt.Sprintf("call %d asked no pool although all replicas are up", i))
			}
			cnt[p]++
			if i >= ri.L {
				cnt[v.picks[i-ri.L]]--
			}
			if i >= ri.L-1 {
				a := i - ri.L + 1
				for j := range cnt {
					if cnt[j] != ri.want[j] {
						// the window consumed one counter value per call on the one balancer in use
						str := false
						for bi := range rel {
							if used[bi][a] && used[bi][i] && last[bi][i] < last[bi][a] {
								str = true
							}
						}
						return fail("window_count", wrapTag(str),
							fmt.Sprintf("calls %d..%d (window of L=%d) picked node %d %d times, normalized weight is %d; picks=%v", a, i, ri.L, j, cnt[j], ri.want[j], v.picks[a:i+1]))
					}
				}
			}
		}
	}
	return v
}

func runCase(k kase) verdict { return safeRun(nil, k) }

// safeRun runs k on w (nil: on fresh objects); a panic of the code under test is a violation.
func safeRun(w *world, k kase) (v verdict) {
	if p := ev.Catch(func() {
		if w == nil {
			w = build(k.Nodes, k.Tape)
		}
		v = runOn(w, k)
	}); p != nil {
		v = verdict{viol: fmt.Sprintf("panic: %v", p), features: map[string]string{"part": "sequential", "kind": "panic", "wrap": "no", "policy": policyName(k.Policy)}}
	}
	return v
}

// ---- enumeration ----------------------------------------------------------------------

var weightOrder = []int{1, 0, 2, 3, 4, 5, 6, 7, 8} // default first (for Deviations)

func listsProduct(n int, weights []int) int {
	p := 1
	for i := 0; i < n; i++ {
		p *= len(weights) * 4
	}
	return p
}

func decodeList(idx, n int, weights []int) []nodeSpec {
	ns := make([]nodeSpec, n)
	per := len(weights) * 4
	for i := n - 1; i >= 0; i-- {
		d := idx % per
		idx /= per
		ns[i] = nodeSpec{W: weights[d/4], Remote: d%4/2 == 1, Down: d%2 == 1}
	}
	return ns
}

// decodeListF: like decodeList with a fourth per-node dimension, GetFail.
func decodeListF(idx, n int, weights []int) []nodeSpec {
	ns := make([]nodeSpec, n)
	per := len(weights) * 8
	for i := n - 1; i >= 0; i-- {
		d := idx % per
		idx /= per
		ns[i] = nodeSpec{W: weights[d/8], Remote: d%8/4 == 1, Down: d%4/2 == 1, GetFail: d%2 == 1}
	}
	return ns
}

func listsProductF(n int, weights []int) int {
	p := 1
	for i := 0; i < n; i++ {
		p *= len(weights) * 8
	}
	return p
}

// tapes returns the shuffle tapes to try for one (list, policy): all answer vectors for the
// shuffles of the balancers the policy uses when there are at most limit of them, else a
// fixed family of arrangements (identity, rotation, ...). Calls that belong to balancers the
// policy does not use answer "no swap".
func tapes(probe *world, policy int, limit int) (out [][]int, full bool) {
	ns := probe.ns
	// which Intn calls belong to which balancer: InitBalancers shuffles global, local, remote
	// in this order, len(queue)-1 draws each (none for queues shorter than 2)
	relSet := map[string]bool{}
	for _, b := range relevant(policy) {
		relSet[b] = true
	}
	isRel := make([]bool, len(ns))
	pos, sum := 0, 0
	for _, b := range whichAll {
		q := backend.VerifQueue(probe.dbi, b)
		c := 0
		if len(q) > 1 {
			c = len(q) - 1
		}
		sum += c
		for j := 0; j < c && pos < len(ns); j++ {
			isRel[pos] = relSet[b]
			pos++
		}
	}
	if sum != len(ns) { // the implementation draws differently from what is assumed here: vary everything
		for i := range isRel {
			isRel[i] = true
		}
	}
	total := 1
	for i, n := range ns {
		if isRel[i] {
			total *= n
			if total > limit {
				break
			}
		}
	}
	if total <= limit {
		dims := []int{}
		idxOf := []int{}
		for i, n := range ns {
			if isRel[i] {
				dims = append(dims, n)
				idxOf = append(idxOf, i)
			}
		}
		if len(dims) == 0 {
			return [][]int{nil}, true
		}
		enum.Product(dims, func(ix []int) {
			t := make([]int, len(ns))
			for i := range t {
				t[i] = ns[i] - 1
			}
			for j, i := range idxOf {
				t[i] = ix[j]
			}
			out = append(out, t)
		})
		return out, true
	}
	pat := []func(i, n int) int{
		func(i, n int) int { return n - 1 },       // identity
		func(i, n int) int { return 0 },           // rotation by one
		func(i, n int) int { return (n - 1) / 2 }, // middle
		func(i, n int) int { return (i % 2) * (n - 1) },
		func(i, n int) int {
			if n > 1 {
				return 1
			}
			return 0
		},
	}
	for _, f := range pat {
		t := make([]int, len(ns))
		for i, n := range ns {
			t[i] = n - 1
			if isRel[i] {
				t[i] = f(i, n)
			}
		}
		out = append(out, t)
	}
	return out, false
}

func maxRelLen(w *world, policy int) int {
	m := 0
	for _, b := range relevant(policy) {
		if l := len(backend.VerifQueue(w.dbi, b)); l > m {
			m = l
		}
	}
	return m
}

type stats struct {
	Evals      int64 `json:"evals"`
	Lists      int64 `json:"lists"`
	Cases      int64 `json:"cases"`
	FullPerm   int64 `json:"full_perm"`
	Nontrivial int64 `json:"nontrivial"`
	WrapRuns   int64 `json:"wrap_runs"`
}

type group struct {
	name  string
	count int
	get   func(i int) []nodeSpec
}

func groupsFor(r *ev.Run) []group {
	var groups []group
	fullW := []int{0, 1, 2, 3, 4, 5, 6, 7, 8}
	maxFull := r.Pick(3, 4)
	for n := 0; n <= maxFull; n++ {
		n := n
		groups = append(groups, group{fmt.Sprintf("n=%d full product (weights 0-8 x dc x status)", n), listsProduct(n, fullW), func(i int) []nodeSpec { return decodeList(i, n, fullW) }})
	}
	if r.Quick() {
		w4 := []int{0, 1, 2}
		groups = append(groups, group{"n=4 product with weights {0,1,2} x dc x status", listsProduct(4, w4), func(i int) []nodeSpec { return decodeList(i, 4, w4) }})
	}
	// environment answer "the pool of replica i cannot hand out a connection", combined with
	// weights, datacenters and down-marked replicas
	type fg struct {
		n int
		w []int
	}
	fgs := []fg{{2, []int{0, 1, 2}}, {3, []int{0, 1, 2}}, {4, []int{1}}}
	if r.Thorough() {
		fgs = []fg{{2, []int{0, 1, 2, 3, 4}}, {3, []int{0, 1, 2, 3, 4}}, {4, []int{0, 1, 2}}}
	}
	for _, g := range fgs {
		g := g
		groups = append(groups, group{fmt.Sprintf("n=%d product with weights %v x dc x status x pool-Get fails/works", g.n, g.w), listsProductF(g.n, g.w), func(i int) []nodeSpec { return decodeListF(i, g.n, g.w) }})
	}
	for n := 5; n <= 6; n++ {
		dims := make([]int, 3*n)
		for i := 0; i < n; i++ {
			dims[3*i], dims[3*i+1], dims[3*i+2] = len(weightOrder), 2, 2
		}
		var ls [][]nodeSpec
		enum.Deviations(dims, r.Pick(2, 3), func(ix []int) {
			l := make([]nodeSpec, n)
			for i := range l {
				l[i] = nodeSpec{W: weightOrder[ix[3*i]], Remote: ix[3*i+1] == 1, Down: ix[3*i+2] == 1}
			}
			ls = append(ls, l)
		})
		groups = append(groups, group{fmt.Sprintf("n=%d, at most %d deviations from (weight 1, local, up)", n, r.Pick(2, 3)), len(ls), func(i int) []nodeSpec { return ls[i] }})
	}
	return groups
}

type violRec struct {
	Features map[string]string `json:"features"`
	Summary  string            `json:"summary"`
	Case     kase              `json:"case"`
	Count    int64             `json:"count"`
}

// shardOut is what one worker process reports (vrand.Chooser and math/rand's global seed
// are process-global, so part (a) is sharded over processes, not goroutines).
type shardOut struct {
	Stats     stats         `json:"stats"`
	GroupRuns []int64       `json:"group_runs"`
	GroupDone []int         `json:"group_done"`
	Profiles  []string      `json:"profiles"`
	Samples   []interface{} `json:"samples"`
	Viol      []violRec     `json:"viol"`
	Capped    bool          `json:"capped"`
	Error     string        `json:"error"`
}

// enumerateShard runs every list with index%n==k of every group.
func enumerateShard(r *ev.Run, k, n int, deadline time.Time) *shardOut {
	groups := groupsFor(r)
	permLimit := r.Pick(6, 120)
	out := &shardOut{GroupRuns: make([]int64, len(groups)), GroupDone: make([]int, len(groups))}
	profiles := map[string]bool{}
	sampled := map[string]bool{}
	viol := map[string]*violRec{}
	for gi, g := range groups {
		for i := k; i < g.count; i += n {
			if i%64 == k%64 && time.Now().After(deadline) {
				out.Capped = true
				break
			}
			nodes := g.get(i)
			out.Stats.Lists++
			out.GroupDone[gi]++
			for policy := 0; policy <= 2; policy++ {
				out.Stats.Cases++
				var probe *world
				var ts [][]int
				var full bool
				if p := ev.Catch(func() {
					probe = build(nodes, nil)
					ts, full = tapes(probe, policy, permLimit)
				}); p != nil {
					c := kase{Nodes: nodes, Policy: policy, Calls: 1}
					sig := "panic-build"
					if viol[sig] == nil {
						viol[sig] = &violRec{Features: map[string]string{"part": "sequential", "kind": "panic", "wrap": "no", "policy": policyName(policy)}, Case: c,
							Summary: fmt.Sprintf("nodes=%+v: building the balancers panics: %v", nodes, p)}
					}
					viol[sig].Count++
					continue
				}
				if full {
					out.Stats.FullPerm++
				}
				L := maxRelLen(probe, policy)
				ri := reference(nodes, policy)
				var starts []uint32
				calls := r.Pick(L+2, 2*L+2)
				if ri.allUp {
					starts = []uint32{0, uint32(0) - uint32(L+1)}
					calls = 3*L + 2
				} else if r.Quick() && L > 4 {
					// calls that begin at 2^32-k consume k..: the ends, the middle and both sides of the wrap
					starts = []uint32{0, uint32(0) - uint32(L+1), uint32(0) - uint32((L+1)/2), ^uint32(1), ^uint32(0)}
				} else {
					starts = []uint32{0, 1}
					for b := 1; b <= L+1; b++ {
						starts = append(starts, uint32(0)-uint32(b))
					}
				}
				nontriv := false
				for _, t := range ts {
					var w *world
					if p := ev.Catch(func() { w = build(nodes, t) }); p != nil {
						continue // reported through the probe build
					}
					for _, s := range starts {
						c := kase{Nodes: nodes, Policy: policy, Start: s, Tape: t, Calls: calls}
						v := safeRun(w, c)
						out.Stats.Evals++
						out.GroupRuns[gi]++
						if s > 1 {
							out.Stats.WrapRuns++
						}
						if v.viol != "" {
							sig := fmt.Sprint(v.features)
							vr := viol[sig]
							if vr == nil {
								// first of its kind: re-run 5x on fresh objects before believing it
								for rep := 0; rep < 5; rep++ {
									if v2 := runCase(c); v2.viol != v.viol {
										out.Error = fmt.Sprintf("violation did not reproduce: %+v", c)
										return out
									}
								}
								vr = &violRec{Features: v.features, Case: c,
									Summary: fmt.Sprintf("nodes=%+v policy=%s start=%d tape=%v: %s", nodes, policyName(policy), s, t, v.viol)}
								viol[sig] = vr
							}
							vr.Count++
							continue
						}
						distinct := map[int]bool{}
						for _, p := range v.picks {
							if p >= 0 {
								distinct[p] = true
							}
						}
						if len(distinct) >= 2 || v.skipped {
							nontriv = true
							if s <= 1 {
								profiles[profile(nodes, policy, v)] = true
							}
							sk := fmt.Sprintf("%d/%d/%v/%v", len(nodes), policy, v.skipped, ri.allUp)
							if k == 0 && !sampled[sk] && len(sampled) < 8 && len(nodes) >= 2 {
								sampled[sk] = true
								out.Samples = append(out.Samples, map[string]interface{}{"case": c, "picks": v.picks})
							}
						}
					}
				}
				if nontriv {
					out.Stats.Nontrivial++
				}
			}
		}
		if out.Capped {
			break
		}
	}
	for p := range profiles {
		out.Profiles = append(out.Profiles, p)
	}
	for _, vr := range viol {
		out.Viol = append(out.Viol, *vr)
	}
	sort.Slice(out.Viol, func(i, j int) bool { return out.Viol[i].Summary < out.Viol[j].Summary })
	return out
}

func partA(r *ev.Run) {
	groups := groupsFor(r)
	workers := runtime.NumCPU()
	budget := 35 * time.Second
	if r.Thorough() {
		budget = 10 * time.Minute
	}
	deadline := time.Now().Add(budget)
	self := os.Getenv("VERIF_CHECK_BIN")
	if self == "" {
		self, _ = os.Executable()
	}
	tmp, err := os.MkdirTemp(os.Getenv("VERIF_BUILD_DIR"), "c25a")
	if err != nil {
		ev.Fatalf("%v", err)
	}
	defer os.RemoveAll(tmp)
	outs := make([]*shardOut, workers)
	var wg sync.WaitGroup
	for k := 0; k < workers; k++ {
		wg.Add(1)
		go func(k int) {
			defer wg.Done()
			of := fmt.Sprintf("%s/%d.json", tmp, k)
			cmd := exec.Command(self, r.Tier)
			cmd.Env = append(os.Environ(), fmt.Sprintf("C25_CHILD=%d/%d", k, workers), "C25_OUT="+of,
				"C25_DEADLINE="+strconv.FormatInt(deadline.UnixNano(), 10), "GOMAXPROCS=2")
			cmd.Stderr = os.Stderr
			runErr := cmd.Run()
			o := &shardOut{}
			b, rerr := os.ReadFile(of)
			if rerr != nil || json.Unmarshal(b, o) != nil {
				o.Error = fmt.Sprintf("worker %d/%d failed: %v", k, workers, runErr)
			}
			outs[k] = o
		}(k)
	}
	wg.Wait()
	var st stats
	gRuns := make([]int64, len(groups))
	gDone := make([]int, len(groups))
	capped := false
	for _, o := range outs {
		if o.Error != "" {
			ev.Fatalf("%s", o.Error)
		}
		st.Evals += o.Stats.Evals
		st.Lists += o.Stats.Lists
		st.Cases += o.Stats.Cases
		st.FullPerm += o.Stats.FullPerm
		st.Nontrivial += o.Stats.Nontrivial
		st.WrapRuns += o.Stats.WrapRuns
		for i := range gRuns {
			gRuns[i] += o.GroupRuns[i]
			gDone[i] += o.GroupDone[i]
		}
		capped = capped || o.Capped
		for _, p := range o.Profiles {
			r.Distinct("nontrivial", p)
		}
		for _, s := range o.Samples {
			r.Sample(s)
		}
		for _, v := range o.Viol {
			for c := int64(0); c < v.Count; c++ {
				r.Violation(ev.Witness{Summary: v.Summary, Features: v.Features, Case: v.Case})
			}
		}
	}
	var groupInfo []map[string]interface{}
	completeUpTo := "(none)"
	prefixDone := true
	for i, g := range groups {
		groupInfo = append(groupInfo, map[string]interface{}{"group": g.name, "lists": g.count, "lists_done": gDone[i], "runs": gRuns[i]})
		if prefixDone && gDone[i] == g.count {
			completeUpTo = g.name
		} else {
			prefixDone = false
		}
	}
	if capped {
		r.Capped(fmt.Sprintf("part (a): time budget used up; groups complete up to and including %q", completeUpTo))
	}
	permLimit := r.Pick(6, 120)
	r.Set("evaluations", st.Evals)
	r.Set("lists", st.Lists)
	r.Set("list_policy_cases", st.Cases)
	r.Set("list_policy_cases_nontrivial", st.Nontrivial)
	r.Set("list_policy_cases_all_permutations", st.FullPerm)
	r.Set("runs_started_near_counter_wrap", st.WrapRuns)
	r.Set("groups", groupInfo)
	r.Set("rule", fmt.Sprintf("part (a): every replica list of the groups listed under 'groups' x 3 local-read policies x shuffle answers (all permutations when the balancers in use have at most %d, else 5 fixed arrangements) x initial counters {0, 2^32-L-1} (all up, 3L+2 calls) or (some node down) {0,1,2^32-L-1..2^32-1} with 2L+2 calls in the thorough tier, {0,2^32-L-1,2^32-(L+1)/2,2^32-2,2^32-1} with L+2 calls in the quick tier when L>4; a run is non-trivial when at least two different nodes were picked or a call had to step over a down node / fall back to the remote balancer / met a pool that refused a connection; distinct_nontrivial counts (for the runs starting at counter 0 or 1) distinct (policy, multiset of (weight, dc, status, times picked) over the nodes, failed calls) profiles of non-trivial runs, plus the distinct outcomes of the vsched scenarios of part (b)", permLimit))
	r.Assume("the round-robin counter is set through an injected accessor (values near 2^32 stand for a balancer that has served ~4.3e9 selections)")
	r.Assume("fake pools hand out a connection unless the list marks the replica's pool as failing (ConnTypeError from Get); being asked for a connection counts as being picked")
	r.Assume("'a selection must succeed while a replica the policy may use is up' is read into 'a down replica is never picked while another eligible replica is up'")
}

func main() {
	gx.Quiet()
	r := ev.Start("C25", "exploration")
	scs := scenarios(r)
	if os.Getenv("VX_CHILD") != "" {
		vx.Main(r, scs)
	}
	if ch := os.Getenv("C25_CHILD"); ch != "" {
		var k, n int
		fmt.Sscanf(ch, "%d/%d", &k, &n)
		dl, _ := strconv.ParseInt(os.Getenv("C25_DEADLINE"), 10, 64)
		debug.SetGCPercent(800) // tiny live heap, high allocation rate
		o := enumerateShard(r, k, n, time.Unix(0, dl))
		b, _ := json.Marshal(o)
		if err := os.WriteFile(os.Getenv("C25_OUT"), b, 0o644); err != nil {
			ev.Fatalf("%v", err)
		}
		os.Exit(0)
	}
	var rc kase
	if r.ReplayCase(&rc) {
		if rc.Scenario != "" {
			vx.Main(r, scs) // a vsched witness
		}
		v := runCase(rc)
		fmt.Printf("replay %+v\n  picks=%v\n  violation=%q features=%v\n", rc, v.picks, v.viol, v.features)
		if v.viol != "" {
			r.Violation(ev.Witness{Summary: v.viol, Features: v.features, Case: rc})
		}
		r.Finish()
	}
	partA(r)
	vx.Main(r, scs, "part (b): shuffle answers are fixed per scenario (identity or rotation); DBInfo's mutex and the balancer's atomic counter are the scheduling points")
}

// profile: what kind of list this was and what the picks looked like, independent of node order.
func profile(nodes []nodeSpec, policy int, v verdict) string {
	cnt := make([]int, len(nodes))
	fails := 0
	for _, p := range v.picks {
		if p >= 0 {
			cnt[p]++
		} else {
			fails++
		}
	}
	var parts []string
	for i, n := range nodes {
		parts = append(parts, fmt.Sprintf("%d%v%v%v:%d", n.W, n.Remote, n.Down, n.GetFail, cnt[i]))
	}
	sort.Strings(parts)
	return fmt.Sprintf("%d|%s|f%d", policy, strings.Join(parts, ","), fails)
}

// ---- part (b): vsched scenarios --------------------------------------------------------

type vscenario struct {
	Name    string     `json:"name"`
	Nodes   []nodeSpec `json:"nodes"`
	Policy  int        `json:"policy"`
	Rotate  bool       `json:"rotate"`  // shuffle answers: all 0 (rotation) instead of identity
	Threads []int      `json:"threads"` // selections per thread
	Bound   int        `json:"bound"`
}

type vworld struct {
	sc       vscenario
	w        *world
	seq      []int   // picks of the same number of sequential calls
	got      [][]int // picks per thread
	viol     string
	finalMsg string
}

var vw *vworld

func vtape(sc vscenario) []int {
	if !sc.Rotate {
		return nil
	}
	return make([]int, 64) // all zero
}

func vsetup(sc vscenario) {
	total := 0
	for _, c := range sc.Threads {
		total += c
	}
	ref := build(sc.Nodes, vtape(sc))
	var seq []int
	for i := 0; i < total; i++ {
		g, _ := ref.pick(sc.Policy)
		seq = append(seq, g)
	}
	vw = &vworld{sc: sc, w: build(sc.Nodes, vtape(sc)), seq: seq, got: make([][]int, len(sc.Threads))}
	vw.w.concurrent = true
}

func multiset(ps []int) string {
	c := append([]int{}, ps...)
	sort.Ints(c)
	return fmt.Sprint(c)
}

func vbody() {
	ww := vw
	for i, calls := range ww.sc.Threads {
		i, calls := i, calls
		vsched.GoNamed(fmt.Sprintf("T%d", i), func() {
			for c := 0; c < calls; c++ {
				g, _ := ww.w.pick(ww.sc.Policy)
				ww.got[i] = append(ww.got[i], g)
			}
		})
	}
	vsched.WaitOthers()
	var all []int
	for _, g := range ww.got {
		all = append(all, g...)
	}
	if multiset(all) != multiset(ww.seq) {
		ww.viol = fmt.Sprintf("concurrent picks %v (per thread %v) differ as a multiset from the sequential picks %v", multiset(all), ww.got, multiset(ww.seq))
	}
	ww.finalMsg = fmt.Sprint(ww.got)
}

func scenarios(r *ev.Run) []*vx.Scenario {
	list := []vscenario{
		{Name: "allup-211-2x2", Nodes: []nodeSpec{{W: 2}, {W: 1}, {W: 1}}, Policy: 0, Threads: []int{2, 2}, Bound: 2},
		{Name: "down-up-3x1", Nodes: []nodeSpec{{W: 1, Down: true}, {W: 1}}, Policy: 0, Threads: []int{1, 1, 1}, Bound: 3},
		{Name: "down-up-up-2x2", Nodes: []nodeSpec{{W: 1, Down: true}, {W: 2}, {W: 1}}, Policy: 0, Rotate: true, Threads: []int{2, 2}, Bound: 2},
		{Name: "prefer-fallback-1+2", Nodes: []nodeSpec{{W: 1, Down: true}, {W: 1, Remote: true}, {W: 2, Remote: true}}, Policy: 1, Threads: []int{1, 2}, Bound: 2},
		{Name: "force-local-3x1", Nodes: []nodeSpec{{W: 1}, {W: 2}, {W: 3, Remote: true}}, Policy: 2, Threads: []int{1, 1, 1}, Bound: 2},
		{Name: "allup-12-3x3", Nodes: []nodeSpec{{W: 1}, {W: 2}}, Policy: 0, Rotate: true, Threads: []int{3, 3, 3}, Bound: 1},
	}
	if r.Thorough() {
		list = append(list,
			vscenario{Name: "down-mix-3x2", Nodes: []nodeSpec{{W: 2, Down: true}, {W: 1}, {W: 1, Down: true}, {W: 1}}, Policy: 0, Threads: []int{2, 2, 2}, Bound: 2},
			vscenario{Name: "prefer-mixed-3x2", Nodes: []nodeSpec{{W: 1}, {W: 1, Down: true}, {W: 1, Remote: true}}, Policy: 1, Threads: []int{2, 2, 2}, Bound: 2},
		)
	}
	var scs []*vx.Scenario
	for _, sc := range list {
		sc := sc
		scs = append(scs, &vx.Scenario{
			Name: sc.Name, Bound: sc.Bound, Spec: sc,
			Before:   func() { vsetup(sc) },
			Body:     vbody,
			Features: map[string]string{"part": "concurrent", "wrap": "no", "policy": policyName(sc.Policy)},
			Classify: func(x *vsched.Exec) (string, string, string, string) {
				if k, d, n := vx.DefaultClassify(x); k != "" {
					return k, d, n, vw.finalMsg
				}
				if vw.viol != "" {
					return "multiset_differs", vw.viol, "multiset_differs", vw.finalMsg
				}
				return "", "", "", vw.finalMsg
			},
		})
	}
	return scs
}
