//go:build verif

package backend

// Accessors for the C25 harness (injected by build overlay; not part of Gaea).

func verifBal(d *DBInfo, which string) *balancer {
	switch which {
	case "global":
		return d.GlobalBalancer
	case "local":
		return d.LocalBalancer
	case "remote":
		return d.RemoteBalancer
	}
	return nil
}

// VerifSetNextIndex sets the round-robin counter of one balancer (false: no such balancer).
func VerifSetNextIndex(d *DBInfo, which string, v uint32) bool {
	b := verifBal(d, which)
	if b == nil {
		return false
	}
	b.nextIndex = v
	return true
}

// VerifNextIndex reads the counter (0,false when the balancer does not exist).
func VerifNextIndex(d *DBInfo, which string) (uint32, bool) {
	b := verifBal(d, which)
	if b == nil {
		return 0, false
	}
	return b.nextIndex, true
}

// VerifQueue returns a copy of the expanded round-robin queue (nil: no such balancer).
func VerifQueue(d *DBInfo, which string) []int {
	b := verifBal(d, which)
	if b == nil {
		return nil
	}
	return append([]int{}, b.roundRobinQ...)
}
