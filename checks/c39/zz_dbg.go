package main

import (
	"os"
	"runtime/pprof"
	"time"
)

func init() {
	if os.Getenv("C39_DUMP") != "" {
		go func() {
			time.Sleep(3 * time.Second)
			pprof.Lookup("goroutine").WriteTo(os.Stderr, 1)
		}()
	}
}
