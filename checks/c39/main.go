// C39: results are complete or an error, never silently truncated.
//
// Engine: enum. A real Gaea server.Server (in-process, loopback) with three namespaces
// (row limit 1, 3, unlimited) in front of two fakemysql backends. Every case sends one
// SELECT whose result the backend generates on the fly (R rows of S bytes per physical
// statement, content a function of (tag, physical table, row index)), through one of four
// routing paths and one of two client protocols, and compares what the byte-level client
// received with what the backends were asked to produce.
package main

import (
	"fmt"
	"hash/crc32"
	"hash/fnv"
	"os"
	"regexp"
	"runtime/debug"
	"sort"
	"strconv"
	"strings"
	"sync"
	"time"

	"github.com/XiaoMi/Gaea/models"

	"verif/engine/ev"
	"verif/engine/gx"
	"verif/ref/e2erig"
	"verif/ref/fakemysql"
)

const (
	MiB       = 1 << 20
	threshold = 1<<24 - 1 // mysql.MaxPayloadLen: readResultRows breaks when the summed row payloads exceed it
)

// Case is one statement. R and S are per physical statement (per shard).
type Case struct {
	Limit int    `json:"limit"` // namespace max_sql_result_size: 1, 3 or -1 (unlimited)
	Path  string `json:"path"`  // unsharded | shard1 | shard2slices | shard2tables
	Proto string `json:"proto"` // text | binary (COM_STMT_EXECUTE)
	R     int    `json:"rows"`
	S     int    `json:"row_bytes"`
	Last  int    `json:"last_row_bytes,omitempty"` // > 0: the last row has this size instead
	HeadN int    `json:"head_rows,omitempty"`      // > 0: the first HeadN rows have size HeadS instead
	HeadS int    `json:"head_row_bytes,omitempty"`
	Note  string `json:"note,omitempty"`
}

func (c Case) String() string {
	if c.HeadN > 0 {
		return fmt.Sprintf("limit=%d path=%s proto=%s rows=%d (first %d rows of %d bytes, then rows of %d bytes)", c.Limit, c.Path, c.Proto, c.R, c.HeadN, c.HeadS, c.S)
	}
	if c.Last > 0 {
		return fmt.Sprintf("limit=%d path=%s proto=%s rows=%d row_bytes=%d last_row_bytes=%d", c.Limit, c.Path, c.Proto, c.R, c.S, c.Last)
	}
	return fmt.Sprintf("limit=%d path=%s proto=%s rows=%d row_bytes=%d", c.Limit, c.Path, c.Proto, c.R, c.S)
}

var paths = []string{"unsharded", "shard1", "shard2slices", "shard2tables"}

// physical tables a statement of each path is executed on (one physical statement each)
var physTables = map[string][]string{
	"unsharded":    {"tp"},
	"shard1":       {"ts_0000"},
	"shard2slices": {"ts_0000", "ts_0001"},
	"shard2tables": {"tt_0000", "tt_0001"},
}
var protos = []string{"text", "binary"}

// payload length of one text row with one column of s bytes
func rowPayload(s int) int {
	switch {
	case s < 251:
		return s + 1
	case s < 1<<16:
		return s + 3
	case s < 1<<24:
		return s + 4
	}
	return s + 9
}

// shape of one physical result: R rows of S bytes; optionally the first HeadN rows have
// HeadS bytes and/or the last row has Last bytes.
type shape struct{ R, S, Last, HeadN, HeadS int }

func (c Case) shape() shape { return shape{c.R, c.S, c.Last, c.HeadN, c.HeadS} }

func sizeOf(i int, sh shape) int {
	if i < sh.HeadN {
		return sh.HeadS
	}
	if sh.Last > 0 && i == sh.R-1 {
		return sh.Last
	}
	return sh.S
}

// totalPayload of the first n rows
func totalPayload(n int, sh shape) int {
	t := 0
	for i := 0; i < n; i++ {
		t += rowPayload(sizeOf(i, sh))
	}
	return t
}

// chunks = rows per 16 MiB chunk as the backend reader cuts them: a chunk ends with the row
// that takes the buffered payload above the threshold.
func chunks(sh shape) []int {
	var out []int
	n, sum := 0, 0
	for i := 0; i < sh.R; i++ {
		n++
		sum += rowPayload(sizeOf(i, sh))
		if sum > threshold {
			out = append(out, n)
			n, sum = 0, 0
		}
	}
	return append(out, n)
}

// ---- rig -------------------------------------------------------------------------------

type stmtRec struct {
	table string
	n     int
	size  int
	seed  uint64
}

type rig struct {
	fakes [2]*fakemysql.Server
	proxy *e2erig.Proxy
	nss   []*models.Namespace
	mu    sync.Mutex
	stmts map[int][]stmtRec // tag -> physical statements the backends answered (calibration only)
	// the handler records statements only while this is set
	recording bool
	tag       int
	// calibration statements whose rows did not reach the client although the backends saw
	// exactly the expected tables (reported as violations by main)
	calibrationViolations []calibViol
}

var (
	reR    = regexp.MustCompile("(?i)[` ]r`?\\s*=\\s*(\\d+)")
	reS    = regexp.MustCompile("(?i)[` ]s`?\\s*=\\s*(\\d+)")
	reB    = regexp.MustCompile("(?i)[` ]b`?\\s*=\\s*(\\d+)")
	reHN   = regexp.MustCompile("(?i)[` ]hn`?\\s*=\\s*(\\d+)")
	reHZ   = regexp.MustCompile("(?i)[` ]hz`?\\s*=\\s*(\\d+)")
	reTag  = regexp.MustCompile("(?i)[` ]tag`?\\s*=\\s*(\\d+)")
	reFrom = regexp.MustCompile("(?i)\\bfrom\\s+(?:`?\\w+`?\\.)?`?(\\w+)`?")
)

func seedOf(tag int, table string) uint64 {
	h := fnv.New64a()
	h.Write([]byte(table))
	return h.Sum64() ^ uint64(tag)<<24
}

func (g *rig) handler(c *fakemysql.ConnInfo, sql string) *fakemysql.Result {
	mt := reTag.FindStringSubmatch(sql)
	mr := reR.FindStringSubmatch(sql)
	ms := reS.FindStringSubmatch(sql)
	mf := reFrom.FindStringSubmatch(sql)
	if mt == nil || mr == nil || ms == nil || mf == nil {
		return nil
	}
	tag, _ := strconv.Atoi(mt[1])
	n, _ := strconv.Atoi(mr[1])
	size, _ := strconv.Atoi(ms[1])
	last := 0
	if mb := reB.FindStringSubmatch(sql); mb != nil {
		last, _ = strconv.Atoi(mb[1])
	}
	hn, hz := 0, 0
	if m := reHN.FindStringSubmatch(sql); m != nil {
		hn, _ = strconv.Atoi(m[1])
	}
	if m := reHZ.FindStringSubmatch(sql); m != nil {
		hz, _ = strconv.Atoi(m[1])
	}
	rec := stmtRec{table: strings.ToLower(mf[1]), n: n, size: size}
	rec.seed = seedOf(tag, rec.table)
	g.mu.Lock()
	if g.recording {
		g.stmts[tag] = append(g.stmts[tag], rec)
	}
	g.mu.Unlock()
	return &fakemysql.Result{Cols: []string{"v"}, Gen: &fakemysql.Gen{N: n, Size: size, Seed: rec.seed, LastSize: last, HeadN: hn, HeadSize: hz}}
}

func nsName(limit int) string {
	if limit < 0 {
		return "ns_unlimited"
	}
	return fmt.Sprintf("ns_limit%d", limit)
}

func userOf(limit int) string { return "u_" + nsName(limit) }

func newRig() (*rig, error) {
	g := &rig{stmts: map[int][]stmtRec{}}
	for i := range g.fakes {
		f, err := fakemysql.Start(fakemysql.Options{Name: fmt.Sprintf("b%d", i), Query: g.handler, NoLog: os.Getenv("C39_DEBUG") == ""})
		if err != nil {
			return nil, err
		}
		g.fakes[i] = f
	}
	var nss []*models.Namespace
	for _, limit := range []int{1, 3, -1} {
		ns := e2erig.Namespace(nsName(limit), 1, g.fakes[0].Addr(), g.fakes[1].Addr())
		ns.MaxSqlResultSize = limit
		ns.Users = []*models.User{{UserName: userOf(limit), Password: e2erig.Password, Namespace: ns.Name,
			RWFlag: models.ReadWrite, RWSplit: models.NoReadWriteSplit}}
		ns.ShardRules = []*models.Shard{
			{DB: e2erig.DB, Table: "ts", Type: "hash", Key: "id", Locations: []int{1, 1}, Slices: []string{"slice-0", "slice-1"}},
			{DB: e2erig.DB, Table: "tt", Type: "hash", Key: "id", Locations: []int{2}, Slices: []string{"slice-0"}},
		}
		nss = append(nss, ns)
	}
	p, err := e2erig.StartProxy("c39", nss...)
	if err != nil {
		return nil, err
	}
	g.proxy = p
	g.nss = nss
	g.calibrate()
	return g, nil
}

// calibrate checks the harness's routing assumption: a 1-row statement of every path is
// delivered completely and the backends recorded exactly physTables[path].
type calibViol struct {
	path, class, detail string
	got, want           int
}

func (g *rig) calibrate() {
	g.mu.Lock()
	g.recording = true
	g.mu.Unlock()
	defer func() {
		g.mu.Lock()
		g.recording = false
		g.stmts = map[int][]stmtRec{}
		g.mu.Unlock()
	}()
	for _, p := range paths {
		cl, err := e2erig.Dial(g.proxy.Addr, userOf(-1), e2erig.Password, e2erig.DB, 45, 300*time.Second)
		if err != nil {
			ev.Fatalf("dial proxy: %v", err)
		}
		g.mu.Lock()
		tag := g.tag + 1
		g.mu.Unlock()
		o := g.runStmtKeep(cl, p, "text", shape{R: 1, S: 8}, true)
		cl.Close()
		g.mu.Lock()
		recs := g.stmts[tag]
		delete(g.stmts, tag)
		g.mu.Unlock()
		var got []string
		for _, rec := range recs {
			got = append(got, rec.table)
		}
		sort.Strings(got)
		if strings.Join(got, ",") != strings.Join(physTables[p], ",") {
			ev.Fatalf("calibration of path %s failed: class=%s %s, backends saw tables %v, expected %v", p, o.class, o.detail, got, physTables[p])
		}
		if o.class != "rows" || !sameSums(o.got, o.expected) {
			// the routing assumption holds (the backends saw exactly the expected tables) but
			// the client did not get the rows they produced: that is the property, not the
			// harness (seeded change c39-2 was reported as an engine error here before)
			g.calibrationViolations = append(g.calibrationViolations, calibViol{path: p, class: o.class, detail: o.detail, got: len(o.got), want: len(o.expected)})
		}
	}
}

// reset gives the namespace with that limit fresh connection pools (fresh backend connections, empty
// plan cache): nothing of what earlier statements did to a pooled connection survives.
func (g *rig) reset(limit int) {
	for _, ns := range g.nss {
		if ns.Name != nsName(limit) {
			continue
		}
		if err := g.proxy.ReloadNamespace(ns); err != nil {
			ev.Fatalf("reload namespace: %v", err)
		}
	}
}

func (g *rig) close() {
	if g.proxy != nil {
		g.proxy.Close()
	}
	for _, f := range g.fakes {
		if f != nil {
			f.Close()
		}
	}
}

// ---- one statement ---------------------------------------------------------------------

type outcome struct {
	class    string // rows | ok | error | closed | protocol
	detail   string
	got      []uint32 // crc32 of each received value, sorted
	gotSizes map[int]int
	expected []uint32 // sorted
	nStmts   int
	maxPer   int // rows of the largest physical statement
	// some physical result is larger than the streaming threshold
	multiChunk bool
}

func sqlFor(path string, sh shape, tag int, placeholders bool) (string, []int64) {
	var tbl, extra string
	switch path {
	case "unsharded":
		tbl = "tp"
	case "shard1":
		tbl, extra = "ts", "id = 0 AND "
	case "shard2slices":
		tbl = "ts"
	case "shard2tables":
		tbl = "tt"
	}
	if placeholders {
		return fmt.Sprintf("SELECT v FROM %s WHERE %sr = ? AND s = ? AND b = ? AND hn = ? AND hz = ? AND tag = ?", tbl, extra),
			[]int64{int64(sh.R), int64(sh.S), int64(sh.Last), int64(sh.HeadN), int64(sh.HeadS), int64(tag)}
	}
	return fmt.Sprintf("SELECT v FROM %s WHERE %sr = %d AND s = %d AND b = %d AND hn = %d AND hz = %d AND tag = %d", tbl, extra, sh.R, sh.S, sh.Last, sh.HeadN, sh.HeadS, tag), nil
}

// runStmt sends one statement on cl and classifies the answer.
func (g *rig) runStmt(cl *e2erig.Client, path, proto string, sh shape) outcome {
	return g.runStmtKeep(cl, path, proto, sh, false)
}

func (g *rig) runStmtKeep(cl *e2erig.Client, path, proto string, sh shape, keep bool) outcome {
	r := sh.R
	g.mu.Lock()
	g.tag++
	tag := g.tag
	g.mu.Unlock()
	var o outcome
	o.gotSizes = map[int]int{}
	var rowErr error
	onRow := func(row []byte) {
		var v []byte
		var err error
		if proto == "binary" {
			v, err = e2erig.BinaryRowSingleString(row)
		} else {
			v, err = e2erig.TextRowSingleString(row)
		}
		if err != nil && rowErr == nil {
			rowErr = err
		}
		o.got = append(o.got, crc32.ChecksumIEEE(v))
		o.gotSizes[len(v)]++
	}
	var ri e2erig.ResultInfo
	var err error
	if proto == "binary" {
		q, params := sqlFor(path, sh, tag, true)
		st, perr, e := cl.Prepare(q)
		switch {
		case e != nil:
			err = e
		case perr != nil:
			ri.Err = perr
		default:
			ri, err = cl.Execute(st.ID, params, onRow)
		}
	} else {
		q, _ := sqlFor(path, sh, tag, false)
		ri, err = cl.Query(q, onRow)
	}
	// what the backends produce for this statement is known a priori: R rows of S bytes per
	// physical table of the path (calibrate() checks that table list against the backends'
	// own records at start-up). The records themselves arrive asynchronously when the
	// proxy answers without waiting for the backend, so they are not used for the verdict.
	if !keep {
		g.mu.Lock()
		delete(g.stmts, tag)
		g.mu.Unlock()
	}
	tables := physTables[path]
	o.nStmts = len(tables)
	o.maxPer = r
	o.multiChunk = totalPayload(r, sh) > threshold
	for _, t := range tables {
		seed := seedOf(tag, t)
		for i := 0; i < r; i++ {
			o.expected = append(o.expected, fakemysql.RowSum(seed, i, sizeOf(i, sh)))
		}
	}
	sort.Slice(o.expected, func(i, j int) bool { return o.expected[i] < o.expected[j] })
	sort.Slice(o.got, func(i, j int) bool { return o.got[i] < o.got[j] })
	switch {
	case err != nil && strings.HasPrefix(err.Error(), "protocol:"):
		o.class, o.detail = "protocol", err.Error()
	case err != nil:
		o.class, o.detail = "closed", err.Error()
	case rowErr != nil:
		o.class, o.detail = "protocol", "row: "+rowErr.Error()
	case ri.Err != nil:
		o.class, o.detail = "error", ri.Err.Error()
	case ri.OK:
		o.class = "ok"
	default:
		o.class = "rows"
	}
	return o
}

func sameSums(a, b []uint32) bool {
	if len(a) != len(b) {
		return false
	}
	for i := range a {
		if a[i] != b[i] {
			return false
		}
	}
	return true
}

func limitClass(limit, r int) string {
	switch {
	case limit < 0:
		return "unlimited"
	case r < limit:
		return "below"
	case r == limit:
		return "exact"
	}
	return "above"
}

func sizeClass(sh shape) string {
	r := sh.R
	total := totalPayload(r, sh)
	switch {
	case total <= threshold:
		return "single_chunk"
	case totalPayload(r-1, sh) <= threshold:
		return "threshold_crossed_by_last_row"
	}
	return "multi_chunk"
}

func chunkClass(limit int, sh shape) string {
	if limit <= 0 {
		return "no_limit"
	}
	for _, n := range chunks(sh) {
		if n > limit {
			return "some_chunk_above_limit"
		}
	}
	return "every_chunk_within_limit"
}

// judge applies the oracle to one statement's outcome. It returns "" or the violation kind.
//
//	rows:  the received multiset must equal what the backends produced (else "truncated"
//	       / "corrupted"), and no physical statement may exceed the limit ("limit_not_enforced")
//	error / closed connection: allowed when some per-shard result exceeds the limit, and
//	       in the unlimited namespace when a physical result exceeds the 16 MiB streaming
//	       threshold (there is no limit the statement promises delivery against);
//	       otherwise "error_within_limit" (the statement promises delivery in full)
//	protocol garbage: "protocol"
func judge(limit int, o outcome) string {
	switch o.class {
	case "rows":
		if !sameSums(o.got, o.expected) {
			if len(o.got) < len(o.expected) {
				return "truncated"
			}
			return "corrupted"
		}
		if limit > 0 && o.maxPer > limit {
			return "limit_not_enforced"
		}
		return ""
	case "error", "closed":
		if limit > 0 && o.maxPer > limit {
			return ""
		}
		if limit < 0 && o.multiChunk {
			// no row limit to promise delivery against: "or the client receives an error"
			return ""
		}
		return "error_within_limit"
	case "ok":
		if len(o.expected) > 0 {
			return "truncated"
		}
		return ""
	}
	return "protocol"
}

// attempt = the statement + a small probe statement on the same path through a fresh
// client connection (the pools hold one backend connection per slice, so the probe runs on
// the connection the statement used: rows of the first statement leaking into the next
// one, or a connection left in a broken state, show up in the probe).
type finding struct {
	stage, kind string
	o           outcome
	rows        int
}

func (g *rig) attempt(c Case) (main outcome, fs []finding) {
	dial := func() *e2erig.Client {
		cl, err := e2erig.Dial(g.proxy.Addr, userOf(c.Limit), e2erig.Password, e2erig.DB, 45, 300*time.Second)
		if err != nil {
			ev.Fatalf("dial proxy: %v", err)
		}
		return cl
	}
	cl := dial()
	main = g.runStmt(cl, c.Path, c.Proto, c.shape())
	cl.Close()
	if k := judge(c.Limit, main); k != "" {
		fs = append(fs, finding{"main", k, main, c.R})
	}
	// probe: 1 row of 8 bytes per physical statement (0 rows in the limit-1 namespace, so
	// that the probe itself is below every limit)
	pr := 1
	if c.Limit == 1 {
		pr = 0
	}
	cl = dial()
	po := g.runStmt(cl, c.Path, c.Proto, shape{R: pr, S: 8})
	cl.Close()
	if k := judge(c.Limit, po); k != "" {
		fs = append(fs, finding{"probe", k, po, pr})
	}
	if os.Getenv("C39_DEBUG") != "" {
		for i, f := range g.fakes {
			for _, e := range f.Log() {
				fmt.Fprintf(os.Stderr, "fake%d #%d conn=%d %s %q rej=%q sent=%d\n", i, e.Seq, e.Conn, e.Kind, e.SQL, e.Rejected, e.RowsSent)
			}
		}
		fmt.Fprintf(os.Stderr, "attempt -> main=%s/%s probe=%s/%s\n", main.class, main.detail, po.class, po.detail)
	}
	return main, fs
}

func stage(fs []finding, st string) []finding {
	var out []finding
	for _, f := range fs {
		if f.stage == st {
			out = append(out, f)
		}
	}
	return out
}

func sig(fs []finding) string {
	var sb strings.Builder
	for _, f := range fs {
		sb.WriteString(f.stage + ":" + f.kind + ":" + f.o.class + ";")
	}
	return sb.String()
}

// runCase runs the case. If the oracle fires, the case is re-run after a reset of the rig
// (fresh pools and backend connections: no state carried over from earlier cases) 4 more
// times (2 in the quick tier for results above 8 MiB). The fresh runs must agree with each
// other (else engine error); their verdict is the case's verdict. The rig is reset again
// afterwards, so that a connection left in a bad state cannot affect later cases.
func runCase(r *ev.Run, g *rig, c Case) (key string) {
	main, fs := g.attempt(c)
	if len(fs) > 0 {
		more := 4
		if r.Quick() && totalPayload(c.R, c.shape()) > 8*MiB {
			more = 2
		}
		var fresh []finding
		var fmain outcome
		for i := 0; i < more; i++ {
			g.reset(c.Limit)
			m2, f2 := g.attempt(c)
			if i == 0 {
				fresh, fmain = f2, m2
			} else if sig(stage(f2, "main")) != sig(stage(fresh, "main")) {
				ev.Fatalf("case %s: verdict not reproducible on fresh pools: %q vs %q", c, sig(fresh), sig(f2))
			} else if sig(f2) != sig(fresh) {
				// the probe's outcome differs between runs: a pooled connection that sits idle
				// for more than 4 s (heavily loaded machine) is pinged and replaced by the pool,
				// which hides leftovers. Only what fails identically every time is reported.
				fresh = stage(fresh, "main")
				r.Add("unstable_probe_findings_dropped", 1)
			}
		}
		if sig(fresh) != sig(fs) {
			r.Add("verdicts_changed_on_fresh_pools", 1)
		}
		fs, main = fresh, fmain
		g.reset(c.Limit)
	}
	for _, f := range fs {
		o := f.o
		r.Violation(ev.Witness{
			Summary: fmt.Sprintf("%s [%s]: %s — client got class=%s rows=%d (backends produced %d rows in %d statement(s), max per statement %d) %s",
				c, f.stage, f.kind, o.class, len(o.got), len(o.expected), o.nStmts, o.maxPer, o.detail),
			Features: map[string]string{
				"kind": f.kind, "stage": f.stage, "path": c.Path, "proto": c.Proto,
				"limit": limitClass(c.Limit, f.rows), "size": sizeClass(c.shape()), "client": o.class,
				// does some 16 MiB chunk of the result hold more rows than the limit by itself?
				"chunks": chunkClass(c.Limit, c.shape()),
			},
			Case: c,
		})
	}
	got := "complete"
	if main.class != "rows" {
		got = main.class
	}
	for _, f := range fs {
		got += "+" + f.stage + ":" + f.kind
	}
	return fmt.Sprintf("%s|%s|%s|%s|stmts=%d|%s", c.Path, c.Proto, limitClass(c.Limit, c.R), sizeClass(c.shape()), main.nStmts, got)
}

// ---- universe --------------------------------------------------------------------------

func universe(thorough bool) []Case {
	var cs []Case
	type pp struct{ path, proto string }
	var all []pp
	for _, p := range paths {
		for _, pr := range protos {
			all = append(all, pp{p, pr})
		}
	}
	add := func(on []pp, limit int, r, s int, note string) {
		for _, x := range on {
			cs = append(cs, Case{Limit: limit, Path: x.path, Proto: x.proto, R: r, S: s, Note: note})
		}
	}
	// (1) around the row limit, small rows: all paths x protocols in both tiers
	smallS := []int{1, 1024}
	for _, limit := range []int{1, 3} {
		for _, r := range []int{limit - 1, limit, limit + 1} {
			for _, s := range smallS {
				add(all, limit, r, s, "row limit")
			}
		}
	}
	for _, r := range []int{0, 1, 4} {
		for _, s := range smallS {
			add(all, -1, r, s, "unlimited")
		}
	}
	// (2) around the 16 MiB streaming threshold, unlimited namespace
	type rs struct{ r, s int }
	var big []rs
	around := func(s int) {
		p := rowPayload(s)
		rb := threshold / p // most rows that stay <= threshold
		for _, r := range []int{rb, rb + 1, rb + 2} {
			big = append(big, rs{r, s})
		}
		big = append(big, rs{(33*MiB + p - 1) / p, s})
	}
	if thorough {
		add(all, -1, 10001, 1, "unlimited: more rows than the default limit 10000")
		around(64) // stands in for 1-byte rows (8.4 M rows per case would be needed)
		around(1024)
		around(MiB)
		big = append(big, rs{1, 16*MiB - 1}, rs{2, 16*MiB - 1}, rs{3, 16*MiB - 1})
		big = append(big, rs{1, 16*MiB + 1}, rs{2, 16*MiB + 1})
		big = append(big, rs{1, 16*MiB - 5}, rs{1, 16*MiB - 4}) // payload == threshold / threshold+1
		for _, b := range big {
			add(all, -1, b.r, b.s, "16 MiB threshold")
		}
		// (3) row limit together with streaming: limit 3, rows of 9 MiB (a chunk holds 2 rows)
		for _, r := range []int{2, 3, 4, 5} {
			add(all, 3, r, 9*MiB, "row limit across 16 MiB chunks")
		}
	} else {
		// quick: one > 16 MiB result per path (text; binary on the unsharded path too) and
		// one limit-with-streaming case
		q := []pp{{"unsharded", "binary"}, {"shard1", "text"}, {"shard2slices", "text"}, {"shard2tables", "text"}}
		add([]pp{{"unsharded", "text"}, {"shard2slices", "binary"}}, -1, 10001, 1, "unlimited: more rows than the default limit 10000")
		add(q, -1, 17, MiB, "16 MiB threshold")
		add([]pp{{"unsharded", "text"}}, -1, 33, MiB, "16 MiB threshold, three chunks")
		add([]pp{{"unsharded", "text"}}, 3, 4, 9*MiB, "row limit across 16 MiB chunks")
	}
	// (4) the row limit and the 16 MiB threshold coincide: the row that takes the buffered
	// chunk above the threshold is the limit-th, (limit+1)-th or (limit+2)-th row of the
	// result (uniform rows of 16 MiB/k + 64 KiB cross at row k), and "tiny rows + one 17 MiB
	// row" where the big row is the (limit+1)-th
	co := []pp{{"unsharded", "text"}, {"shard1", "text"}}
	if thorough {
		co = all
	}
	for _, limit := range []int{1, 3} {
		for _, k := range []int{limit, limit + 1, limit + 2} {
			rows := limit + 1
			if k > rows {
				rows = k
			}
			for _, x := range co {
				cs = append(cs, Case{Limit: limit, Path: x.path, Proto: x.proto, R: rows, S: 16*MiB/k + 64*1024,
					Note: fmt.Sprintf("limit x threshold: row %d crosses 16 MiB", k)})
			}
		}
		for _, x := range co {
			cs = append(cs, Case{Limit: limit, Path: x.path, Proto: x.proto, R: limit + 1, S: 8, Last: 17 * MiB,
				Note: "limit x threshold: tiny rows, then one 17 MiB row as row limit+1"})
		}
	}
	// (5) streamed results in which the position of the 16 MiB chunk boundary relative to the
	// row limit is enumerated: the first chunk holds k rows (k big rows of 16 MiB/k + 64 KiB:
	// the k-th crosses the threshold), k in {limit-1, limit, limit+1}, followed by m rows of
	// 8 bytes in the next chunk, m in {0, 1, limit-1, limit, limit+1}; unsharded (the only
	// streaming path)
	st := []pp{{"unsharded", "text"}}
	if thorough {
		st = []pp{{"unsharded", "text"}, {"unsharded", "binary"}}
	}
	for _, limit := range []int{1, 3} {
		for _, k := range []int{limit - 1, limit, limit + 1} {
			if k < 1 {
				continue
			}
			seen := map[int]bool{}
			for _, m := range []int{0, 1, limit - 1, limit, limit + 1} {
				if m < 0 || seen[m] {
					continue
				}
				seen[m] = true
				for _, x := range st {
					cs = append(cs, Case{Limit: limit, Path: x.path, Proto: x.proto, R: k + m, S: 8, HeadN: k, HeadS: 16*MiB/k + 64*1024,
						Note: fmt.Sprintf("chunk boundary x limit: first chunk %d rows, next chunk %d rows", k, m)})
				}
			}
		}
	}
	return cs
}

func main() {
	gx.Quiet()
	debug.SetGCPercent(400)
	r := ev.Start("C39", "exploration")
	var rc Case
	if r.ReplayCase(&rc) {
		g, err := newRig()
		if err != nil {
			ev.Fatalf("rig: %v", err)
		}
		key := runCase(r, g, rc)
		fmt.Println("replay:", rc, "->", key)
		g.close()
		r.Finish()
	}
	g, err := newRig()
	if err != nil {
		ev.Fatalf("rig: %v", err)
	}
	for _, cv := range g.calibrationViolations {
		r.Violation(ev.Witness{Summary: fmt.Sprintf("1-row-per-table statement on path %s: backends produced %d row(s), client got class=%s %s (%d row(s))", cv.path, cv.want, cv.class, cv.detail, cv.got),
			Features: map[string]string{"kind": "truncated", "path": cv.path, "size": "tiny", "stage": "calibration", "client": cv.class},
			Case:     Case{}})
	}
	cases := universe(r.Thorough())
	r.Set("universe", len(cases))
	outcomes := map[string]int{}
	for i, c := range cases {
		if r.TimeUp() {
			r.Capped(fmt.Sprintf("first %d of %d cases (enumeration order: row-limit cases, threshold cases, limit-with-streaming cases)", i, len(cases)))
			break
		}
		t0 := time.Now()
		key := runCase(r, g, c)
		if d := time.Since(t0); d > 100*time.Millisecond && os.Getenv("VERIF_C39_TIMING") != "" {
			fmt.Fprintf(os.Stderr, "slow %.1fs %s -> %s\n", d.Seconds(), c, key)
		}
		r.Add("evaluations", 1)
		r.Add("statements_sent", 2)
		outcomes[key]++
		// non-trivial: rows were delivered in more than one chunk, or merged from 2
		// physical statements, or the limit produced an error, or the case is a violation
		if !strings.HasSuffix(key, "|single_chunk|stmts=1|complete") {
			r.Distinct("nontrivial", key)
		}
		r.Distinct("outcomes", key)
		if i%29 == 0 {
			r.Sample(map[string]interface{}{"case": c, "outcome": key})
		}
	}
	g.close()
	r.Set("rule", "cases = {limit 1,3: R in limit-1..limit+1; unlimited: R in 0,1,4,10001} x S in {1B,1KiB}  +  unlimited: (R,S) with R*payload(S) just below / just above / one row above the 16 MiB-1 streaming threshold and 33 MiB (quick: 17 x 1 MiB)  +  limit 3 with 9 MiB rows; +  limit {1,3} x 'the row crossing 16 MiB is row limit / limit+1 / limit+2' (uniform rows of 16 MiB/k+64 KiB) and 'limit tiny rows then one 17 MiB row' (quick: unsharded and sharded-one-table, text); +  limit {1,3} x 'first 16 MiB chunk holds limit-1 / limit / limit+1 rows' x 'next chunk holds 0 / 1 / limit-1 / limit / limit+1 rows' (unsharded streaming; quick: text);  each x path {unsharded, sharded 1 table, sharded 2 slices, sharded 2 tables on one slice} x protocol {COM_QUERY, COM_STMT_EXECUTE}; each case is followed by a 1-row probe statement on the same path. A case is non-trivial when its observed outcome is not 'one physical statement, one chunk, delivered completely' (i.e. the result was streamed in several chunks, merged from two physical statements, refused by the row limit, or violated the oracle); distinct = distinct (path, protocol, limit class, size class, statements, outcome)")
	r.Set("outcome_histogram", outcomes)
	r.Assume("fakemysql produces exactly the rows it is asked for (R rows of S bytes per physical statement, CRC-32 per row recomputed from (tag, table, row index)); framing of the fake and of the client is written from the protocol description")
	r.Assume("a closed connection or an ERR packet (also after some rows) counts as 'the client receives an error'")
	r.Finish()
}
