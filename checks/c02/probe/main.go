package main

import (
	"fmt"

	"github.com/XiaoMi/Gaea/parser"
	"github.com/XiaoMi/Gaea/parser/ast"
	_ "github.com/XiaoMi/Gaea/parser/tidb-types/parser_driver"
)

func dump(sql string) {
	st, err := parser.New().ParseOneStmt(sql, "", "")
	if err != nil {
		fmt.Println("ERR", sql, err)
		return
	}
	switch s := st.(type) {
	case *ast.SelectStmt:
		fmt.Printf("%s\n  where=%T", sql, s.Where)
		if b, ok := s.Where.(*ast.BinaryOperationExpr); ok {
			fmt.Printf(" L=%T R=%T op=%v", b.L, b.R, b.Op)
		}
		if u, ok := s.Where.(*ast.UnaryOperationExpr); ok {
			fmt.Printf(" op=%v V=%T", u.Op, u.V)
		}
		for _, f := range s.Fields.Fields {
			fmt.Printf(" field=%T as=%q wc=%v", f.Expr, f.AsName.O, f.WildCard != nil)
		}
		if s.OrderBy != nil {
			for _, it := range s.OrderBy.Items {
				fmt.Printf(" ob=%T", it.Expr)
			}
		}
		if s.GroupBy != nil {
			for _, it := range s.GroupBy.Items {
				fmt.Printf(" gb=%T", it.Expr)
			}
		}
		if s.Limit != nil {
			fmt.Printf(" limit=%T off=%T", s.Limit.Count, s.Limit.Offset)
		}
		if s.From != nil {
			j := s.From.TableRefs
			fmt.Printf(" join tp=%v L=%T R=%T on=%v using=%v", j.Tp, j.Left, j.Right, j.On != nil, len(j.Using))
		}
		fmt.Println()
	case *ast.UnionStmt:
		fmt.Printf("%s\n  union n=%d ob=%v lim=%v", sql, len(s.SelectList.Selects), s.OrderBy != nil, s.Limit != nil)
		for _, x := range s.SelectList.Selects {
			fmt.Printf(" [distinct=%v braces=%v ob=%v lim=%v]", x.IsAfterUnionDistinct, x.IsInBraces, x.OrderBy != nil, x.Limit != nil)
		}
		fmt.Println()
	default:
		fmt.Printf("%s\n  %T\n", sql, st)
	}
}

func main() {
	dump("select id, k as a, t.v, * from t where k = -1")
	dump("select count(*), sum(distinct k), COUNT(DISTINCT k) from t where not (k = 1)")
	dump("select * from t where not k = 1")
	dump("select * from t where k = 1.5 group by k, 2 order by 1, a desc, count(*) limit 1, 2")
	dump("select * from t limit 2 offset 1")
	dump("select * from t join t2 on t.id = t2.id")
	dump("select * from t left join t2 using (id)")
	dump("select * from t, t2 where t.id = t2.id")
	dump("select id from t union select id from t order by id limit 1")
	dump("select id from t union all select id from t union select id from t")
	dump("(select id from t order by id limit 1) union all (select id from t) order by 1")
	dump("select * from t where v is not null and k between 1 and 2 or id in (1,2)")
	dump("select * from t where k != 1 and k <> 2 and v = 'a'")
}
