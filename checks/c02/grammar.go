package main

import (
	"fmt"
	"strings"

	"verif/ref/sqlref/rig"
)

// The query grammar: one option table per clause. A query is a vector of option indexes
// (0 = default everywhere = "SELECT id, k, v FROM t"); enum.Deviations visits every vector
// that differs from the default in at most N clauses.
//
// Placeholders: {id} is the sharding column, qualified where the FROM form makes a bare
// "id" ambiguous; {K1}..{K8} are the layout's literals for abstract keys #1..#8.

type opt struct{ name, text string }

const (
	dProj = iota
	dDistinct
	dWhere
	dGroup
	dOrder
	dLimit
	dFrom
	dUnion
	nDims
)

var dimNames = [nDims]string{"proj", "distinct", "where", "group", "order", "limit", "from", "union"}

var projs = []opt{
	{"cols", "{id}, k, v"},
	{"star", "*"},
	{"k", "k"},
	{"v_u", "v, u"},
	{"aliases", "k AS a, v AS b"},
	{"d_id", "d, {id}"},
	{"count_star", "COUNT(*)"},
	{"count_k", "COUNT(k)"},
	{"sum_k", "SUM(k)"},
	{"sum_d", "SUM(d)"},
	{"max_v", "MAX(v)"},
	{"min_k", "MIN(k)"},
	{"max_d_min_v", "MAX(d), MIN(v)"},
	{"count_distinct", "COUNT(DISTINCT k)"},
	{"sum_distinct", "SUM(DISTINCT k)"},
	{"k_count", "k, COUNT(*)"},
	{"v_sum_max", "v, SUM(k), MAX(d)"},
	{"v_u_count", "v, u, COUNT(*) AS c"},
	{"four_aggs", "COUNT(*), SUM(k), MAX(k), MIN(k)"},
	{"id_w", "{id}, w"},
	{"k_name", "k, name"},
	{"qualified", "t.k, t.v"},
	{"count_v_min_d", "COUNT(v), MIN(d)"},
	{"k_count_distinct_v", "k, COUNT(DISTINCT v)"},
}

var distincts = []opt{{"no", ""}, {"yes", "DISTINCT "}}

var wheres = []opt{
	{"none", ""},
	{"k_eq", "k = 1"},
	{"id_eq", "{id} = {K3}"},
	{"id_in", "{id} IN ({K1}, {K2}, {K5})"},
	{"v_is_null", "v IS NULL"},
	{"v_eq_NULLstr", "v = 'NULL'"},
	{"or", "k > 0 OR v = 'a+'"},
	{"not", "NOT (k = 1)"},
	{"between", "k BETWEEN 0 AND 1"},
	{"id_ge", "{id} >= {K3}"},
	{"id_lt", "{id} < {K3}"},
	{"id_or", "{id} = {K1} OR {id} = {K2}"},
	{"and", "v IS NOT NULL AND k <> 2"},
	{"id_and", "{id} = {K1} AND k = 1"},
	{"neg", "k = -1 OR d > 1.5"},
	{"not_bare", "NOT k = 1"},
	{"not_id", "NOT {id} = {K3}"},
}

var groups = []opt{
	{"none", ""},
	{"k", "k"},
	{"v", "v"},
	{"v_u", "v, u"},
	{"id", "{id}"},
	{"alias", "a"},
	{"pos", "1"},
	{"k_v", "k, v"},
}

var orders = []opt{
	{"none", ""},
	{"id", "{id}"},
	{"k", "k"},
	{"v_desc", "v DESC"},
	{"k_desc_id", "k DESC, {id}"},
	{"alias", "a"},
	{"pos1", "1"},
	{"pos2_desc", "2 DESC"},
	{"count", "COUNT(*)"},
	{"count_desc_pos1", "COUNT(*) DESC, 1"},
	{"sum_k_desc", "SUM(k) DESC"},
	{"max_d", "MAX(d)"},
	{"d", "d"},
	{"v_u", "v, u"},
	{"alias_c_desc", "c DESC"},
	{"min_v", "MIN(v)"},
	{"k_id_desc", "k, {id} DESC"},
	{"u_k_desc_id", "u, k DESC, {id}"},
	{"k_desc_v_desc_id", "k DESC, v DESC, {id}"},
}

var limits = []opt{
	{"none", ""},
	{"1", "LIMIT 1"},
	{"2", "LIMIT 2"},
	{"0", "LIMIT 0"},
	{"1,1", "LIMIT 1, 1"},
	{"0,2", "LIMIT 0, 2"},
	{"2,1", "LIMIT 2, 1"},
	{"1_offset_2", "LIMIT 1 OFFSET 2"},
	{"3", "LIMIT 3"},
	// count 0 with offsets 1 and > rows, in both spellings
	{"1,0", "LIMIT 1, 0"},
	{"0_offset_1", "LIMIT 0 OFFSET 1"},
	{"5,0", "LIMIT 5, 0"},
	{"0_offset_5", "LIMIT 0 OFFSET 5"},
}

type fromOpt struct {
	name, text string
	qual       string // qualifier a bare id needs
	where      string // extra conjunct (comma join)
}

var froms = []fromOpt{
	{"t", "t", "", ""},
	{"alias", "t AS x", "x.", ""},
	{"db_t", "db.t", "", ""},
	{"join_linked", "t JOIN t2 ON t.id = t2.id", "t.", ""},
	{"left_join_linked", "t LEFT JOIN t2 ON t.id = t2.id", "t.", ""},
	{"join_using", "t JOIN t2 USING (id)", "", ""},
	{"comma_join", "t, t2", "t.", "t.id = t2.id"},
	{"join_global", "t JOIN g ON t.k = g.gid", "", ""},
	{"join_aliases", "t x JOIN t2 y ON x.id = y.id", "x.", ""},
}

// union forms: extra branches "SELECT <proj> FROM t [WHERE w] [GROUP BY g]"
type unionOpt struct {
	name     string
	branches []struct {
		all   bool
		where string
	}
}

var unions = []unionOpt{
	{"none", nil},
	{"all", []struct {
		all   bool
		where string
	}{{true, ""}}},
	{"distinct", []struct {
		all   bool
		where string
	}{{false, ""}}},
	{"all_where", []struct {
		all   bool
		where string
	}{{true, "k = 1"}}},
	{"distinct_where", []struct {
		all   bool
		where string
	}{{false, "{id} = {K2}"}}},
	{"three", []struct {
		all   bool
		where string
	}{{false, "k = 2"}, {true, "k = 1"}}},
}

func dims() []int {
	return []int{len(projs), len(distincts), len(wheres), len(groups), len(orders), len(limits), len(froms), len(unions)}
}

func subst(s, qual string, l rig.Layout) string {
	s = strings.ReplaceAll(s, "{id}", qual+"id")
	if strings.Contains(s, "{K") {
		for i := 1; i <= rig.NKeys; i++ {
			s = strings.ReplaceAll(s, fmt.Sprintf("{K%d}", i), l.KeyLit(i))
		}
	}
	return s
}

// render turns a query vector into SQL for a layout.
func render(q []int, l rig.Layout) string {
	var sb strings.Builder
	sel := func(f fromOpt, distinct, where string) {
		sb.WriteString("SELECT ")
		sb.WriteString(distinct)
		sb.WriteString(subst(projs[q[dProj]].text, f.qual, l))
		sb.WriteString(" FROM ")
		sb.WriteString(f.text)
		w := subst(where, f.qual, l)
		if f.where != "" {
			if w != "" {
				w = f.where + " AND (" + w + ")"
			} else {
				w = f.where
			}
		}
		if w != "" {
			sb.WriteString(" WHERE ")
			sb.WriteString(w)
		}
		if g := groups[q[dGroup]].text; g != "" {
			sb.WriteString(" GROUP BY ")
			sb.WriteString(subst(g, f.qual, l))
		}
	}
	f := froms[q[dFrom]]
	sel(f, distincts[q[dDistinct]].text, wheres[q[dWhere]].text)
	u := unions[q[dUnion]]
	for _, b := range u.branches {
		if b.all {
			sb.WriteString(" UNION ALL ")
		} else {
			sb.WriteString(" UNION ")
		}
		sel(froms[0], "", b.where)
	}
	if o := orders[q[dOrder]].text; o != "" {
		qual := f.qual
		if len(u.branches) > 0 {
			qual = ""
		}
		sb.WriteString(" ORDER BY ")
		sb.WriteString(subst(o, qual, l))
	}
	if lm := limits[q[dLimit]].text; lm != "" {
		sb.WriteString(" ")
		sb.WriteString(lm)
	}
	return sb.String()
}

// features names the option chosen in every clause.
func features(q []int) map[string]string {
	return map[string]string{
		"proj":     projs[q[dProj]].name,
		"distinct": distincts[q[dDistinct]].name,
		"where":    wheres[q[dWhere]].name,
		"group":    groups[q[dGroup]].name,
		"order":    orders[q[dOrder]].name,
		"limit":    limits[q[dLimit]].name,
		"from":     froms[q[dFrom]].name,
		"union":    unions[q[dUnion]].name,
	}
}

func oneOf(s string, set ...string) bool {
	for _, x := range set {
		if s == x {
			return true
		}
	}
	return false
}

// kinds derives the clause classes a signature speaks about from the chosen options.
func kinds(q []int) map[string]string {
	f := map[string]string{}
	o := orders[q[dOrder]].name
	switch {
	case o == "none":
		f["order_kind"] = "none"
	case strings.HasPrefix(o, "pos"):
		f["order_kind"] = "position"
	case o == "count_desc_pos1":
		f["order_kind"] = "aggregate_and_position"
	case oneOf(o, "count", "sum_k_desc", "max_d", "min_v"):
		f["order_kind"] = "aggregate"
	case oneOf(o, "alias", "alias_c_desc"):
		f["order_kind"] = "alias"
	default:
		f["order_kind"] = "column"
	}
	g := groups[q[dGroup]].name
	switch g {
	case "none":
		f["group_kind"] = "none"
	case "pos":
		f["group_kind"] = "position"
	case "alias":
		f["group_kind"] = "alias"
	default:
		f["group_kind"] = "columns"
	}
	p := projs[q[dProj]].text
	f["has_aggregate"] = "no"
	if strings.Contains(p, "(") {
		f["has_aggregate"] = "yes"
	}
	f["aggregate_distinct"] = "no"
	if strings.Contains(p, "(DISTINCT") {
		f["aggregate_distinct"] = "yes"
	}
	f["limit_kind"] = "none"
	if l := limits[q[dLimit]].name; l != "none" {
		f["limit_kind"] = "count"
		if strings.ContainsAny(l, ",_") && !strings.HasPrefix(l, "0,") {
			f["limit_kind"] = "offset"
		}
	}
	f["dedup"] = "no" // does the merger have to remove duplicates / fold groups by a text key?
	if q[dDistinct] == 1 || g != "none" || oneOf(unions[q[dUnion]].name, "distinct", "distinct_where", "three") {
		f["dedup"] = "yes"
	}
	return f
}

// mechanism names the known defect mechanism a locally minimal witness belongs to, by the
// clause the witness needs plus what the data must contain; "unclassified" otherwise. The
// list of mechanisms that are accepted as known findings is data (findings.json).
func mechanism(f map[string]string) string {
	multi := f["tables_with_rows"] != "0" && f["tables_with_rows"] != "1"
	switch {
	case oneOf(f["where"], "not_bare", "not_id"):
		return "not_without_parentheses"
	case f["where"] == "id_lt" && strings.HasPrefix(f["layout_rule"], "date_"):
		return "date_rule_less_than"
	case f["group_kind"] == "position":
		return "group_by_position"
	case strings.HasSuffix(f["order_kind"], "position") && (multi || f["group_kind"] != "none"):
		return "order_by_position"
	case f["distinct"] == "yes" && f["has_aggregate"] == "yes" && multi:
		return "select_distinct_with_aggregate"
	case strings.HasPrefix(f["order_kind"], "aggregate") && f["group_kind"] != "none" && multi:
		return "order_by_aggregate_with_group_by"
	case f["group_kind"] != "none" && f["limit_kind"] != "none" && multi:
		return "group_by_with_limit"
	case f["aggregate_distinct"] == "yes" && (f["k_value_on_2_tables"] == "1" || f["v_value_on_2_tables"] == "1"):
		return "aggregate_distinct"
	case f["dedup"] == "yes" && (f["NULL_string_present"] == "1" || f["separator_collision"] == "1") && oneOf(f["mismatch"], "row_count", "rows"):
		return "map_key_collision"
	}
	return "unclassified"
}

func deviations(q []int) int {
	n := 0
	for _, v := range q {
		if v != 0 {
			n++
		}
	}
	return n
}
