// C02: a cross-shard SELECT returns what one database holding all shards would return.
//
// Engine: enum. For every layout x query (grammar.go, all clause vectors with at most N
// deviations from "SELECT id, k, v FROM t") x table content (all multisets of at most R rows
// of rig.Universe, placed by the rule's own FindTableIndex) the real plan
// (plan.BuildPlan + Plan.ExecuteIn) is run with an executor that answers every rewritten
// per-shard statement with sqlref on that shard's tables; the merged answer is compared
// with sqlref's answer to the ORIGINAL statement over the union table (oracle.go).
package main

import (
	"fmt"
	"math/bits"
	"os"
	"runtime/debug"
	"runtime/pprof"
	"sort"
	"strconv"
	"strings"
	"sync"
	"sync/atomic"
	"time"

	"github.com/XiaoMi/Gaea/proxy/plan"

	"verif/engine/enum"
	"verif/engine/ev"
	"verif/engine/gx"
	"verif/ref/sqlref"
	"verif/ref/sqlref/rig"
)

// Case is one replayable case.
type Case struct {
	Layout  string   `json:"layout"`
	Q       []int    `json:"q"`       // clause option indexes (see grammar.go)
	Content []int    `json:"content"` // indexes into rig.Universe (a multiset)
	SQL     string   `json:"sql,omitempty"`
	Rows    []string `json:"rows,omitempty"`
	Shards  []string `json:"shard_sqls,omitempty"`
	Hist    []int    `json:"hist,omitempty"` // history case: rig.Prefixes executed first on the same router
	HTarget int      `json:"h_target"`       // history case: index into hTargets
}

// SELECTs under test of the history family (S after a prefix H on the same router); none
// of them uses a construct with a known finding
var hTargets = []opt{
	{"all_ordered", "SELECT id, k, v FROM t ORDER BY id"},
	{"aggregates", "SELECT COUNT(*), MAX(k) FROM t"},
	{"in_desc", "SELECT id FROM t WHERE id IN ({K1}, {K4}, {K6}) ORDER BY id DESC"},
	{"group_by", "SELECT k, COUNT(*) FROM t GROUP BY k ORDER BY k"},
	{"range_limit", "SELECT id, k FROM t WHERE id >= {K3} ORDER BY id LIMIT 1, 3"},
	{"join_child", "SELECT t.id, w FROM t JOIN t2 ON t.id = t2.id ORDER BY w"},
	{"not_between", "SELECT id FROM t WHERE id NOT BETWEEN {K2} AND {K6} ORDER BY id"},
	{"distinct", "SELECT DISTINCT k FROM t ORDER BY k"},
	{"union", "SELECT id FROM t UNION SELECT id FROM t WHERE k = 1 ORDER BY id"},
}

// runHistory executes the prefix statements and then the SELECT under test on ONE router
// (a fresh one per case): (a) the C02 oracle against the single database in its state after
// the prefix, (b) the statements sent to the backends must be those a router that has
// executed nothing sends.
func runHistory(w *worker, c Case) outcome {
	l, err := parseLayout(c.Layout)
	if err != nil {
		ev.Fatalf("%v", err)
	}
	rg := w.rig(l).Fresh()
	st, err := rg.NewStore(contentRows(c.Content))
	if err != nil {
		ev.Fatalf("%v", err)
	}
	var sqls []string
	for _, h := range c.Hist {
		sql := rig.Subst(rig.Prefixes[h].SQL, l)
		sqls = append(sqls, sql)
		rg.Apply(st, sql)
		ref, sh, _ := rg.TRows(st)
		if !rig.SameRows(ref, sh) {
			return outcome{status: "prefix_diverged", sql: strings.Join(sqls, "; ")}
		}
	}
	sql := rig.Subst(hTargets[c.HTarget].text, l)
	all := strings.Join(append(sqls, sql), "; ")
	refStmt, err := rg.Parse(sql)
	if err != nil {
		return outcome{status: "invalid", sql: all, errText: err.Error()}
	}
	k := l.Name() + "|" + sql
	if w.fresh == nil {
		w.fresh = map[string]string{}
	}
	fresh, ok := w.fresh[k]
	if !ok {
		f := rg.Fresh()
		fp, ferr := f.Build(sql)
		if ferr == nil {
			fex := f.NewExec(st)
			fex.Run(fp)
			fresh = strings.Join(rig.CallsText(fex.Calls), "\n")
		} else {
			fresh = "error"
		}
		w.fresh[k] = fresh
	}
	p, buildErr := rg.Build(sql)
	o := runOne(rg.NewExec(st), p, buildErr, &sqlref.Prepared{Stmt: refStmt}, st, sql)
	o.sql = all
	got := strings.Join(o.shards, "\n")
	if buildErr != nil {
		got = "error"
	}
	if ok, how := rg.Intact(); !ok {
		o.status = "violation"
		o.v = verdict{kind: "router_state_changed", detail: how}
	} else if o.status != "invalid" && got != fresh {
		o.status = "violation"
		o.v = verdict{kind: "plan_differs_after_history", detail: fmt.Sprintf("after the prefix the statement is sent as [%s], a fresh router sends [%s]", strings.ReplaceAll(got, "\n", " "), strings.ReplaceAll(fresh, "\n", " "))}
	}
	return o
}

// confirmHistory: five runs from scratch, then the shorter histories.
func confirmHistory(r *ev.Run, w *worker, c Case) {
	var first outcome
	n := 0
	for i := 0; i < 5; i++ {
		if o := runHistory(w, c); o.status == "violation" {
			if n == 0 {
				first = o
			}
			n++
		}
	}
	if n == 0 {
		return
	}
	if len(c.Hist) == 2 {
		for i := range c.Hist {
			cc := c
			cc.Hist = []int{c.Hist[1-i]}
			if runHistory(w, cc).status == "violation" {
				r.Add("violations_nonminimal", 1)
				return
			}
		}
	}
	l, _ := parseLayout(c.Layout)
	feat := map[string]string{"family": "history", "target": hTargets[c.HTarget].name, "layout_rule": l.Rule,
		"prefix_1": rig.Prefixes[c.Hist[0]].Name, "prefix_2": "-", "mismatch": first.v.kind, "mechanism": "unclassified", "stable": "yes"}
	if len(c.Hist) > 1 {
		feat["prefix_2"] = rig.Prefixes[c.Hist[1]].Name
	}
	if n != 5 {
		feat["stable"] = "no"
	}
	r.Add("violations_minimal", 1)
	classMu.Lock()
	classes[fmt.Sprintf("[history] %s target=%s h=%s,%s mismatch=%s", l.Rule, feat["target"], feat["prefix_1"], feat["prefix_2"], first.v.kind)]++
	classMu.Unlock()
	c.SQL, c.Rows, c.Shards = first.sql, describe(l, c.Content), first.shards
	r.Violation(ev.Witness{Summary: fmt.Sprintf("[%s] %s on %v: %s", c.Layout, first.sql, c.Rows, first.v.detail), Features: feat, Case: c})
}

func parseLayout(s string) (rig.Layout, error) {
	i := strings.LastIndex(s, "-")
	if i < 0 {
		return rig.Layout{}, fmt.Errorf("bad layout %q", s)
	}
	xy := strings.Split(s[i+1:], "x")
	if len(xy) != 2 {
		return rig.Layout{}, fmt.Errorf("bad layout %q", s)
	}
	a, e1 := strconv.Atoi(xy[0])
	b, e2 := strconv.Atoi(xy[1])
	if e1 != nil || e2 != nil {
		return rig.Layout{}, fmt.Errorf("bad layout %q", s)
	}
	return rig.Layout{Rule: s[:i], Slices: a, Per: b}, nil
}

func contentRows(c []int) []rig.Row {
	rows := make([]rig.Row, len(c))
	for i, x := range c {
		rows[i] = rig.Universe[x]
	}
	return rows
}

// outcome of one case
type outcome struct {
	status  string // invalid | rejected_build | rejected_exec | ok | violation
	v       verdict
	merged  int // backend statements that returned rows
	sql     string
	shards  []string
	errText string
	panicky bool
}

// runFresh runs one case from scratch (own rig, own plan, own store): this is what a
// replay does and what every violation is confirmed with.
func runFresh(w *worker, c Case) outcome {
	if len(c.Hist) > 0 {
		return runHistory(w, c)
	}
	l, err := parseLayout(c.Layout)
	if err != nil {
		ev.Fatalf("%v", err)
	}
	rg := w.rig(l)
	sql := render(c.Q, l)
	refStmt, err := rg.Parse(sql)
	if err != nil {
		return outcome{status: "invalid", sql: sql, errText: err.Error()}
	}
	st, err := rg.NewStore(contentRows(c.Content))
	if err != nil {
		ev.Fatalf("%v", err)
	}
	p, err := rg.Build(sql)
	return runOne(rg.NewExec(st), p, err, &sqlref.Prepared{Stmt: refStmt}, st, sql)
}

func runOne(ex *rig.Exec, p plan.Plan, buildErr error, refStmt *sqlref.Prepared, st *rig.Store, sql string) outcome {
	o := outcome{sql: sql}
	ref, err := refStmt.Query(st.Union, false)
	if err != nil {
		o.status, o.errText = "invalid", err.Error()
		return o
	}
	if buildErr != nil {
		o.status, o.errText = "rejected_build", buildErr.Error()
		return o
	}
	ex.Reset(st)
	res, err, panicked := ex.Run(p)
	o.merged = ex.NonEmpty()
	for _, c := range ex.Calls {
		o.shards = append(o.shards, c.Slice+"/"+c.DB+": "+c.SQL)
	}
	if err != nil {
		o.status, o.errText, o.panicky = "rejected_exec", err.Error(), panicked
		return o
	}
	o.v = compare(ref, res)
	if o.v.ok {
		o.status = "ok"
	} else {
		o.status = "violation"
	}
	return o
}

// traits describes what in a content a defect may need (labels for signatures only).
func traits(l rig.Layout, rg *rig.Rig, content []int) map[string]string {
	t := map[string]string{}
	st, err := rg.NewStore(contentRows(content))
	if err != nil {
		return t
	}
	tables := map[int]bool{}
	kOn := map[string]map[int]bool{}
	vOn := map[string]map[int]bool{}
	hasNull, hasNullStr, sepA, sepB := false, false, false, false
	for i, x := range content {
		row := rig.Universe[x]
		tables[st.TableOf[i]] = true
		if row.K != nil {
			k := sqlref.Encode(row.K)
			if kOn[k] == nil {
				kOn[k] = map[int]bool{}
			}
			kOn[k][st.TableOf[i]] = true
		}
		vk := sqlref.Encode(row.V)
		if vOn[vk] == nil {
			vOn[vk] = map[int]bool{}
		}
		vOn[vk][st.TableOf[i]] = true
		if row.V == nil {
			hasNull = true
		}
		if row.V == "NULL" {
			hasNullStr = true
		}
		if row.V == "a+" && row.U == "b" {
			sepA = true
		}
		if row.V == "a" && row.U == "+b" {
			sepB = true
		}
	}
	t["tables_with_rows"] = strconv.Itoa(len(tables))
	t["rows"] = strconv.Itoa(len(content))
	b := func(x bool) string {
		if x {
			return "1"
		}
		return "0"
	}
	k2, v2 := false, false
	for _, m := range kOn {
		if len(m) >= 2 {
			k2 = true
		}
	}
	for _, m := range vOn {
		if len(m) >= 2 {
			v2 = true
		}
	}
	t["k_value_on_2_tables"] = b(k2)
	t["v_value_on_2_tables"] = b(v2)
	t["null_and_NULL_string"] = b(hasNull && hasNullStr)
	t["NULL_string_present"] = b(hasNullStr)
	t["separator_collision"] = b(sepA && sepB)
	return t
}

func describe(l rig.Layout, content []int) []string {
	var out []string
	for _, x := range content {
		r := rig.Universe[x]
		f := func(v sqlref.Value, t sqlref.Type) string {
			if v == nil {
				return "NULL"
			}
			s := string(sqlref.Text(v, t))
			if _, ok := v.(string); ok {
				return "'" + s + "'"
			}
			return s
		}
		out = append(out, fmt.Sprintf("(id=%s k=%s v=%s u=%s d=%s)", l.KeyLit(r.Key), f(r.K, sqlref.Type{K: sqlref.KInt}),
			f(r.V, sqlref.Type{K: sqlref.KStr}), f(r.U, sqlref.Type{K: sqlref.KStr}), f(r.D, sqlref.Type{K: sqlref.KDec, Scale: 2})))
	}
	return out
}

// confirm re-runs a violating case five times from scratch and decides whether it is a
// locally minimal witness (no clause can be reset to its default and no row removed with
// the violation persisting). Non-minimal cases are counted, not reported: each of them has
// a smaller violating case in the enumerated universe, which is reported itself.
// boundedSet is a set of 64-bit hashes of case keys with a hard size limit: what does not
// fit is simply not remembered (the caller then re-runs the sub-case instead of looking it
// up), so the memory of a run does not grow with the number of violating cases.
type boundedSet struct {
	mu  sync.Mutex
	m   map[uint64]struct{}
	max int
}

func hashKey(k string) uint64 {
	h := uint64(14695981039346656037)
	for i := 0; i < len(k); i++ {
		h ^= uint64(k[i])
		h *= 1099511628211
	}
	return h
}

func (s *boundedSet) Store(k string, _ bool) {
	s.mu.Lock()
	if s.m == nil {
		s.m = map[uint64]struct{}{}
	}
	if len(s.m) < s.max {
		s.m[hashKey(k)] = struct{}{}
	}
	s.mu.Unlock()
}

func (s *boundedSet) Load(k string) (bool, bool) {
	s.mu.Lock()
	_, ok := s.m[hashKey(k)]
	s.mu.Unlock()
	return ok, ok
}

var violSet = &boundedSet{max: 2000000} // cases confirmed violating with a fresh plan

func caseKey(c Case) string { return fmt.Sprint(c.Layout, c.Q, c.Content) }

// violates reports whether a sub-case violates (memoised).
func violates(w *worker, c Case) bool {
	k := caseKey(c)
	if _, ok := violSet.Load(k); ok {
		return true
	}
	if runFresh(w, c).status == "violation" {
		violSet.Store(k, true)
		return true
	}
	return false
}

func confirm(r *ev.Run, w *worker, c Case, reuse outcome) {
	l, _ := parseLayout(c.Layout)
	rg := w.rig(l)
	// cheap exit: a smaller case (one clause reset, or one row removed) is already known
	// to violate, so this one is not a minimal witness
	violSet.Store(caseKey(c), true)
	for d := range c.Q {
		if c.Q[d] != 0 {
			q := append([]int{}, c.Q...)
			q[d] = 0
			if _, ok := violSet.Load(caseKey(Case{Layout: c.Layout, Q: q, Content: c.Content})); ok {
				r.Add("violations_nonminimal", 1)
				return
			}
		}
	}
	for i := range c.Content {
		cc := append(append([]int{}, c.Content[:i]...), c.Content[i+1:]...)
		if _, ok := violSet.Load(caseKey(Case{Layout: c.Layout, Q: c.Q, Content: cc})); ok {
			r.Add("violations_nonminimal", 1)
			return
		}
	}
	// five runs from scratch (fresh plan, fresh store). Gaea's own nondeterminism (map
	// iteration order in the group merger) can make a wrong answer appear only sometimes.
	var first outcome
	nViol := 0
	stable := true
	for i := 0; i < 5; i++ {
		o := runFresh(w, c)
		if o.status == "violation" {
			if nViol == 0 {
				first = o
			} else if o.v.kind != first.v.kind {
				stable = false
			}
			nViol++
		}
	}
	finish := func(o outcome, kind string) {
		feat := features(c.Q)
		feat["layout_rule"] = l.Rule
		feat["mismatch"] = kind
		feat["stable"] = "yes"
		if !stable || nViol != 5 {
			r.Add("witnesses_not_failing_identically_5_times", 1)
			feat["stable"] = "no"
		}
		for k, v := range traits(l, rg, c.Content) {
			feat[k] = v
		}
		for k, v := range kinds(c.Q) {
			feat[k] = v
		}
		feat["mechanism"] = mechanism(feat)
		noteClass(feat)
		c.SQL, c.Rows, c.Shards = o.sql, describe(l, c.Content), o.shards
		r.Violation(ev.Witness{
			Summary:  fmt.Sprintf("[%s] %s on %v: %s", c.Layout, o.sql, c.Rows, o.v.detail),
			Features: feat, Case: c})
	}
	if nViol == 0 {
		// wrong only in the enumeration loop (shared plan object, or a nondeterministic
		// merge that happened to come out right five times)
		if reuse.status == "violation" {
			r.Add("violations_not_reproduced_from_scratch", 1)
			finish(reuse, "not_reproduced_from_scratch:"+reuse.v.kind)
		}
		return
	}
	violSet.Store(caseKey(c), true)
	// local minimality
	for d := range c.Q {
		if c.Q[d] == 0 {
			continue
		}
		q := append([]int{}, c.Q...)
		q[d] = 0
		if violates(w, Case{Layout: c.Layout, Q: q, Content: c.Content}) {
			r.Add("violations_nonminimal", 1)
			return
		}
	}
	for i := range c.Content {
		cc := append(append([]int{}, c.Content[:i]...), c.Content[i+1:]...)
		if violates(w, Case{Layout: c.Layout, Q: c.Q, Content: cc}) {
			r.Add("violations_nonminimal", 1)
			return
		}
	}
	r.Add("violations_minimal", 1)
	finish(first, first.v.kind)
}

var (
	classMu sync.Mutex
	classes = map[string]int{}
)

var errClasses = map[string]int{}

var errExamples = map[string]string{}

func noteErr(c string, example ...string) {
	classMu.Lock()
	errClasses[c]++
	if _, ok := errExamples[c]; !ok && len(example) > 0 {
		errExamples[c] = strings.Join(example, " || ")
	}
	classMu.Unlock()
}

// noteClass keeps a histogram of minimal-witness classes (printed with VERIF_DEBUG=1).
func noteClass(f map[string]string) {
	var parts []string
	for _, d := range dimNames {
		if v := f[d]; v != "none" && v != "no" && !(d == "proj" && v == "cols") && !(d == "from" && v == "t") {
			parts = append(parts, d+"="+v)
		}
	}
	parts = append(parts, "mismatch="+f["mismatch"], "stable="+f["stable"])
	if os.Getenv("VERIF_DEBUG") == "2" {
		parts = []string{"mismatch=" + f["mismatch"], "stable=" + f["stable"]}
	}
	parts = append([]string{"[" + f["mechanism"] + "]"}, parts...)
	classMu.Lock()
	classes[strings.Join(parts, " ")]++
	classMu.Unlock()
}

func printClasses() {
	if os.Getenv("VERIF_DEBUG") == "" {
		return
	}
	var ks []string
	for k := range classes {
		ks = append(ks, k)
	}
	sort.Strings(ks)
	for _, k := range ks {
		fmt.Printf("CLASS %6d  %s\n", classes[k], k)
	}
	for k, v := range errExamples {
		fmt.Printf("ERRCLASS %s\n    %s\n", k, v)
	}
}

type worker struct {
	rigs  map[string]*rig.Rig
	fresh map[string]string // (layout, statement) -> statements a fresh router sends
}

func (w *worker) rig(l rig.Layout) *rig.Rig {
	if rg := w.rigs[l.Name()]; rg != nil {
		return rg
	}
	rg, err := rig.New(l)
	if err != nil {
		ev.Fatalf("%v", err)
	}
	w.rigs[l.Name()] = rg
	return rg
}

func selfTest() {
	if err := sqlref.SelfTest(); err != nil {
		ev.Fatalf("%v", err)
	}
	// oracle vectors: ties may permute, order and windows may not be wrong
	i := func(n int) sqlref.Value { return int64(n) }
	mk := func(rows [][]sqlref.Value, keys [][]sqlref.Value, lim bool, off, cnt int64) *sqlref.Rel {
		return &sqlref.Rel{Names: []string{"a", "b"}, Types: []sqlref.Type{{K: sqlref.KInt}, {K: sqlref.KStr}},
			Rows: rows, Keys: keys, Desc: []bool{false}, HasLimit: lim, Offset: off, Count: cnt}
	}
	rows := [][]sqlref.Value{{i(1), "x"}, {i(1), "y"}, {i(2), "z"}}
	keys := [][]sqlref.Value{{i(1)}, {i(1)}, {i(2)}}
	res := func(rs ...[]sqlref.Value) *sqlref.Rel {
		return &sqlref.Rel{Names: []string{"a", "b"}, Types: []sqlref.Type{{K: sqlref.KInt}, {K: sqlref.KStr}}, Rows: rs}
	}
	type tc struct {
		ref  *sqlref.Rel
		got  *sqlref.Rel
		want string
	}
	for n, c := range []tc{
		{mk(rows, keys, false, 0, 0), res(rows[1], rows[0], rows[2]), ""},
		{mk(rows, keys, false, 0, 0), res(rows[2], rows[0], rows[1]), "order"},
		{mk(rows, keys, false, 0, 0), res(rows[0], rows[0], rows[2]), "rows"},
		{mk(rows, keys, false, 0, 0), res(rows[0], rows[2]), "row_count"},
		{mk(rows, keys, true, 0, 1), res(rows[1]), ""},
		{mk(rows, keys, true, 0, 1), res(rows[2]), "window"},
		{mk(rows, keys, true, 1, 2), res(rows[0], rows[2]), ""},
		{mk(rows, keys, true, 1, 2), res(rows[2], rows[0]), "window"},
		{mk(rows, keys, true, 5, 2), res(), ""},
		{mk(rows, nil, true, 0, 2), res(rows[2], rows[0]), ""},
		{mk(rows, nil, true, 0, 2), res(rows[2], rows[2]), "rows"},
		{mk(rows, nil, false, 0, 0), res(rows[2], rows[1], rows[0]), ""},
	} {
		g, err := c.got.Result()
		if err != nil {
			ev.Fatalf("oracle selftest: %v", err)
		}
		v := compare(c.ref, g)
		if (c.want == "") != v.ok || (!v.ok && v.kind != c.want) {
			ev.Fatalf("oracle selftest %d: want %q, got ok=%v kind=%q", n, c.want, v.ok, v.kind)
		}
	}
}

// distinct (query vector, content) pairs whose execution merged >= 2 non-empty shard
// results: one bit per pair
var (
	ntBits  []uint64
	ntWords int
)

func markNontrivial(qi, ci int) {
	w := qi*ntWords + ci/64
	bit := uint64(1) << uint(ci%64)
	for {
		old := atomic.LoadUint64(&ntBits[w])
		if old&bit != 0 || atomic.CompareAndSwapUint64(&ntBits[w], old, old|bit) {
			return
		}
	}
}

func countNontrivial() int {
	n := 0
	for _, w := range ntBits {
		n += bits.OnesCount64(w)
	}
	return n
}

type item struct {
	l  rig.Layout
	q  []int
	qi int
}

func main() {
	gx.Quiet()
	// allocation-heavy, small live heap: a relaxed collector, but a hard ceiling
	debug.SetGCPercent(300)
	debug.SetMemoryLimit(5 << 30)
	if pf := os.Getenv("VERIF_PROF"); pf != "" {
		f, _ := os.Create(pf)
		pprof.StartCPUProfile(f)
		defer pprof.StopCPUProfile()
	}
	r := ev.Start("C02", "exploration")
	selfTest()

	var rc Case
	if r.ReplayCase(&rc) {
		w := &worker{rigs: map[string]*rig.Rig{}}
		o := runFresh(w, rc)
		fmt.Printf("replay: [%s] %s\n  content %v\n  status=%s %s %s\n", rc.Layout, o.sql, describe(mustLayout(rc.Layout), rc.Content), o.status, o.v.kind, o.v.detail)
		for _, s := range o.shards {
			fmt.Println("   ", s)
		}
		if o.errText != "" {
			fmt.Println("  error:", o.errText)
		}
		if o.status == "violation" {
			if len(rc.Hist) > 0 {
				confirmHistory(r, w, rc)
			} else {
				confirm(r, w, rc, o)
			}
		}
		r.Set("evaluations", 1)
		r.Finish()
	}

	if qs := os.Getenv("VERIF_C02_QUERY"); qs != "" {
		// development aid: one query vector over all contents of one layout
		var q []int
		for _, f := range strings.Split(qs, ",") {
			n, _ := strconv.Atoi(f)
			q = append(q, n)
		}
		ln := os.Getenv("VERIF_C02_LAYOUT")
		if ln == "" {
			ln = "hash-2x1"
		}
		w := &worker{rigs: map[string]*rig.Rig{}}
		shown := 0
		enum.Multisets(len(rig.Universe), 3, func(c []int) {
			cs := Case{Layout: ln, Q: q, Content: append([]int{}, c...)}
			o := runFresh(w, cs)
			if shown == 0 && len(c) == 0 {
				fmt.Println(o.sql, o.status, o.errText)
			}
			if o.status == "violation" && shown < 4 {
				shown++
				fmt.Printf("%v %s\n   %s\n   %v\n", describe(mustLayout(ln), c), o.v.kind, o.v.detail, o.shards)
			}
			if o.status == "rejected_exec" && shown < 4 && len(c) == 2 {
				shown++
				fmt.Println("rejected:", o.errText)
			}
		})
		os.Exit(0)
	}
	// a plan of (layout, max deviations, max rows) entries; one layout may appear in
	// several entries (deep grammar on small contents, shallow grammar on larger ones)
	type entry struct {
		l       rig.Layout
		dev     int
		rows    int
		minRows int // contents with fewer rows are covered by another entry of this layout
	}
	var entries []entry
	if r.Quick() {
		entries = append(entries, entry{rig.Layout{Rule: "mod", Slices: 2, Per: 2}, 3, 3, 0})
		for _, l := range []rig.Layout{
			{Rule: "hash", Slices: 2, Per: 1}, {Rule: "hash", Slices: 3, Per: 1},
			{Rule: "mod", Slices: 1, Per: 4}, {Rule: "mod", Slices: 4, Per: 1},
			{Rule: "range", Slices: 2, Per: 1}, {Rule: "range", Slices: 2, Per: 2},
			{Rule: "date_month", Slices: 2, Per: 1}, {Rule: "date_month", Slices: 2, Per: 2},
			{Rule: "mycat_mod", Slices: 2, Per: 1}, {Rule: "mycat_mod", Slices: 2, Per: 2}} {
			entries = append(entries, entry{l, 2, 3, 0})
		}
	} else {
		// thorough = the quick plan + every layout of 1-4 slices x 1-4 tables for every rule
		// type (<=2 deviations; the layouts quick does not have on contents of <=2 rows),
		// 4-row contents on mod-2x2 and a second full-grammar layout on small contents.
		// The volume is fixed (about twice the quick tier), not cut by the clock.
		quickSet := map[string]bool{"mod-2x2": true, "hash-2x1": true, "hash-3x1": true, "mod-1x4": true, "mod-4x1": true,
			"range-2x1": true, "range-2x2": true, "date_month-2x1": true, "date_month-2x2": true, "mycat_mod-2x1": true, "mycat_mod-2x2": true}
		entries = append(entries, entry{rig.Layout{Rule: "mod", Slices: 2, Per: 2}, 3, 3, 0},
			entry{rig.Layout{Rule: "mod", Slices: 2, Per: 2}, 2, 4, 4})
		for _, rule := range []string{"hash", "mod", "range", "date_month", "mycat_mod"} {
			for s := 1; s <= 4; s++ {
				for p := 1; p <= 4; p++ {
					l := rig.Layout{Rule: rule, Slices: s, Per: p}
					switch {
					case l.Name() == "mod-2x2":
					case l.Name() == "hash-3x1":
						entries = append(entries, entry{l, 2, 3, 0}, entry{l, 3, 2, 0})
					case quickSet[l.Name()]:
						entries = append(entries, entry{l, 2, 3, 0})
					default:
						entries = append(entries, entry{l, 2, 2, 0})
					}
				}
			}
		}
	}
	maxRows, maxDev := 0, 0
	for _, e := range entries {
		if e.rows > maxRows {
			maxRows = e.rows
		}
		if e.dev > maxDev {
			maxDev = e.dev
		}
	}
	var contents [][]int
	enum.Multisets(len(rig.Universe), maxRows, func(s []int) { contents = append(contents, append([]int{}, s...)) })
	var queries [][]int
	enum.Deviations(dims(), maxDev, func(idx []int) { queries = append(queries, append([]int{}, idx...)) })
	nQueriesAt := map[int]int{} // number of query vectors with <= d deviations
	for d := 0; d <= maxDev; d++ {
		for _, q := range queries {
			if deviations(q) <= d {
				nQueriesAt[d]++
			}
		}
	}

	ntWords = (len(contents) + 63) / 64
	ntBits = make([]uint64, len(queries)*ntWords)

	// items in fewest-deviations-first order, all entries interleaved inside each query
	// so that a time cap cuts every layout at the same depth
	type citem struct {
		qi int32
		e  int16
	}
	var items []citem
	for qi, q := range queries {
		d := deviations(q)
		for ei, e := range entries {
			// an entry that repeats a layout with a deeper grammar on smaller contents only
			// adds the deeper queries
			if d <= e.dev && !(e.dev == 4 && d < 4) && !(e.dev == 3 && e.rows == 2 && d < 3) {
				items = append(items, citem{int32(qi), int16(ei)})
			}
		}
	}
	// early items: all queries with <= 1 deviation everywhere and the 2-deviation queries on
	// the first (full-grammar) layout; they run before the history family so that a time cap
	// under heavy machine load still leaves every pair of clauses covered once
	var early, late []citem
	for _, it := range items {
		d := deviations(queries[it.qi])
		if d <= 1 || (d == 2 && it.e == 0) {
			early = append(early, it)
		} else {
			late = append(late, it)
		}
	}
	nEarly := len(early)
	items = append(early, late...)
	nItems := len(items)
	itemAt := func(n int) (item, entry) {
		e := entries[items[n].e]
		return item{e.l, queries[items[n].qi], int(items[n].qi)}, e
	}

	// stores are read-only for SELECTs and shared by all workers
	stores := map[string][]*rig.Store{}
	valid := map[string]*rig.Store{}
	all := make([]int, len(rig.Universe))
	for i := range all {
		all[i] = i
	}
	layoutRows := map[string]int{}
	var layoutOrder []rig.Layout
	for _, e := range entries {
		if _, ok := layoutRows[e.l.Name()]; !ok {
			layoutOrder = append(layoutOrder, e.l)
		}
		if e.rows > layoutRows[e.l.Name()] {
			layoutRows[e.l.Name()] = e.rows
		}
	}
	for _, l := range layoutOrder {
		rg, err := rig.New(l)
		if err != nil {
			ev.Fatalf("%v", err)
		}
		for _, c := range contents {
			if len(c) > layoutRows[l.Name()] {
				stores[l.Name()] = append(stores[l.Name()], nil)
				continue
			}
			st, err := rg.NewStore(contentRows(c))
			if err != nil {
				ev.Fatalf("%s: %v", l.Name(), err)
			}
			stores[l.Name()] = append(stores[l.Name()], st)
		}
		if valid[l.Name()], err = rg.NewStore(contentRows(all)); err != nil {
			ev.Fatalf("%s: %v", l.Name(), err)
		}
	}

	pool := sync.Pool{New: func() interface{} { return &worker{rigs: map[string]*rig.Rig{}} }}
	var sampleMu sync.Mutex
	sampled := map[string]bool{}

	start := time.Now()
	stop := func() bool {
		// keep the quick tier inside its wall-clock budget whatever the machine load is
		if r.Quick() && os.Getenv("VERIF_BUDGET_S") == "" && time.Since(start) > 70*time.Second {
			return true
		}
		return r.TimeUp()
	}
	// ---- history family: SELECT S after 1-2 other statements on the SAME router ----
	histNontrivial := map[string]bool{}
	historyPhase := func() {
		var hists [][]int
		for a := range rig.Prefixes {
			hists = append(hists, []int{a})
		}
		for a := range rig.Prefixes {
			for b := range rig.Prefixes {
				hists = append(hists, []int{a, b})
			}
		}
		hContents := [][]int{{0, 1, 2, 3, 4, 5, 6, 7}, {0, 2, 5, 9}}
		// quick: per rule type the layout with the most sub-tables (a damaged sub-table list
		// needs at least three entries to show); thorough: every layout with >= 2 tables
		var hLayouts []rig.Layout
		best := map[string]int{}
		for _, l := range layoutOrder {
			if l.Tables() < 2 {
				continue
			}
			if i, ok := best[l.Rule]; ok && r.Quick() {
				if l.Tables() > hLayouts[i].Tables() {
					hLayouts[i] = l
				}
				continue
			}
			best[l.Rule] = len(hLayouts)
			hLayouts = append(hLayouts, l)
		}
		nHist := len(hists) * len(hLayouts)
		hDone := enum.Parallel(nHist, stop, func(n int) {
			h, l := hists[n/len(hLayouts)], hLayouts[n%len(hLayouts)]
			w := pool.Get().(*worker)
			defer pool.Put(w)
			var nEval, nCmp, nDiv, nRej, nNT int64
			for ti := range hTargets {
				for hc, content := range hContents {
					if r.Quick() && hc > 0 && len(h) > 1 {
						continue // quick: two-statement prefixes meet the all-keys content only
					}
					c := Case{Layout: l.Name(), Hist: h, HTarget: ti, Content: content}
					o := runHistory(w, c)
					switch o.status {
					case "prefix_diverged":
						nDiv++
						noteErr("history: prefix diverged: " + rig.Prefixes[h[len(h)-1]].Name)
						continue
					case "invalid":
						continue
					case "rejected_build", "rejected_exec":
						nEval++
						nRej++
						noteErr("history: "+errClass(o.errText), l.Name(), o.sql, o.errText)
						continue
					}
					nEval++
					nCmp++
					if o.merged >= 2 {
						nNT++
						classMu.Lock()
						histNontrivial[fmt.Sprint(h, ti, hc)] = true
						classMu.Unlock()
					}
					if o.status == "violation" {
						confirmHistory(r, w, c)
					} else if o.merged >= 2 && len(h) == 2 {
						sampleMu.Lock()
						if !sampled["history"] {
							sampled["history"] = true
							c.SQL, c.Rows, c.Shards = o.sql, describe(l, content), o.shards
							r.Sample(c)
						}
						sampleMu.Unlock()
					}
				}
			}
			r.Add("evaluations", nEval)
			r.Add("compared", nCmp)
			r.Add("history_cases", nEval)
			r.Add("history_prefix_diverged", nDiv)
			r.Add("history_rejected", nRej)
			r.Add("history_merged_two_or_more_shard_results", nNT)
		})
		if hDone < nHist {
			r.Capped(fmt.Sprintf("history family: %d of %d (history, layout) items", hDone, nHist))
		}
		r.Set("history_family", fmt.Sprintf("%d prefixes (rig.Prefixes) -> %d histories of length 1-2 x %d SELECTs under test x %d contents on %d layouts, fresh router per case", len(rig.Prefixes), len(hists), len(hTargets), len(hContents), len(hLayouts)))

	}

	done := 0
	mainItem := func(n int) {
		it, ent := itemAt(n)
		w := pool.Get().(*worker)
		defer pool.Put(w)
		rg := w.rig(it.l)
		sql := render(it.q, it.l)
		r.Add("queries", 1)
		refStmt, err := rg.Parse(sql)
		if err != nil {
			r.Add("queries_invalid", 1)
			return
		}
		// statements MySQL itself would reject (or whose answer it leaves undefined) are
		// not part of the property's domain
		prep := &sqlref.Prepared{Stmt: refStmt}
		if _, err := prep.Query(valid[it.l.Name()].Union, false); err != nil {
			r.Add("queries_invalid", 1)
			return
		}
		p, buildErr := rg.Build(sql)
		if buildErr != nil {
			r.Add("queries_rejected_at_build", 1)
			noteErr("build: " + errClass(buildErr.Error()))
			return
		}
		r.Add("queries_planned", 1)
		ex := rg.NewExec(nil)
		ss := stores[it.l.Name()]
		var nEval, nCmp, nRej, nMerged, nPanic, nViol int64
		for ci, st := range ss {
			if len(contents[ci]) > ent.rows || len(contents[ci]) < ent.minRows {
				continue
			}
			o := runOne(ex, p, nil, prep, st, sql)
			switch o.status {
			case "invalid":
				continue
			case "rejected_exec":
				nEval++
				nRej++
				if o.panicky {
					nPanic++
				}
				noteErr("exec: "+errClass(o.errText), it.l.Name(), sql, o.errText)
				continue
			}
			nEval++
			nCmp++
			if o.merged >= 2 {
				nMerged++
				markNontrivial(it.qi, ci)
			}
			if o.status == "violation" {
				nViol++
				confirm(r, w, Case{Layout: it.l.Name(), Q: it.q, Content: contents[ci]}, o)
			} else if o.merged >= 2 && deviations(it.q) >= 2 {
				key := projs[it.q[dProj]].name + "/" + orders[it.q[dOrder]].name
				sampleMu.Lock()
				if !sampled[key] && len(sampled) < 6 {
					sampled[key] = true
					r.Sample(Case{Layout: it.l.Name(), Q: it.q, Content: contents[ci], SQL: sql, Rows: describe(it.l, contents[ci]), Shards: o.shards})
				}
				sampleMu.Unlock()
			}
		}
		r.Add("evaluations", nEval)
		r.Add("compared", nCmp)
		r.Add("rejected_at_execution", nRej)
		r.Add("rejected_by_recovered_panic", nPanic)
		r.Add("merged_two_or_more_shard_results", nMerged)
		r.Add("violating_cases_total", nViol)
		if nCmp > 0 {
			r.Distinct("queries_compared", strconv.Itoa(it.qi))
		}
	}
	// order: early main items, the history family, the rest of the main family
	done = enum.Parallel(nEarly, stop, mainItem)
	historyPhase()
	if done == nEarly {
		done += enum.Parallel(nItems-nEarly, stop, func(n int) { mainItem(n + nEarly) })
	}
	if done < nItems {
		r.Capped(fmt.Sprintf("%d of %d (layout, query) items in fewest-deviations-first order", done, nItems))
	}

	r.Set("distinct_nontrivial", countNontrivial()+len(histNontrivial))
	r.Set("rejections_by_error_class", errClasses)
	var plan []string
	for _, e := range entries {
		x := fmt.Sprintf("%s: <=%d deviations (%d queries) x contents of %d..%d rows", e.l.Name(), e.dev, nQueriesAt[e.dev], e.minRows, e.rows)
		if e.dev == 3 && e.rows == 2 {
			x = fmt.Sprintf("%s: exactly 3 deviations (%d queries) x contents of <=%d rows", e.l.Name(), nQueriesAt[3]-nQueriesAt[2], e.rows)
		}
		plan = append(plan, x)
	}
	r.Set("enumeration_plan", plan)
	r.Set("bounds", fmt.Sprintf("contents: all multisets of rows of a %d-row universe (%d contents of <=%d rows); queries: all clause vectors within the deviation bound of each layout (see enumeration_plan); clause options per dimension %v",
		len(rig.Universe), len(contents), maxRows, dims()))
	r.Set("universe_items", nItems)
	r.Set("rule", "cases = layout x query vector (enum.Deviations over the clause tables of grammar.go) x content (enum.Multisets over rig.Universe); a case is evaluated when MySQL semantics define its answer (sqlref accepts it) and Gaea builds a plan; it is non-trivial when at least two per-shard statements returned rows that had to be merged; distinct_nontrivial counts distinct (query vector, content) pairs among those")
	r.Assume("sqlref implements MySQL semantics for the supported subset (ONLY_FULL_GROUP_BY, binary string collation, NULLs first ascending); it answers both the original statement on the union table and every rewritten statement on a shard")
	r.Assume("backend results reach the merger typed as RowData.ParseText types them for MySQL's field types (INT->LONG, COUNT->LONGLONG, SUM->NEWDECIMAL, VARCHAR->VAR_STRING, DATE->DATE)")
	r.Assume("per-shard results are concatenated in slice-name, database-name, statement order as SessionExecutor.executeShardSQLInSlice does")
	r.Assume("a panic inside BuildPlan/ExecuteIn is the error handleQuery's recover turns it into")
	printClasses()
	pprof.StopCPUProfile()
	r.Finish()
}

func mustLayout(s string) rig.Layout {
	l, err := parseLayout(s)
	if err != nil {
		ev.Fatalf("%v", err)
	}
	return l
}

// errClass strips the variable parts of an error text.
func errClass(s string) string {
	if i := strings.Index(s, "(sql:"); i >= 0 {
		s = s[:i]
	}
	var sb strings.Builder
	for _, c := range s {
		if c >= '0' && c <= '9' {
			continue
		}
		sb.WriteRune(c)
	}
	s = sb.String()
	if len(s) > 90 {
		s = s[:90]
	}
	return s
}
