// C02: a cross-shard SELECT returns what one database holding all shards would return.
//
// Engine: enum. For every layout x query (grammar.go, all clause vectors with at most N
// deviations from "SELECT id, k, v FROM t") x table content (all multisets of at most R rows
// of rig.Universe, placed by the rule's own FindTableIndex) the real plan
// (plan.BuildPlan + Plan.ExecuteIn) is run with an executor that answers every rewritten
// per-shard statement with sqlref on that shard's tables; the merged answer is compared
// with sqlref's answer to the ORIGINAL statement over the union table (oracle.go).
package main

import (
	"fmt"
	"os"
	"runtime/debug"
	"runtime/pprof"
	"sort"
	"strconv"
	"strings"
	"sync"

	"github.com/XiaoMi/Gaea/proxy/plan"

	"verif/engine/enum"
	"verif/engine/ev"
	"verif/engine/gx"
	"verif/ref/sqlref"
	"verif/ref/sqlref/rig"
)

// Case is one replayable case.
type Case struct {
	Layout  string   `json:"layout"`
	Q       []int    `json:"q"`       // clause option indexes (see grammar.go)
	Content []int    `json:"content"` // indexes into rig.Universe (a multiset)
	SQL     string   `json:"sql,omitempty"`
	Rows    []string `json:"rows,omitempty"`
	Shards  []string `json:"shard_sqls,omitempty"`
}

func parseLayout(s string) (rig.Layout, error) {
	i := strings.LastIndex(s, "-")
	if i < 0 {
		return rig.Layout{}, fmt.Errorf("bad layout %q", s)
	}
	xy := strings.Split(s[i+1:], "x")
	if len(xy) != 2 {
		return rig.Layout{}, fmt.Errorf("bad layout %q", s)
	}
	a, e1 := strconv.Atoi(xy[0])
	b, e2 := strconv.Atoi(xy[1])
	if e1 != nil || e2 != nil {
		return rig.Layout{}, fmt.Errorf("bad layout %q", s)
	}
	return rig.Layout{Rule: s[:i], Slices: a, Per: b}, nil
}

func contentRows(c []int) []rig.Row {
	rows := make([]rig.Row, len(c))
	for i, x := range c {
		rows[i] = rig.Universe[x]
	}
	return rows
}

// outcome of one case
type outcome struct {
	status  string // invalid | rejected_build | rejected_exec | ok | violation
	v       verdict
	merged  int // backend statements that returned rows
	sql     string
	shards  []string
	errText string
	panicky bool
}

// runFresh runs one case from scratch (own rig, own plan, own store): this is what a
// replay does and what every violation is confirmed with.
func runFresh(w *worker, c Case) outcome {
	l, err := parseLayout(c.Layout)
	if err != nil {
		ev.Fatalf("%v", err)
	}
	rg := w.rig(l)
	sql := render(c.Q, l)
	refStmt, err := rg.Parse(sql)
	if err != nil {
		return outcome{status: "invalid", sql: sql, errText: err.Error()}
	}
	st, err := rg.NewStore(contentRows(c.Content))
	if err != nil {
		ev.Fatalf("%v", err)
	}
	p, err := rg.Build(sql)
	return runOne(rg.NewExec(st), p, err, &sqlref.Prepared{Stmt: refStmt}, st, sql)
}

func runOne(ex *rig.Exec, p plan.Plan, buildErr error, refStmt *sqlref.Prepared, st *rig.Store, sql string) outcome {
	o := outcome{sql: sql}
	ref, err := refStmt.Query(st.Union, false)
	if err != nil {
		o.status, o.errText = "invalid", err.Error()
		return o
	}
	if buildErr != nil {
		o.status, o.errText = "rejected_build", buildErr.Error()
		return o
	}
	ex.Reset(st)
	res, err, panicked := ex.Run(p)
	o.merged = ex.NonEmpty()
	for _, c := range ex.Calls {
		o.shards = append(o.shards, c.Slice+"/"+c.DB+": "+c.SQL)
	}
	if err != nil {
		o.status, o.errText, o.panicky = "rejected_exec", err.Error(), panicked
		return o
	}
	o.v = compare(ref, res)
	if o.v.ok {
		o.status = "ok"
	} else {
		o.status = "violation"
	}
	return o
}

// traits describes what in a content a defect may need (labels for signatures only).
func traits(l rig.Layout, rg *rig.Rig, content []int) map[string]string {
	t := map[string]string{}
	st, err := rg.NewStore(contentRows(content))
	if err != nil {
		return t
	}
	tables := map[int]bool{}
	kOn := map[string]map[int]bool{}
	vOn := map[string]map[int]bool{}
	hasNull, hasNullStr, sepA, sepB := false, false, false, false
	for i, x := range content {
		row := rig.Universe[x]
		tables[st.TableOf[i]] = true
		if row.K != nil {
			k := sqlref.Encode(row.K)
			if kOn[k] == nil {
				kOn[k] = map[int]bool{}
			}
			kOn[k][st.TableOf[i]] = true
		}
		vk := sqlref.Encode(row.V)
		if vOn[vk] == nil {
			vOn[vk] = map[int]bool{}
		}
		vOn[vk][st.TableOf[i]] = true
		if row.V == nil {
			hasNull = true
		}
		if row.V == "NULL" {
			hasNullStr = true
		}
		if row.V == "a+" && row.U == "b" {
			sepA = true
		}
		if row.V == "a" && row.U == "+b" {
			sepB = true
		}
	}
	t["tables_with_rows"] = strconv.Itoa(len(tables))
	t["rows"] = strconv.Itoa(len(content))
	b := func(x bool) string {
		if x {
			return "1"
		}
		return "0"
	}
	k2, v2 := false, false
	for _, m := range kOn {
		if len(m) >= 2 {
			k2 = true
		}
	}
	for _, m := range vOn {
		if len(m) >= 2 {
			v2 = true
		}
	}
	t["k_value_on_2_tables"] = b(k2)
	t["v_value_on_2_tables"] = b(v2)
	t["null_and_NULL_string"] = b(hasNull && hasNullStr)
	t["separator_collision"] = b(sepA && sepB)
	return t
}

func describe(l rig.Layout, content []int) []string {
	var out []string
	for _, x := range content {
		r := rig.Universe[x]
		f := func(v sqlref.Value, t sqlref.Type) string {
			if v == nil {
				return "NULL"
			}
			s := string(sqlref.Text(v, t))
			if _, ok := v.(string); ok {
				return "'" + s + "'"
			}
			return s
		}
		out = append(out, fmt.Sprintf("(id=%s k=%s v=%s u=%s d=%s)", l.KeyLit(r.Key), f(r.K, sqlref.Type{K: sqlref.KInt}),
			f(r.V, sqlref.Type{K: sqlref.KStr}), f(r.U, sqlref.Type{K: sqlref.KStr}), f(r.D, sqlref.Type{K: sqlref.KDec, Scale: 2})))
	}
	return out
}

// confirm re-runs a violating case five times from scratch and decides whether it is a
// locally minimal witness (no clause can be reset to its default and no row removed with
// the violation persisting). Non-minimal cases are counted, not reported: each of them has
// a smaller violating case in the enumerated universe, which is reported itself.
var violSet sync.Map // caseKey -> true for every case confirmed violating with a fresh plan

func caseKey(c Case) string { return fmt.Sprint(c.Layout, c.Q, c.Content) }

// violates reports whether a sub-case violates (memoised).
func violates(w *worker, c Case) bool {
	k := caseKey(c)
	if _, ok := violSet.Load(k); ok {
		return true
	}
	if runFresh(w, c).status == "violation" {
		violSet.Store(k, true)
		return true
	}
	return false
}

func confirm(r *ev.Run, w *worker, c Case, reuse outcome) {
	first := runFresh(w, c)
	if first.status == "violation" {
		violSet.Store(caseKey(c), true)
	}
	l, _ := parseLayout(c.Layout)
	rg := w.rig(l)
	feat := features(c.Q)
	feat["layout_rule"] = l.Rule
	if first.status != "violation" {
		// the shared (cached) plan misbehaved but a fresh plan does not
		if reuse.status != "violation" {
			return
		}
		feat["mismatch"] = "plan_reuse:" + reuse.v.kind
		for k, v := range traits(l, rg, c.Content) {
			feat[k] = v
		}
		c.SQL, c.Rows = reuse.sql, describe(l, c.Content)
		r.Violation(ev.Witness{Summary: fmt.Sprintf("[%s] %s on %v: only when the plan object is executed repeatedly: %s", c.Layout, reuse.sql, c.Rows, reuse.v.detail), Features: feat, Case: c})
		return
	}
	// local minimality
	for d := range c.Q {
		if c.Q[d] == 0 {
			continue
		}
		q := append([]int{}, c.Q...)
		q[d] = 0
		if violates(w, Case{Layout: c.Layout, Q: q, Content: c.Content}) {
			r.Add("violations_nonminimal", 1)
			return
		}
	}
	for i := range c.Content {
		cc := append(append([]int{}, c.Content[:i]...), c.Content[i+1:]...)
		if violates(w, Case{Layout: c.Layout, Q: c.Q, Content: cc}) {
			r.Add("violations_nonminimal", 1)
			return
		}
	}
	// a reported witness must fail identically five times
	for i := 0; i < 4; i++ {
		again := runFresh(w, c)
		if again.status != first.status || again.v.kind != first.v.kind {
			r.Add("unstable_verdicts", 1)
			first.v.kind = "unstable"
		}
	}
	r.Add("violations_minimal", 1)
	feat["mismatch"] = first.v.kind
	noteClass(feat)
	for k, v := range traits(l, rg, c.Content) {
		feat[k] = v
	}
	c.SQL, c.Rows, c.Shards = first.sql, describe(l, c.Content), first.shards
	r.Violation(ev.Witness{
		Summary:  fmt.Sprintf("[%s] %s on %v: %s", c.Layout, first.sql, c.Rows, first.v.detail),
		Features: feat, Case: c})
}

var (
	classMu sync.Mutex
	classes = map[string]int{}
)

// noteClass keeps a histogram of minimal-witness classes (printed with VERIF_DEBUG=1).
func noteClass(f map[string]string) {
	var parts []string
	for _, d := range dimNames {
		if v := f[d]; v != "none" && v != "no" && !(d == "proj" && v == "cols") && !(d == "from" && v == "t") {
			parts = append(parts, d+"="+v)
		}
	}
	parts = append(parts, "mismatch="+f["mismatch"])
	classMu.Lock()
	classes[strings.Join(parts, " ")]++
	classMu.Unlock()
}

func printClasses() {
	if os.Getenv("VERIF_DEBUG") == "" {
		return
	}
	var ks []string
	for k := range classes {
		ks = append(ks, k)
	}
	sort.Strings(ks)
	for _, k := range ks {
		fmt.Printf("CLASS %6d  %s\n", classes[k], k)
	}
}

type worker struct {
	rigs map[string]*rig.Rig
}

func (w *worker) rig(l rig.Layout) *rig.Rig {
	if rg := w.rigs[l.Name()]; rg != nil {
		return rg
	}
	rg, err := rig.New(l)
	if err != nil {
		ev.Fatalf("%v", err)
	}
	w.rigs[l.Name()] = rg
	return rg
}

func layouts(r *ev.Run) (full, reduced []rig.Layout) {
	full = []rig.Layout{{Rule: "hash", Slices: 2, Per: 1}, {Rule: "mod", Slices: 2, Per: 2}}
	reduced = []rig.Layout{
		{Rule: "hash", Slices: 1, Per: 2}, {Rule: "hash", Slices: 3, Per: 1},
		{Rule: "mod", Slices: 1, Per: 4}, {Rule: "mod", Slices: 4, Per: 1},
		{Rule: "range", Slices: 2, Per: 1}, {Rule: "range", Slices: 2, Per: 2},
		{Rule: "date_month", Slices: 2, Per: 1}, {Rule: "date_month", Slices: 2, Per: 2},
		{Rule: "mycat_mod", Slices: 2, Per: 1}, {Rule: "mycat_mod", Slices: 2, Per: 2},
	}
	if r.Thorough() {
		full = nil
		reduced = nil
		for _, rule := range []string{"hash", "mod", "range", "date_month", "mycat_mod"} {
			for s := 1; s <= 4; s++ {
				for p := 1; p <= 4; p++ {
					l := rig.Layout{Rule: rule, Slices: s, Per: p}
					if (s == 2 && p == 1) || (s == 2 && p == 2) || (s == 3 && p == 1) {
						full = append(full, l)
					} else {
						reduced = append(reduced, l)
					}
				}
			}
		}
	}
	return
}

func selfTest() {
	if err := sqlref.SelfTest(); err != nil {
		ev.Fatalf("%v", err)
	}
	// oracle vectors: ties may permute, order and windows may not be wrong
	i := func(n int) sqlref.Value { return int64(n) }
	mk := func(rows [][]sqlref.Value, keys [][]sqlref.Value, lim bool, off, cnt int64) *sqlref.Rel {
		return &sqlref.Rel{Names: []string{"a", "b"}, Types: []sqlref.Type{{K: sqlref.KInt}, {K: sqlref.KStr}},
			Rows: rows, Keys: keys, Desc: []bool{false}, HasLimit: lim, Offset: off, Count: cnt}
	}
	rows := [][]sqlref.Value{{i(1), "x"}, {i(1), "y"}, {i(2), "z"}}
	keys := [][]sqlref.Value{{i(1)}, {i(1)}, {i(2)}}
	res := func(rs ...[]sqlref.Value) *sqlref.Rel {
		return &sqlref.Rel{Names: []string{"a", "b"}, Types: []sqlref.Type{{K: sqlref.KInt}, {K: sqlref.KStr}}, Rows: rs}
	}
	type tc struct {
		ref  *sqlref.Rel
		got  *sqlref.Rel
		want string
	}
	for n, c := range []tc{
		{mk(rows, keys, false, 0, 0), res(rows[1], rows[0], rows[2]), ""},
		{mk(rows, keys, false, 0, 0), res(rows[2], rows[0], rows[1]), "order"},
		{mk(rows, keys, false, 0, 0), res(rows[0], rows[0], rows[2]), "rows"},
		{mk(rows, keys, false, 0, 0), res(rows[0], rows[2]), "row_count"},
		{mk(rows, keys, true, 0, 1), res(rows[1]), ""},
		{mk(rows, keys, true, 0, 1), res(rows[2]), "window"},
		{mk(rows, keys, true, 1, 2), res(rows[0], rows[2]), ""},
		{mk(rows, keys, true, 1, 2), res(rows[2], rows[0]), "window"},
		{mk(rows, keys, true, 5, 2), res(), ""},
		{mk(rows, nil, true, 0, 2), res(rows[2], rows[0]), ""},
		{mk(rows, nil, true, 0, 2), res(rows[2], rows[2]), "rows"},
		{mk(rows, nil, false, 0, 0), res(rows[2], rows[1], rows[0]), ""},
	} {
		g, err := c.got.Result()
		if err != nil {
			ev.Fatalf("oracle selftest: %v", err)
		}
		v := compare(c.ref, g)
		if (c.want == "") != v.ok || (!v.ok && v.kind != c.want) {
			ev.Fatalf("oracle selftest %d: want %q, got ok=%v kind=%q", n, c.want, v.ok, v.kind)
		}
	}
}

type item struct {
	l  rig.Layout
	q  []int
	qi int
}

func main() {
	gx.Quiet()
	debug.SetGCPercent(800)
	if pf := os.Getenv("VERIF_PROF"); pf != "" {
		f, _ := os.Create(pf)
		pprof.StartCPUProfile(f)
		defer pprof.StopCPUProfile()
	}
	r := ev.Start("C02", "exploration")
	selfTest()

	var rc Case
	if r.ReplayCase(&rc) {
		w := &worker{rigs: map[string]*rig.Rig{}}
		o := runFresh(w, rc)
		fmt.Printf("replay: [%s] %s\n  content %v\n  status=%s %s %s\n", rc.Layout, o.sql, describe(mustLayout(rc.Layout), rc.Content), o.status, o.v.kind, o.v.detail)
		for _, s := range o.shards {
			fmt.Println("   ", s)
		}
		if o.errText != "" {
			fmt.Println("  error:", o.errText)
		}
		if o.status == "violation" {
			confirm(r, w, rc, o)
		}
		r.Set("evaluations", 1)
		r.Finish()
	}

	maxRows := r.Pick(3, 4)
	devFull := r.Pick(3, 4)
	devReduced := r.Pick(2, 3)
	maxRowsReduced := r.Pick(3, 3)

	var contents [][]int
	enum.Multisets(len(rig.Universe), maxRows, func(s []int) { contents = append(contents, append([]int{}, s...)) })
	var queriesFull, queriesReduced [][]int
	enum.Deviations(dims(), devFull, func(idx []int) { queriesFull = append(queriesFull, append([]int{}, idx...)) })
	enum.Deviations(dims(), devReduced, func(idx []int) { queriesReduced = append(queriesReduced, append([]int{}, idx...)) })

	full, reduced := layouts(r)
	// item n -> (query, layout): layouts are interleaved inside each query so that a time
	// cap cuts all layouts at the same deviation depth (fewest deviations first)
	nR, nF := len(queriesReduced), len(queriesFull)
	perR := len(full) + len(reduced)
	nItems := nR*perR + (nF-nR)*len(full)
	itemAt := func(n int) item {
		if n < nR*perR {
			qi, k := n/perR, n%perR
			if k < len(full) {
				return item{full[k], queriesFull[qi], qi}
			}
			return item{reduced[k-len(full)], queriesFull[qi], qi}
		}
		n -= nR * perR
		qi := nR + n/len(full)
		return item{full[n%len(full)], queriesFull[qi], qi}
	}

	// stores are read-only for SELECTs and shared by all workers
	stores := map[string][]*rig.Store{}
	valid := map[string]*rig.Store{}
	all := make([]int, len(rig.Universe))
	for i := range all {
		all[i] = i
	}
	for _, l := range append(append([]rig.Layout{}, full...), reduced...) {
		rg, err := rig.New(l)
		if err != nil {
			ev.Fatalf("%v", err)
		}
		for _, c := range contents {
			st, err := rg.NewStore(contentRows(c))
			if err != nil {
				ev.Fatalf("%s: %v", l.Name(), err)
			}
			stores[l.Name()] = append(stores[l.Name()], st)
		}
		if valid[l.Name()], err = rg.NewStore(contentRows(all)); err != nil {
			ev.Fatalf("%s: %v", l.Name(), err)
		}
	}
	isReduced := map[string]bool{}
	for _, l := range reduced {
		isReduced[l.Name()] = true
	}

	pool := sync.Pool{New: func() interface{} { return &worker{rigs: map[string]*rig.Rig{}} }}
	var sampleMu sync.Mutex
	sampled := map[string]bool{}

	done := enum.Parallel(nItems, r.TimeUp, func(n int) {
		it := itemAt(n)
		w := pool.Get().(*worker)
		defer pool.Put(w)
		rg := w.rig(it.l)
		sql := render(it.q, it.l)
		r.Add("queries", 1)
		refStmt, err := rg.Parse(sql)
		if err != nil {
			r.Add("queries_invalid", 1)
			return
		}
		// statements MySQL itself would reject (or whose answer it leaves undefined) are
		// not part of the property's domain
		prep := &sqlref.Prepared{Stmt: refStmt}
		if _, err := prep.Query(valid[it.l.Name()].Union, false); err != nil {
			r.Add("queries_invalid", 1)
			return
		}
		p, buildErr := rg.Build(sql)
		if buildErr != nil {
			r.Add("queries_rejected_at_build", 1)
			r.Distinct("build_errors", errClass(buildErr.Error()))
			return
		}
		r.Add("queries_planned", 1)
		ex := rg.NewExec(nil)
		ss := stores[it.l.Name()]
		nrows := maxRows
		if isReduced[it.l.Name()] {
			nrows = maxRowsReduced
		}
		var nEval, nCmp, nRej, nMerged, nPanic, nViol int64
		for ci, st := range ss {
			if len(contents[ci]) > nrows {
				continue
			}
			o := runOne(ex, p, nil, prep, st, sql)
			switch o.status {
			case "invalid":
				continue
			case "rejected_exec":
				nEval++
				nRej++
				if o.panicky {
					nPanic++
				}
				r.Distinct("exec_errors", errClass(o.errText))
				continue
			}
			nEval++
			nCmp++
			if o.merged >= 2 {
				nMerged++
				r.Distinct("nontrivial", strconv.Itoa(it.qi)+":"+strconv.Itoa(ci))
			}
			if o.status == "violation" {
				nViol++
				confirm(r, w, Case{Layout: it.l.Name(), Q: it.q, Content: contents[ci]}, o)
			} else if o.merged >= 2 && deviations(it.q) >= 2 {
				key := projs[it.q[dProj]].name + "/" + orders[it.q[dOrder]].name
				sampleMu.Lock()
				if !sampled[key] && len(sampled) < 6 {
					sampled[key] = true
					r.Sample(Case{Layout: it.l.Name(), Q: it.q, Content: contents[ci], SQL: sql, Rows: describe(it.l, contents[ci]), Shards: o.shards})
				}
				sampleMu.Unlock()
			}
		}
		r.Add("evaluations", nEval)
		r.Add("compared", nCmp)
		r.Add("rejected_at_execution", nRej)
		r.Add("rejected_by_recovered_panic", nPanic)
		r.Add("merged_two_or_more_shard_results", nMerged)
		r.Add("violating_cases_total", nViol)
		if nCmp > 0 {
			r.Distinct("queries_compared", strconv.Itoa(it.qi))
		}
	})
	if done < nItems {
		r.Capped(fmt.Sprintf("%d of %d (layout, query) items in fewest-deviations-first order", done, nItems))
	}

	var names []string
	for _, l := range full {
		names = append(names, l.Name())
	}
	r.Set("layouts_full_grammar", names)
	names = nil
	for _, l := range reduced {
		names = append(names, l.Name())
	}
	sort.Strings(names)
	r.Set("layouts_reduced_grammar", names)
	r.Set("bounds", fmt.Sprintf("contents: all multisets of <=%d rows of a %d-row universe (%d contents); queries: all clause vectors with <=%d deviations (%d) on the full-grammar layouts, <=%d deviations (%d) on the others; clause options per dimension %v",
		maxRows, len(rig.Universe), len(contents), devFull, len(queriesFull), devReduced, len(queriesReduced), dims()))
	r.Set("universe_items", nItems)
	r.Set("rule", "cases = layout x query vector (enum.Deviations over the clause tables of grammar.go) x content (enum.Multisets over rig.Universe); a case is evaluated when MySQL semantics define its answer (sqlref accepts it) and Gaea builds a plan; it is non-trivial when at least two per-shard statements returned rows that had to be merged; distinct_nontrivial counts distinct (query vector, content) pairs among those")
	r.Assume("sqlref implements MySQL semantics for the supported subset (ONLY_FULL_GROUP_BY, binary string collation, NULLs first ascending); it answers both the original statement on the union table and every rewritten statement on a shard")
	r.Assume("backend results reach the merger typed as RowData.ParseText types them for MySQL's field types (INT->LONG, COUNT->LONGLONG, SUM->NEWDECIMAL, VARCHAR->VAR_STRING, DATE->DATE)")
	r.Assume("per-shard results are concatenated in slice-name, database-name, statement order as SessionExecutor.executeShardSQLInSlice does")
	r.Assume("a panic inside BuildPlan/ExecuteIn is the error handleQuery's recover turns it into")
	printClasses()
	pprof.StopCPUProfile()
	r.Finish()
}

func mustLayout(s string) rig.Layout {
	l, err := parseLayout(s)
	if err != nil {
		ev.Fatalf("%v", err)
	}
	return l
}

// errClass strips the variable parts of an error text.
func errClass(s string) string {
	if i := strings.Index(s, "(sql:"); i >= 0 {
		s = s[:i]
	}
	var sb strings.Builder
	for _, c := range s {
		if c >= '0' && c <= '9' {
			continue
		}
		sb.WriteRune(c)
	}
	s = sb.String()
	if len(s) > 90 {
		s = s[:90]
	}
	return s
}
