package main

import (
	"fmt"
	"strings"

	"github.com/shopspring/decimal"

	"github.com/XiaoMi/Gaea/mysql"

	"verif/ref/sqlref"
)

// verdict of comparing Gaea's merged answer with the single-database answer.
type verdict struct {
	ok     bool
	kind   string // rows | order | window | row_count | column_count | no_resultset | malformed_row | values_rowdatas
	detail string
}

// encodeCell renders a text-protocol cell comparably with sqlref.Encode: numbers are
// compared numerically (so "3.0" = "3.00"), strings bytewise, NULL only equals NULL.
func encodeCell(c []byte, t sqlref.Type) string {
	if c == nil {
		return "N"
	}
	switch t.K {
	case sqlref.KInt, sqlref.KBig, sqlref.KDec:
		d, err := decimal.NewFromString(string(c))
		if err != nil {
			return "X" + string(c)
		}
		return sqlref.Encode(d)
	}
	return sqlref.Encode(string(c))
}

func encodeCells(cells [][]byte, types []sqlref.Type) string {
	var sb strings.Builder
	for i, c := range cells {
		sb.WriteString(encodeCell(c, types[i]))
		sb.WriteByte('|')
	}
	return sb.String()
}

func showRows(rows []string) string { return "[" + strings.Join(rows, " ") + "]" }

// subMultiset reports whether every element of a occurs in b at least as often.
func subMultiset(a, b []string) bool {
	m := map[string]int{}
	for _, x := range b {
		m[x]++
	}
	for _, x := range a {
		if m[x] == 0 {
			return false
		}
		m[x]--
	}
	return true
}

// compare implements the C02 oracle. ref is the single-database answer with its top-level
// LIMIT parsed but NOT applied (ref.Rows is the whole ordered answer).
//
//   - the rows must agree as a multiset;
//   - with ORDER BY, the sequence of ORDER BY key tuples must be the reference's: every
//     block of rows that tie under ORDER BY occupies the same positions and holds the
//     same multiset (ties may permute);
//   - with LIMIT o,n the answer must be *a* valid window: the right length, and for
//     every tie block the rows at the block's positions inside [o,o+n) are a
//     sub-multiset of the block (the whole block if it lies inside the window). Without
//     ORDER BY everything ties, i.e. any sub-multiset of the right size is accepted.
func compare(ref *sqlref.Rel, res *mysql.Result) verdict {
	ncol := len(ref.Names)
	if res == nil || res.Resultset == nil {
		return verdict{kind: "no_resultset", detail: "no result set returned"}
	}
	if len(res.RowDatas) == 0 && len(res.Values) == 0 && emptyWindow(ref) {
		// no rows on either side: the property speaks about rows, not about the column
		// metadata of an empty answer
		return verdict{ok: true}
	}
	if len(res.Fields) != ncol {
		return verdict{kind: "column_count", detail: fmt.Sprintf("%d columns, reference has %d", len(res.Fields), ncol)}
	}
	cells, ok := sqlref.Cells(res.RowDatas, ncol)
	if !ok {
		return verdict{kind: "malformed_row", detail: "a text row does not hold exactly the announced columns"}
	}
	if len(res.Values) != len(res.RowDatas) {
		return verdict{kind: "values_rowdatas", detail: fmt.Sprintf("%d values rows but %d text rows", len(res.Values), len(res.RowDatas))}
	}
	got := make([]string, len(cells))
	for i, c := range cells {
		got[i] = encodeCells(c, ref.Types)
	}
	want := make([]string, len(ref.Rows))
	for i, r := range ref.Rows {
		want[i] = sqlref.EncodeRow(r)
	}
	n := len(want)
	lo, hi := 0, n
	if ref.HasLimit {
		lo = int(min64(ref.Offset, int64(n)))
		hi = int(min64(int64(lo)+ref.Count, int64(n)))
	}
	detail := func() string {
		return fmt.Sprintf("got %s; single database answers %s window [%d,%d)", showRows(got), showRows(want), lo, hi)
	}
	if len(got) != hi-lo {
		return verdict{kind: "row_count", detail: detail()}
	}
	bad := false
	for bs := 0; bs < n; {
		be := bs + 1
		for be < n && ref.SameKeys(bs, be) {
			be++
		}
		a, b := bs, be
		if a < lo {
			a = lo
		}
		if b > hi {
			b = hi
		}
		if a < b {
			part := got[a-lo : b-lo]
			if !subMultiset(part, want[bs:be]) {
				bad = true
			}
		}
		bs = be
	}
	if !bad {
		return verdict{ok: true}
	}
	kind := "rows"
	if subMultiset(got, want) {
		if ref.HasLimit {
			kind = "window"
		} else {
			kind = "order"
		}
	}
	return verdict{kind: kind, detail: detail()}
}

func emptyWindow(ref *sqlref.Rel) bool {
	n := int64(len(ref.Rows))
	if !ref.HasLimit {
		return n == 0
	}
	return ref.Count == 0 || ref.Offset >= n
}

func min64(a, b int64) int64 {
	if a < b {
		return a
	}
	return b
}
