// C20: session settings never leak between clients sharing pooled connections.
//
// Engine: xstate (BFS over interleaved command histories, every history replayed on fresh
// real objects). 2-3 real SessionExecutors of one namespace share one slice whose REAL
// connectionPoolImpl / ResourcePool (capacity 1 or 2) talks to a fakemysql backend that
// models the session state of every backend connection. Commands are executed one at a
// time, in history order, through SessionExecutor.ExecuteCommand (what Session.Run calls).
//
// Reference: for every client a fakemysql.Model (= the state a MySQL server would be in
// had it received that client's acknowledged SET statements directly, rejecting the ones
// MySQL rejects). Oracle: whenever a query of client c succeeds, the session state of the
// backend connection that executed it (recorded by the backend at that moment) equals c's
// reference state: character set, collation, every system variable, every user variable.
package main

import (
	"context"
	"fmt"
	"os"
	"runtime"
	"sort"
	"strings"
	"sync"
	"time"

	"github.com/XiaoMi/Gaea/backend"
	"github.com/XiaoMi/Gaea/models"
	"github.com/XiaoMi/Gaea/mysql"
	"github.com/XiaoMi/Gaea/proxy/server"

	"verif/engine/ev"
	"verif/engine/gx"
	"verif/engine/xstate"
	"verif/ref/e2erig"
	"verif/ref/fakemysql"
)

// Ev is one event: command C of session S (S = -1: the backend rejects the next SET
// statement it receives, whatever its content).
type Ev struct {
	S int    `json:"s"`
	C string `json:"c"`
}

func (e Ev) String() string {
	if e.S < 0 {
		return "FAULT"
	}
	return fmt.Sprintf("c%d:%s", e.S, e.C)
}

var sqlOf = map[string]string{
	"NB": "set names utf8mb4 collate utf8mb4_bin",
	"NG": "set names gb18030", // in mysql.CharsetIds but not in mysql.Charsets: SetCharset refuses it locally on a pre-8.0 backend
	"N0": "set names utf8mb4",
	"N1": "set names latin1",
	"N2": "set names gbk collate gbk_bin",
	"MA": "set sql_mode='ANSI_QUOTES'",
	"MB": "set sql_mode='BAD'",
	"L5": "set sql_select_limit=5",
	"L9": "set sql_select_limit=9",
	"LD": "set sql_select_limit=default",
	"TZ": "set time_zone='+08:00'",
	"CV": "set innodb_lock_wait_timeout=7",
	"U1": "set @u=1",
	"UN": "set @u=NULL",
	"CR": "set character_set_results=latin1",
	"Q":  "select v from tp",
}

var extraVars = map[string]string{"innodb_lock_wait_timeout": "int"}

// Config of one exploration.
type Config struct {
	Name     string   `json:"name"`
	Sessions int      `json:"sessions"`
	Capacity int      `json:"capacity"`
	Cmds     []string `json:"cmds"`
	Faults   int      `json:"faults"` // injected rejections allowed per history
	Depth    int      `json:"depth"`
	// Version the backend announces ("" = 5.7.25-fakemysql). Handshake[i] = collation id of
	// client i's session (0 = forced with SessionExecutor.SetCollationID(0); absent = 45).
	Version   string `json:"backend_version,omitempty"`
	Handshake []int  `json:"session_collation_ids,omitempty"`
}

// Case is what a witness replays.
type Case struct {
	Config Config `json:"config"`
	Hist   []Ev   `json:"history"`
}

// ---- rig -------------------------------------------------------------------------------

type rig struct {
	idx  int
	fake *fakemysql.Server
	ns   string
	user string
}

var (
	proxy *e2erig.Proxy
	rigs  chan *rig
)

func nsCfg(i int, addr string) *models.Namespace {
	ns := e2erig.Namespace(fmt.Sprintf("ns_w%d", i), 1, addr)
	ns.Users = []*models.User{{UserName: fmt.Sprintf("u_w%d", i), Password: e2erig.Password, Namespace: ns.Name,
		RWFlag: models.ReadWrite, RWSplit: models.NoReadWriteSplit}}
	ns.AllowedSessionVariables = map[string]string{"innodb_lock_wait_timeout": "int"}
	return ns
}

func setup(workers int) {
	var nss []*models.Namespace
	var rs []*rig
	for i := 0; i < workers; i++ {
		f, err := fakemysql.Start(fakemysql.Options{Name: fmt.Sprintf("b%d", i), ExtraVars: extraVars})
		if err != nil {
			ev.Fatalf("fakemysql: %v", err)
		}
		ns := nsCfg(i, f.Addr())
		nss = append(nss, ns)
		rs = append(rs, &rig{idx: i, fake: f, ns: ns.Name, user: ns.Users[0].UserName})
	}
	p, err := e2erig.StartProxy("c20", nss...)
	if err != nil {
		ev.Fatalf("proxy: %v", err)
	}
	proxy = p
	rigs = make(chan *rig, workers)
	for _, r := range rs {
		// stop the namespace's health-check goroutines: they read NodeInfo.ConnPool, which
		// the harness replaces for every replay, and they would bring real time in
		p.Mgr.GetNamespace(r.ns).CloseCancel()
		rigs <- r
	}
}

func teardown() {
	n := cap(rigs)
	var rs []*rig
	for i := 0; i < n; i++ {
		rs = append(rs, <-rigs)
	}
	proxy.Close()
	for _, r := range rs {
		r.fake.Close()
	}
}

// ---- replay ----------------------------------------------------------------------------

type stepInfo struct {
	ok       bool
	errMsg   string
	backend  *fakemysql.Entry // the backend's record of the query (successful queries)
	rejected string           // a SET statement the backend rejected during this step
	syncSet  string           // the last SET statement the backend received during this step
}

func snapEq(a, b fakemysql.Snapshot) bool {
	return a.Charset == b.Charset && a.Collation == b.Collation && mapEq(a.Vars, b.Vars) && mapEq(a.UserVars, b.UserVars)
}

func mapEq(a, b map[string]string) bool {
	if len(a) != len(b) {
		return false
	}
	for k, v := range a {
		if w, ok := b[k]; !ok || w != v {
			return false
		}
	}
	return true
}

// diff names the components in which the backend state differs from the reference.
func diff(ref, got fakemysql.Snapshot) (comps []string, dirs []string) {
	add := func(c, d string) { comps = append(comps, c); dirs = append(dirs, d) }
	if ref.Charset != got.Charset {
		add("charset", "different")
	}
	if ref.Collation != got.Collation {
		add("collation", "different")
	}
	cmp := func(prefix string, r, g map[string]string) {
		keys := map[string]bool{}
		for k := range r {
			keys[k] = true
		}
		for k := range g {
			keys[k] = true
		}
		ks := make([]string, 0, len(keys))
		for k := range keys {
			ks = append(ks, k)
		}
		sort.Strings(ks)
		for _, k := range ks {
			rv, rok := r[k]
			gv, gok := g[k]
			switch {
			case rok && !gok:
				add(prefix+k, "requested_but_default_on_backend")
			case !rok && gok:
				add(prefix+k, "not_requested_but_set_on_backend")
			case rv != gv:
				add(prefix+k, "different")
			}
		}
	}
	cmp("var:", ref.Vars, got.Vars)
	cmp("uservar:", ref.UserVars, got.UserVars)
	return
}

// resolveCollation is what a session collation id stands for on a backend of the given
// version: id 0 and, on a pre-8.0 backend, ids above 247 (MySQL 8.0 collations) mean "the
// default collation of the character set"; every other id means itself.
func resolveCollation(id int, version string) (charset, collation string) {
	if id == 0 {
		return "utf8mb4", "utf8mb4_general_ci"
	}
	name := mysql.Collations[mysql.CollationID(id)]
	cs := mysql.CollationNameToCharset[name]
	if id > 247 && strings.HasPrefix(version, "5.") {
		return cs, mysql.Collations[mysql.CharsetIds[cs]]
	}
	return cs, name
}

type world struct {
	cfg   Config
	r     *rig
	pool  backend.ConnectionPool
	ses   []*server.SessionExecutor
	model []*fakemysql.Model
}

func newWorld(cfg Config, r *rig) *world {
	w := &world{cfg: cfg, r: r}
	r.fake.ResetLog()
	version := cfg.Version
	if version == "" {
		version = "5.7.25-fakemysql"
	}
	r.fake.SetVersion(version) // announced to the connections of the new pool
	ns := proxy.Mgr.GetNamespace(r.ns)
	node := ns.GetSlice("slice-0").Master.Nodes[0]
	// a fresh REAL pool for this replay (same arguments as Slice.parseDBInfo uses)
	w.pool = backend.NewConnectionPool(r.fake.Addr(), "root", "root", "", cfg.Capacity, cfg.Capacity, 3600*time.Second,
		"utf8mb4", mysql.CollationID(45), 0, "", node.Datacenter, 20*time.Second)
	if err := w.pool.Open(); err != nil {
		ev.Fatalf("pool open: %v", err)
	}
	old := node.ConnPool
	node.ConnPool = w.pool
	if old != nil {
		old.Close()
	}
	for i := 0; i < cfg.Sessions; i++ {
		id := 45
		if i < len(cfg.Handshake) {
			id = cfg.Handshake[i]
		}
		hs := id
		if hs == 0 {
			hs = 45 // the handshake refuses id 0; it is forced below
		}
		se, err := server.VerifNewSession(proxy.Srv, r.user, e2erig.Password, e2erig.DB, mysql.CollationID(hs))
		if err != nil {
			ev.Fatalf("session: %v", err)
		}
		if id == 0 {
			se.SetCollationID(0)
		}
		w.ses = append(w.ses, se)
		m := fakemysql.NewModel("utf8mb4", extraVars)
		if cs, co := resolveCollation(id, version); cs != "utf8mb4" || co != "utf8mb4_general_ci" {
			if err := m.Exec("set names " + cs + " collate " + co); err != nil {
				ev.Fatalf("reference model: %v", err)
			}
		}
		w.model = append(w.model, m)
	}
	return w
}

func (w *world) close() {
	for _, se := range w.ses {
		server.VerifCloseSession(se)
	}
}

func (w *world) step(e Ev) stepInfo {
	var si stepInfo
	if e.S < 0 {
		w.r.fake.RejectNextSet(w.r.fake.PendingRejects() + 1)
		si.ok = true
		return si
	}
	sql := sqlOf[e.C]
	se := w.ses[e.S]
	cursor := w.r.fake.LogLen()
	se.SetContextNamespace()
	resp := se.ExecuteCommand(mysql.ComQuery, []byte(sql))
	if resp.RespType == server.RespError {
		si.errMsg = fmt.Sprint(resp.Data)
	} else {
		si.ok = true
	}
	for _, le := range w.r.fake.LogSince(cursor) {
		le := le
		if le.Kind == "set" {
			si.syncSet = le.SQL
		}
		if le.Kind == "set" && le.Rejected != "" {
			si.rejected = le.Rejected
		}
		if le.Kind == "query" && le.SQL == sql {
			si.backend = &le
		}
	}
	if e.C != "Q" && si.ok {
		// the proxy acknowledged the SET: the reference server receives it (and rejects
		// what MySQL rejects, e.g. sql_mode='BAD')
		w.model[e.S].Exec(sql)
	}
	return si
}

func (w *world) key(hist []Ev) string {
	var sb strings.Builder
	faults := 0
	for _, e := range hist {
		if e.S < 0 {
			faults++
		}
	}
	fmt.Fprintf(&sb, "F%d/%d|", faults, w.r.fake.PendingRejects())
	for i, se := range w.ses {
		cs, co, vars := server.VerifSessionState(se)
		fmt.Fprintf(&sb, "s%d[%s|%s/%d{%s}]", i, w.model[i].Snapshot(), cs, co, renderMap(vars))
	}
	for _, c := range backend.VerifPoolSnapshot(w.pool) {
		if c.Empty {
			sb.WriteString("<empty>")
			continue
		}
		actual := "gone"
		if st, ok := w.r.fake.StateOf(c.ID); ok {
			actual = st.String()
		}
		// hidden sharing: a Variable object of the connection's belief that is the very
		// object a session holds (a later SET of that session would rewrite the belief)
		var shared []string
		for i, se := range w.ses {
			for name, p := range server.VerifSessionVarPtrs(se) {
				if c.VarPtrs[name] == p {
					shared = append(shared, fmt.Sprintf("%s~s%d", name, i))
				}
			}
		}
		sort.Strings(shared)
		fmt.Fprintf(&sb, "<closed=%v belief=%s/%s{%s} unused=%v shared=%v actual=%s>", c.Closed, c.Charset, c.Coll, renderMap(c.Vars), c.Unused, shared, actual)
	}
	return sb.String()
}

// replay applies hist on fresh objects; the oracle is evaluated on every step.
//
// Key (merging argument): the future of a history depends on (a) every session's requested
// settings as the proxy holds them (charset, collation, session variables; nothing else of
// a SessionExecutor changes under this alphabet) and its reference state, (b) the pool
// queue: for each parked connection, in queue order, the proxy's belief (charset,
// collation, variables, variables queued for a reset to DEFAULT, Variable objects shared with a
// session object) and the real
// backend state, empty slots, (c) the pending injected rejection and the faults used so
// far (the budget). Connection ids are not part of the key (renamed away).
func replay(cfg Config, hist []Ev) (res xstate.Result, trace []string) {
	r := <-rigs
	defer func() { rigs <- r }()
	w := newWorld(cfg, r)
	defer w.close()
	rejKind := "none"
	earlier := "none" // how an earlier query of the history failed, if one did
	for i, e := range hist {
		stale := w.staleBeliefs()
		si := w.step(e)
		line := e.String()
		if e.S >= 0 {
			line += " -> "
			if si.ok {
				line += "ok"
			} else {
				line += "ERR " + si.errMsg
			}
			if si.rejected != "" {
				line += " [backend rejected SET: " + si.rejected + "]"
			}
			if si.backend != nil {
				line += fmt.Sprintf(" [ran on backend conn %d in state %s; reference %s]", si.backend.Conn, si.backend.State, w.model[e.S].Snapshot())
			}
		}
		trace = append(trace, line)
		if e.S >= 0 && e.C == "Q" && !si.ok {
			if si.rejected != "" {
				earlier = "backend_rejected_set"
			} else {
				earlier = "refused_before_anything_was_sent"
			}
		}
		if si.rejected != "" {
			if strings.Contains(si.rejected, "injected") {
				rejKind = "injected"
			} else {
				rejKind = "value"
			}
		}
		last := i == len(hist)-1
		if e.S >= 0 && e.C == "Q" && si.ok {
			if si.backend == nil {
				ev.Fatalf("history %v: successful query without a backend record", hist)
			}
			ref := w.model[e.S].Snapshot()
			if !snapEq(ref, si.backend.State) {
				comps, dirs := diff(ref, si.backend.State)
				res.Violation = fmt.Sprintf("query of c%d ran on a backend connection in state %s, but the client's settings are %s", e.S, si.backend.State, ref)
				res.Features = map[string]string{
					"component":            strings.Join(comps, "+"),
					"direction":            strings.Join(uniq(dirs), "+"),
					"rejected_set":         rejKind,
					"earlier_failed_query": earlier,
					// mechanism: did the proxy believe something wrong about this connection
					// before the query / does its session object still hold the client's settings
					"stale_belief": fmt.Sprint(stale[si.backend.Conn]),
					// the SET statement the proxy sent for this very query: none, an ordinary one,
					// or one that assigns the same variable twice (v = x, ..., v = DEFAULT)
					"sync_set":     syncSetClass(si.syncSet),
					"session_lost": w.sessionLost(e.S),
					// every differing component is a setting the proxy's session object lost
					"explained_by_session_lost": fmt.Sprint(explainedByLost(comps, dirs, w.sessionLost(e.S))),
					// ... or a setting the proxy's session object still holds although a later
					// SET of the client has overridden it
					// every differing component is a character_set_* variable that the backend
					// holds at the SERVER default (the trace of '= DEFAULT' after SET NAMES)
					"charset_var_at_server_default": fmt.Sprint(charsetVarAtDefault(comps, si.backend.State)),
					"session_extra":                 w.sessionExtra(e.S),
					"explained_by_session_extra":    fmt.Sprint(explainedByExtra(comps, dirs, w.sessionExtra(e.S))),
				}
				return res, trace
			}
			if last {
				res.Outcome = "query_ok:" + ref.String()
			}
		} else if last {
			switch {
			case e.S < 0:
				res.Outcome = "fault_armed"
			case si.ok:
				res.Outcome = "set_acked"
			case si.rejected != "":
				res.Outcome = "failed_backend_rejected_set:" + rejKind
			default:
				res.Outcome = "failed:" + si.errMsg
			}
		}
	}
	res.Key = w.key(hist)
	return res, trace
}

func renderMap(m map[string]string) string {
	var vs []string
	for k, v := range m {
		vs = append(vs, k+"="+v)
	}
	sort.Strings(vs)
	return strings.Join(vs, ",")
}

// normalise a value the proxy holds (Go rendering of its variable) to the backend model's
// rendering; used for the mechanism features only, never for the verdict.
func normVal(name, v string) string {
	v = strings.Trim(v, "'")
	if name == "sql_mode" {
		v = strings.ToUpper(v)
	}
	return v
}

// beliefSnapshot turns the proxy's belief about a connection into the model's terms.
func beliefSnapshot(c backend.VerifConn) fakemysql.Snapshot {
	s := fakemysql.Snapshot{Charset: c.Charset, Vars: map[string]string{}, UserVars: map[string]string{}}
	var id int
	fmt.Sscan(c.Coll, &id)
	s.Collation = mysql.Collations[mysql.CollationID(id)]
	for k, v := range c.Vars {
		if strings.HasPrefix(k, "@") {
			s.UserVars[k[1:]] = v
		} else {
			s.Vars[k] = normVal(k, v)
		}
	}
	return s
}

// staleBeliefs lists the ids of parked connections whose believed state differs from
// the backend's real one.
func (w *world) staleBeliefs() map[uint32]bool {
	out := map[uint32]bool{}
	for _, c := range backend.VerifPoolSnapshot(w.pool) {
		if c.Empty || c.Closed {
			continue
		}
		if st, ok := w.r.fake.StateOf(c.ID); ok && !snapEq(beliefSnapshot(c), st) {
			out[c.ID] = true
		}
	}
	return out
}

// sessionLost names the settings of the client's reference state that the proxy's session
// object no longer holds.
func (w *world) sessionLost(i int) string {
	ref := w.model[i].Snapshot()
	_, _, vars := server.VerifSessionState(w.ses[i])
	var lost []string
	for k := range ref.Vars {
		if _, ok := vars[k]; !ok {
			lost = append(lost, "var:"+k)
		}
	}
	for k := range ref.UserVars {
		if _, ok := vars["@"+k]; !ok {
			lost = append(lost, "uservar:"+k)
		}
	}
	if len(lost) == 0 {
		return "none"
	}
	sort.Strings(lost)
	return strings.Join(lost, "+")
}

// sessionExtra names the settings the proxy's session object holds although the client's
// reference state does not contain them (a SET that a later statement has overridden).
func (w *world) sessionExtra(i int) string {
	ref := w.model[i].Snapshot()
	_, _, vars := server.VerifSessionState(w.ses[i])
	var extra []string
	for k, v := range vars {
		if strings.HasPrefix(k, "@") {
			if strings.EqualFold(v, "null") {
				continue // '@u = NULL' is the absence of @u
			}
			if _, ok := ref.UserVars[k[1:]]; !ok {
				extra = append(extra, "uservar:"+k[1:])
			}
		} else if _, ok := ref.Vars[k]; !ok {
			extra = append(extra, "var:"+k)
		}
	}
	if len(extra) == 0 {
		return "none"
	}
	sort.Strings(extra)
	return strings.Join(extra, "+")
}

func explainedByExtra(comps, dirs []string, extra string) bool {
	if extra == "none" {
		return false
	}
	set := map[string]bool{}
	for _, l := range strings.Split(extra, "+") {
		set[l] = true
	}
	for i, c := range comps {
		if !set[c] || dirs[i] != "not_requested_but_set_on_backend" {
			return false
		}
	}
	return true
}

func charsetVarAtDefault(comps []string, got fakemysql.Snapshot) bool {
	for _, c := range comps {
		if !strings.HasPrefix(c, "var:character_set_") || got.Vars[strings.TrimPrefix(c, "var:")] != "utf8mb4" {
			return false
		}
	}
	return len(comps) > 0
}

func explainedByLost(comps, dirs []string, lost string) bool {
	if lost == "none" {
		return false
	}
	set := map[string]bool{}
	for _, l := range strings.Split(lost, "+") {
		set[l] = true
	}
	for i, c := range comps {
		if !set[c] || dirs[i] != "requested_but_default_on_backend" {
			return false
		}
	}
	return true
}

// overloaded: a step of the trace failed with one of Gaea's wall-clock limits.
func overloaded(trace []string) bool {
	for _, l := range trace {
		if !strings.Contains(l, "-> ERR") {
			continue
		}
		low := strings.ToLower(l)
		for _, k := range []string{"timeout", "timed out", "deadline", "getbackendconn failed", "i/o"} {
			if strings.Contains(low, k) {
				return true
			}
		}
	}
	return false
}

// syncSetClass classifies the proxy's sync statement of a step.
func syncSetClass(sql string) string {
	if sql == "" {
		return "none"
	}
	body := strings.TrimSpace(sql)
	if len(body) >= 4 && strings.EqualFold(body[:4], "set ") {
		body = body[4:]
	}
	seen := map[string]bool{}
	inq := byte(0)
	start := 0
	var parts []string
	for i := 0; i < len(body); i++ {
		c := body[i]
		switch {
		case inq != 0:
			if c == inq {
				inq = 0
			}
		case c == '\'' || c == '"' || c == '`':
			inq = c
		case c == ',':
			parts = append(parts, body[start:i])
			start = i + 1
		}
	}
	parts = append(parts, body[start:])
	for _, p := range parts {
		name := strings.ToLower(strings.TrimSpace(p))
		if i := strings.IndexByte(name, '='); i >= 0 {
			name = strings.TrimSpace(name[:i])
		} else if f := strings.Fields(name); len(f) > 0 {
			name = f[0] // NAMES
		}
		if seen[name] {
			return "sent_assigns_a_variable_twice"
		}
		seen[name] = true
	}
	return "sent"
}

func uniq(xs []string) []string {
	m := map[string]bool{}
	var out []string
	for _, x := range xs {
		if !m[x] {
			m[x] = true
			out = append(out, x)
		}
	}
	sort.Strings(out)
	return out
}

func enabled(cfg Config) func(hist []Ev) []Ev {
	return func(hist []Ev) []Ev {
		var out []Ev
		faults := 0
		for _, e := range hist {
			if e.S < 0 {
				faults++
			}
		}
		// symmetry: session i+1 may only act after session i has acted (sessions are
		// interchangeable until their first command)
		used := 0
		for _, e := range hist {
			if e.S+1 > used {
				used = e.S + 1
			}
		}
		for s := 0; s < cfg.Sessions && s <= used; s++ {
			for _, c := range cfg.Cmds {
				out = append(out, Ev{s, c})
			}
		}
		if faults < cfg.Faults && (len(hist) == 0 || hist[len(hist)-1].S >= 0) {
			out = append(out, Ev{-1, "F"})
		}
		return out
	}
}

func main() {
	gx.Quiet()
	r := ev.Start("C20", "model_checking")
	workers := runtime.GOMAXPROCS(0)
	if workers > 16 {
		workers = 16
	}
	var rc Case
	if r.ReplayCase(&rc) {
		setup(1)
		res, trace := replay(rc.Config, rc.Hist)
		for _, l := range trace {
			fmt.Println("  ", l)
		}
		if res.Violation != "" {
			fmt.Println("VIOLATION:", res.Violation, res.Features)
			r.Violation(ev.Witness{Summary: res.Violation, Features: res.Features, Case: rc})
		}
		teardown()
		r.Finish()
	}
	setup(workers)
	_ = context.Background
	small := []string{"N1", "N2", "MB", "L5", "L9", "LD", "U1", "Q"}
	full := []string{"N0", "N1", "N2", "MA", "MB", "L5", "L9", "LD", "TZ", "CV", "U1", "UN", "CR", "Q"}
	var cfgs []Config
	if r.Quick() {
		cfgs = []Config{
			{Name: "2clients-cap1", Sessions: 2, Capacity: 1, Cmds: small, Faults: 1, Depth: 5},
			{Name: "2clients-cap2", Sessions: 2, Capacity: 2, Cmds: small, Faults: 1, Depth: 4},
			// value changes of ONE variable on one pooled connection: the connection carries v=x,
			// a client with v=y syncs ("both set, values differ"), then changes v again
			{Name: "2clients-cap1-value-change", Sessions: 2, Capacity: 1, Cmds: []string{"L5", "L9", "Q"}, Faults: 0, Depth: 6},
			// a character set the proxy acknowledges but DirectConnection.SetCharset refuses
			// before anything is sent (no backend rejection), between clients with and
			// without a session variable
			{Name: "2clients-cap1-refused-charset", Sessions: 2, Capacity: 1, Cmds: []string{"NG", "N0", "L5", "LD", "Q"}, Faults: 0, Depth: 6},
			{Name: "2clients-cap1-charset-vars", Sessions: 2, Capacity: 1, Cmds: []string{"CR", "N0", "N2", "Q"}, Faults: 0, Depth: 5},
		}
	} else {
		cfgs = []Config{
			{Name: "2clients-cap1", Sessions: 2, Capacity: 1, Cmds: small, Faults: 2, Depth: 6},
			{Name: "2clients-cap2", Sessions: 2, Capacity: 2, Cmds: small, Faults: 2, Depth: 6},
			{Name: "2clients-cap1-full", Sessions: 2, Capacity: 1, Cmds: full, Faults: 1, Depth: 5},
			{Name: "3clients-cap2-full", Sessions: 3, Capacity: 2, Cmds: full, Faults: 1, Depth: 4},
			{Name: "3clients-cap1", Sessions: 3, Capacity: 1, Cmds: small, Faults: 1, Depth: 5},
			{Name: "2clients-cap1-value-change", Sessions: 2, Capacity: 1, Cmds: []string{"L5", "L9", "LD", "Q"}, Faults: 0, Depth: 8},
			{Name: "2clients-cap2-value-change", Sessions: 2, Capacity: 2, Cmds: []string{"L5", "L9", "Q"}, Faults: 0, Depth: 7},
			{Name: "2clients-cap1-refused-charset", Sessions: 2, Capacity: 1, Cmds: []string{"NG", "N0", "L5", "LD", "U1", "Q"}, Faults: 1, Depth: 6},
			{Name: "3clients-cap1-refused-charset", Sessions: 3, Capacity: 1, Cmds: []string{"NG", "L5", "Q"}, Faults: 0, Depth: 6},
		}
	}
	// session collation ids x backend versions: two clients share one pooled connection, in
	// both orders; ids: 45 (charset default), 46 (explicit non-default utf8mb4_bin), 255
	// (utf8mb4_0900_ai_ci, a MySQL 8 driver's handshake; "default" on a pre-8.0 backend), 0,
	// 248 (gb18030_chinese_ci: SetCharset refuses it on a pre-8.0 backend)
	collIDs := []int{45, 46, 255, 0, 248}
	for _, ver := range []string{"5.7.25-fakemysql", "8.0.30-fakemysql", "mystery-build"} {
		for _, a := range collIDs {
			for _, b := range collIDs {
				depth := 3
				if !r.Quick() {
					depth = 5
				}
				cfgs = append(cfgs, Config{Name: fmt.Sprintf("collation-ids-%s-%d-%d", strings.SplitN(ver, "-", 2)[0], a, b),
					Sessions: 2, Capacity: 1, Cmds: []string{"NB", "N0", "Q"}, Faults: 0, Depth: depth, Version: ver, Handshake: []int{a, b}})
			}
		}
	}
	var totalStates, totalTrans int64
	var mu sync.Mutex
	var explored []map[string]interface{}
	sampled := 0
	for _, cfg := range cfgs {
		cfg := cfg
		outcomes := map[string]int{}
		st := xstate.BFS(xstate.Spec[Ev]{
			Replay: func(hist []Ev) xstate.Result {
				res, trace := replay(cfg, hist)
				if res.Violation != "" {
					// replay 4 more times: must fail identically
					retries := 0
					for i := 0; i < 4; i++ {
						r2, t2 := replay(cfg, hist)
						if r2.Violation != res.Violation {
							// Gaea's own wall-clock limits (2 s to get a pooled connection, handshake
							// timeout) can fire on an overloaded machine and make a step fail that
							// otherwise succeeds: such a run says nothing, repeat it (a few times)
							if overloaded(t2) && retries < 6 {
								retries++
								i--
								continue
							}
							ev.Fatalf("history %v: violation not reproducible: %q vs %q\n    %s", hist, res.Violation, r2.Violation, strings.Join(t2, "\n    "))
						}
					}
					res.Violation += "\n    " + strings.Join(trace, "\n    ")
				}
				mu.Lock()
				if sampled < 6 && len(hist) >= 3 && res.Violation == "" && strings.HasPrefix(res.Outcome, "query_ok") && sampled*7 < len(outcomes)+1 {
					sampled++
					r.Sample(map[string]interface{}{"config": cfg.Name, "history": fmt.Sprint(hist), "trace": trace})
				}
				mu.Unlock()
				return res
			},
			Enabled:  enabled(cfg),
			MaxDepth: cfg.Depth,
			Workers:  workers,
			Stop:     r.TimeUp,
			OnViolation: func(hist []Ev, res xstate.Result) {
				h := append([]Ev(nil), hist...)
				first := strings.SplitN(res.Violation, "\n", 2)
				sum := fmt.Sprintf("[%s] %v: %s", cfg.Name, h, first[0])
				if len(first) > 1 {
					sum += "\n" + first[1]
				}
				res.Features["config"] = cfg.Name
				res.Features["length"] = fmt.Sprint(len(h))
				r.Violation(ev.Witness{Summary: sum, Features: res.Features, Case: Case{Config: cfg, Hist: h}})
			},
			OnOutcome: func(o string) {
				outcomes[o]++
				r.Distinct("nontrivial", cfg.Name+"|"+o)
			},
		})
		totalStates += st.States
		totalTrans += st.Transitions
		explored = append(explored, map[string]interface{}{
			"config": cfg, "states": st.States, "transitions": st.Transitions, "depth_reached": st.MaxDepth,
			"frontier_per_depth": st.PerDepth, "violating_histories": st.Violations, "capped": st.Capped,
			"distinct_outcomes": len(outcomes),
		})
		if st.Capped {
			r.Capped(fmt.Sprintf("configuration %s stopped inside depth %d (earlier configurations and depths complete)", cfg.Name, st.MaxDepth))
			break
		}
	}
	teardown()
	r.Set("states", totalStates)
	r.Set("transitions", totalTrans)
	r.Set("traces_validated_against_impl", totalTrans)
	r.Set("explorations", explored)
	r.Set("rule", "BFS over all histories of the listed commands of 2-3 clients (plus the fault event 'backend rejects the next SET statement'), up to the stated depth; a state = (per client: reference settings + the proxy's session object; pool queue: per connection the proxy's belief + the backend's real session state; pending fault; faults used); every transition is a replay of the whole history on a fresh real pool, fresh SessionExecutors and fresh backend connections; violating histories are not extended; sessions are symmetric until their first command")
	r.Assume("fakemysql's session model (SET NAMES / SET v = x|DEFAULT / user variables, left-to-right, atomic rejection) stands for MySQL; the same model, fed with the client's own acknowledged SET statements, is the reference")
	r.Assume("commands are executed one at a time (no concurrent use of a SessionExecutor or of the pool); keep-session namespaces and transactions are not part of the alphabet; the namespace's health-check goroutines are stopped")
	if os.Getenv("C20_DEBUG") != "" {
		fmt.Println(explored)
	}
	r.Finish()
}
