//go:build verif

package mysql

import "sort"

// VerifUnused lists the variables queued for a reset to DEFAULT (read-only).
func (s *SessionVariables) VerifUnused() []string {
	var out []string
	for k := range s.unused {
		out = append(out, k)
	}
	sort.Strings(out)
	return out
}
