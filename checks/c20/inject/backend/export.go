//go:build verif

package backend

import (
	"fmt"
	"unsafe"
)

// VerifConn is the proxy's belief about one pooled backend connection.
type VerifConn struct {
	Empty   bool // empty pool slot
	ID      uint32
	Closed  bool
	Charset string
	Coll    string // collation id
	Vars    map[string]string
	Unused  []string
	// identity of the Variable objects (to detect objects shared with a session)
	VarPtrs map[string]uintptr
}

func verifBelief(dc *DirectConnection) VerifConn {
	v := VerifConn{Closed: dc.IsClosed(), Charset: dc.charset, Coll: fmt.Sprint(int(dc.collation)), Vars: map[string]string{}, VarPtrs: map[string]uintptr{}}
	if dc.conn != nil {
		v.ID = dc.conn.ConnectionID
	}
	for _, x := range dc.sessionVariables.GetAll() {
		v.Vars[x.Name()] = fmt.Sprint(x.Get())
		v.VarPtrs[x.Name()] = uintptr(unsafe.Pointer(x))
	}
	v.Unused = dc.sessionVariables.VerifUnused()
	return v
}

// VerifPoolSnapshot lists the believed state of every connection parked in the pool.
func VerifPoolSnapshot(cp ConnectionPool) []VerifConn {
	impl, ok := cp.(*connectionPoolImpl)
	if !ok {
		return nil
	}
	p := impl.pool()
	if p == nil {
		return nil
	}
	var out []VerifConn
	for _, r := range p.VerifResources() {
		if r == nil {
			out = append(out, VerifConn{Empty: true})
			continue
		}
		out = append(out, verifBelief(r.(*pooledConnectImpl).directConnection))
	}
	return out
}
