//go:build verif

package server

import (
	"fmt"
	"net"
	"unsafe"

	"github.com/XiaoMi/Gaea/mysql"
	"github.com/gin-gonic/gin"
)

func init() { gin.SetMode(gin.ReleaseMode) }

// VerifNewSession builds a Session + SessionExecutor the way Server.onConn does after a
// successful handshake, without a socket: the real handleHandshakeResponse runs on a
// HandshakeResponseInfo carrying a correct mysql_native_password proof.
func VerifNewSession(srv *Server, user, password, db string, collation mysql.CollationID) (*SessionExecutor, error) {
	c1, c2 := net.Pipe()
	c2.Close()
	cc := new(Session)
	cc.c = NewClientConn(mysql.NewConn(c1), srv.manager)
	cc.proxy = srv
	cc.manager = srv.manager
	cc.c.proxy = srv
	cc.executor = newSessionExecutor(srv.manager)
	cc.executor.clientAddr = "127.0.0.1:1"
	cc.closed.Store(false)
	cc.executor.session = cc
	info := HandshakeResponseInfo{CollationID: collation, User: user, Salt: cc.c.salt, Database: db,
		AuthResponse: mysql.CalcPassword(cc.c.salt, []byte(password))}
	if err := cc.handleHandshakeResponse(info); err != nil {
		return nil, err
	}
	cc.executor.keepSession = cc.getNamespace().setForKeepSession
	cc.executor.userPriv = cc.getNamespace().userProperties[cc.executor.user].RWFlag
	cc.executor.userType = cc.getNamespace().userProperties[cc.executor.user].OtherProperty
	return cc.executor, nil
}

// VerifSessionState returns the session's requested settings as the proxy holds them.
func VerifSessionState(se *SessionExecutor) (charset string, collation mysql.CollationID, vars map[string]string) {
	vars = map[string]string{}
	for _, v := range se.sessionVariables.GetAll() {
		vars[v.Name()] = fmt.Sprint(v.Get())
	}
	return se.charset, se.collation, vars
}

// VerifSessionVarPtrs returns the identity of the session's Variable objects.
func VerifSessionVarPtrs(se *SessionExecutor) map[string]uintptr {
	out := map[string]uintptr{}
	for _, v := range se.sessionVariables.GetAll() {
		out[v.Name()] = uintptr(unsafe.Pointer(v))
	}
	return out
}

// VerifCloseSession releases what the session holds (as Session.Close does, minus the socket).
func VerifCloseSession(se *SessionExecutor) {
	se.session.Close()
}
