//go:build verif

package util

// VerifResources lists the resources currently parked in the pool in queue order (nil =
// empty slot). Sequential harness only: it rotates the channel once.
func (rp *ResourcePool) VerifResources() []Resource {
	n := len(rp.resources)
	out := make([]Resource, 0, n)
	for i := 0; i < n; i++ {
		w := <-rp.resources
		out = append(out, w.resource)
		rp.resources <- w
	}
	return out
}
