// C05: UPDATE and DELETE affect exactly the matching rows and never move a row; statements
// that assign the sharding column are rejected.
//
// Engine: enum. For every layout x statement template x WHERE tree (atoms on the sharding
// column and on another column, combined with AND / OR / NOT to depth 2) x table content
// (all multisets of at most R rows of rig.Universe placed by the rule's FindTableIndex) the
// real plan (plan.BuildPlan + Plan.ExecuteIn) runs against in-memory shard tables (sqlref
// executes every rewritten statement on its shard) and is compared with sqlref executing
// the ORIGINAL statement on the single table holding all rows.
package main

import (
	"fmt"
	"math/bits"
	"os"
	"runtime"
	"runtime/debug"
	"sort"
	"strconv"
	"strings"
	"sync"
	"sync/atomic"
	"time"

	"github.com/XiaoMi/Gaea/mysql"
	"github.com/XiaoMi/Gaea/proxy/plan"

	"verif/engine/enum"
	"verif/engine/ev"
	"verif/engine/gx"
	"verif/ref/sqlref"
	"verif/ref/sqlref/rig"
)

type opt struct{ name, text string }

// atoms: {id} is the (possibly qualified) sharding column, {Kn} the layout's literal for
// abstract key #n
var atoms = []opt{
	{"id_eq", "{id} = {K3}"},
	{"id_ne", "{id} <> {K3}"},
	{"id_lt", "{id} < {K3}"},
	{"id_le", "{id} <= {K3}"},
	{"id_gt", "{id} > {K3}"},
	{"id_ge", "{id} >= {K3}"},
	{"id_in", "{id} IN ({K1}, {K2})"},
	{"id_not_in", "{id} NOT IN ({K1}, {K2})"},
	{"id_between", "{id} BETWEEN {K2} AND {K6}"},
	{"id_not_between", "{id} NOT BETWEEN {K2} AND {K6}"},
	{"lit_eq_id", "{K3} = {id}"},
	{"lit_lt_id", "{K3} < {id}"},
	{"id_eq_1", "{id} = {K1}"},
	{"k_eq", "k = 1"},
	{"k_ne", "k <> 1"},
	{"k_is_null", "k IS NULL"},
	{"k_in", "k IN (1, 2)"},
	{"k_between", "k BETWEEN 0 AND 1"},
	{"v_eq_NULLstr", "v = 'NULL'"},
}

// tree forms over atoms a, b
var forms = []opt{
	{"none", ""},
	{"a", "%a"},
	{"not_a", "NOT (%a)"},
	{"a_and_b", "%a AND %b"},
	{"a_or_b", "%a OR %b"},
	{"not_a_and_b", "NOT (%a AND %b)"},
	{"not_a_or_b", "NOT (%a OR %b)"},
	{"a_and_not_b", "%a AND NOT (%b)"},
	{"a_or_not_b", "%a OR NOT (%b)"},
	{"not_bare_a", "NOT %a"},
}

type tmpl struct {
	name, text, qual string
}

// statement templates; %w is " WHERE <tree>" (or nothing)
var tmpls = []tmpl{
	{"delete", "DELETE FROM t%w", ""},
	{"update_k", "UPDATE t SET k = 7%w", ""},
	{"update_two", "UPDATE t SET v = 'z', k = k + 1%w", ""},
	{"update_null", "UPDATE t SET k = NULL%w", ""},
	{"update_same", "UPDATE t SET k = 1%w", ""},
	{"update_alias", "UPDATE t AS a SET a.k = 7%w", "a."},
	{"update_db", "UPDATE db.t SET k = 7%w", "t."},
	{"update_qualified_set", "UPDATE t SET t.k = 7, db.t.v = 'z'%w", "db.t."},
	{"delete_db", "DELETE FROM db.t%w", "t."},
	{"update_order", "UPDATE t SET k = 7%w ORDER BY id", ""},
	{"delete_order", "DELETE FROM t%w ORDER BY k DESC", ""},
}

// statements that assign the sharding column: every one of them must be rejected
var keyAssign = []opt{
	{"plain", "UPDATE t SET id = {K5} WHERE k = 1"},
	{"no_where", "UPDATE t SET id = {K5}"},
	{"table_qualified", "UPDATE t SET t.id = {K5} WHERE k = 1"},
	{"db_qualified", "UPDATE t SET db.t.id = {K5} WHERE k = 1"},
	{"upper_case", "UPDATE t SET ID = {K5} WHERE k = 1"},
	{"mixed_case", "UPDATE t SET Id = {K5} WHERE k = 1"},
	{"backquoted", "UPDATE t SET `id` = {K5} WHERE k = 1"},
	{"backquoted_upper", "UPDATE t SET `ID` = {K5} WHERE k = 1"},
	{"second_assignment", "UPDATE t SET k = 1, id = {K5} WHERE k = 2"},
	{"alias_qualified", "UPDATE t AS a SET a.id = {K5} WHERE a.k = 1"},
	{"alias_unqualified", "UPDATE t AS a SET id = {K5} WHERE a.k = 1"},
	{"alias_upper", "UPDATE t AS a SET a.ID = {K5} WHERE a.k = 1"},
	{"db_table", "UPDATE db.t SET id = {K5} WHERE k = 1"},
	{"db_table_qualified", "UPDATE db.t SET t.id = {K5} WHERE k = 1"},
	{"expression", "UPDATE t SET id = id + 1 WHERE k = 1"},
	{"with_shard_where", "UPDATE t SET id = {K5} WHERE id = {K1}"},
	{"ondup_plain", "INSERT INTO t (id, k) VALUES ({K1}, 1) ON DUPLICATE KEY UPDATE id = {K5}"},
	{"ondup_upper", "INSERT INTO t (id, k) VALUES ({K1}, 1) ON DUPLICATE KEY UPDATE ID = {K5}"},
	{"ondup_backquoted", "INSERT INTO t (id, k) VALUES ({K1}, 1) ON DUPLICATE KEY UPDATE `id` = {K5}"},
	{"ondup_table_qualified", "INSERT INTO t (id, k) VALUES ({K1}, 1) ON DUPLICATE KEY UPDATE t.id = {K5}"},
	{"ondup_db_qualified", "INSERT INTO t (id, k) VALUES ({K1}, 1) ON DUPLICATE KEY UPDATE db.t.id = {K5}"},
	{"ondup_second", "INSERT INTO t (id, k) VALUES ({K1}, 1) ON DUPLICATE KEY UPDATE k = 2, id = {K5}"},
	{"ondup_set_form", "INSERT INTO t SET id = {K1}, k = 1 ON DUPLICATE KEY UPDATE id = {K5}"},
	{"ondup_multi_row", "INSERT INTO t (id, k) VALUES ({K1}, 1), ({K2}, 2) ON DUPLICATE KEY UPDATE id = {K5}"},
	{"ondup_values_fn", "INSERT INTO t (id, k) VALUES ({K1}, 1) ON DUPLICATE KEY UPDATE id = VALUES(id) + 1"},
	{"ondup_db_table", "INSERT INTO db.t (id, k) VALUES ({K1}, 1) ON DUPLICATE KEY UPDATE id = {K5}"},
	// other value expressions on the right-hand side (added after seeded change c05-2 was
	// missed: the assigned VALUE must not matter, any assignment to the sharding column is refused)
	{"ondup_values_other_col", "INSERT INTO t (id, k) VALUES ({K1}, 1) ON DUPLICATE KEY UPDATE id = VALUES(k)"},
	{"ondup_values_same_col", "INSERT INTO t (id, k) VALUES ({K1}, 1) ON DUPLICATE KEY UPDATE id = VALUES(id)"},
	{"ondup_values_second", "INSERT INTO t (id, k) VALUES ({K1}, 1) ON DUPLICATE KEY UPDATE k = VALUES(k), id = VALUES(k)"},
	{"ondup_values_set_form", "INSERT INTO t SET id = {K1}, k = 1 ON DUPLICATE KEY UPDATE id = VALUES(k)"},
	{"ondup_column_ref", "INSERT INTO t (id, k) VALUES ({K1}, 1) ON DUPLICATE KEY UPDATE id = k"},
	{"ondup_null", "INSERT INTO t (id, k) VALUES ({K1}, 1) ON DUPLICATE KEY UPDATE id = NULL"},
	{"ondup_function", "INSERT INTO t (id, k) VALUES ({K1}, 1) ON DUPLICATE KEY UPDATE id = abs({K5})"},
	{"update_column_ref", "UPDATE t SET id = k WHERE k = 1"},
	{"update_null", "UPDATE t SET id = NULL WHERE k = 1"},
	{"update_function", "UPDATE t SET id = abs({K5}) WHERE k = 1"},
	{"update_default", "UPDATE t SET id = DEFAULT WHERE k = 1"},
	{"update_same_value", "UPDATE t SET id = id WHERE k = 1"},
	// a linked child table whose sharding column has another name than the parent's (added after
	// seeded change c05-3 was missed: the key check consulted the parent's rule)
	{"linked_child_key", "UPDATE t3 SET uid = {K5} WHERE uid = {K1}"},
	{"linked_child_key_qualified", "UPDATE t3 SET t3.uid = {K5} WHERE k = 1"},
	{"linked_child_key_db_qualified", "UPDATE t3 SET db.t3.uid = {K5} WHERE k = 1"},
	{"linked_child_key_upper", "UPDATE t3 SET UID = {K5} WHERE k = 1"},
	{"linked_child_key_alias", "UPDATE t3 AS c SET c.uid = {K5} WHERE c.k = 1"},
	{"linked_child_key_second", "UPDATE t3 SET k = 1, uid = {K5} WHERE uid = {K1}"},
	{"linked_same_name_key", "UPDATE t2 SET id = {K5} WHERE id = {K1}"},
	{"linked_child_ondup", "INSERT INTO t3 (uid, k) VALUES ({K1}, 1) ON DUPLICATE KEY UPDATE uid = {K5}"},
}

// statements under test of the history family (S after a prefix H on the same router)
var hTargets = []opt{
	{"delete_all", "DELETE FROM t"},
	{"update_all", "UPDATE t SET k = 7"},
	{"update_in", "UPDATE t SET k = 7 WHERE id IN ({K1}, {K4}, {K6})"},
	{"delete_ge", "DELETE FROM t WHERE id >= {K3}"},
	{"update_alias_le", "UPDATE t AS a SET a.v = 'z' WHERE a.id <= {K6}"},
	{"delete_not_between", "DELETE FROM t WHERE id NOT BETWEEN {K2} AND {K6}"},
	{"update_or", "UPDATE t SET k = 7 WHERE id = {K2} OR id = {K7}"},
	{"delete_db_ne", "DELETE FROM db.t WHERE id <> {K3}"},
	{"update_nonkey", "UPDATE t SET v = 'z', k = k + 1 WHERE k = 1 OR k IS NULL"},
}

// runHistory executes the prefix statements and then the statement under test on ONE
// router (a fresh one per case) and judges the statement under test: (a) the C05 oracle
// against the single database, (b) the statements it sends to the backends must be the
// ones a router that has executed nothing sends.
func runHistory(w *worker, c Case) outcome {
	l := parseLayout(c.Layout)
	rg := w.rig(l).Fresh()
	st, err := rg.NewStore(contentRows(c.Content))
	if err != nil {
		ev.Fatalf("%v", err)
	}
	var sqls []string
	for _, h := range c.Hist {
		sql := rig.Subst(rig.Prefixes[h].SQL, l)
		sqls = append(sqls, sql)
		rg.Apply(st, sql)
		ref, sh, _ := rg.TRows(st)
		if !rig.SameRows(ref, sh) {
			// the prefix itself is handled differently (another property's business, or
			// outside the reference's subset): nothing can be said about S after it
			return outcome{status: "prefix_diverged", sql: strings.Join(sqls, "; ")}
		}
	}
	sql := rig.Subst(hTargets[c.HTarget].text, l)
	o := outcome{sql: strings.Join(append(sqls, sql), "; ")}
	fresh := w.freshPlanOf(rg, st, sql)
	before, _, _ := rg.TRows(st)
	step := rg.Apply(st, sql)
	o.shards = rig.CallsText(step.Calls)
	o.routed = len(step.Calls)
	for _, cl := range step.Calls {
		if cl.Affected > 0 {
			o.touched++
		}
	}
	if step.RefErr != nil {
		o.status, o.errText = "invalid", step.RefErr.Error()
		return o
	}
	want, got, misplaced := rg.TRows(st)
	intact, how := rg.Intact()
	switch {
	case !intact:
		o.status, o.kind, o.detail = "violation", "router_state_changed", how
	case (step.GaeaErr == nil) != (fresh.err == nil) || strings.Join(o.shards, "\n") != fresh.calls:
		o.status, o.kind = "violation", "plan_differs_after_history"
		o.detail = fmt.Sprintf("after the prefix the statement is sent as %v (error %v), a fresh router sends [%s] (error %v)", o.shards, step.GaeaErr, strings.ReplaceAll(fresh.calls, "\n", " "), fresh.err)
	case step.GaeaErr != nil:
		if rig.SameRows(got, before) {
			o.status, o.errText = "rejected_exec", step.GaeaErr.Error()
		} else {
			o.status, o.kind, o.detail = "violation", "partial_error", fmt.Sprintf("error %v after some shards were changed", step.GaeaErr)
		}
	case !rig.SameRows(want, got):
		o.status, o.kind = "violation", "rows"
		o.detail = fmt.Sprintf("shards hold %v, single database holds %v", got, want)
	case step.Affected != step.RefAff:
		o.status, o.kind = "violation", "affected_rows"
		o.detail = fmt.Sprintf("reported %d affected rows, single database reports %d", step.Affected, step.RefAff)
	case misplaced != "":
		o.status, o.kind, o.detail = "violation", "moved_row", misplaced
	default:
		o.status = "ok"
	}
	return o
}

// releasedFamily: the statement under test after earlier statements whose OK results were
// RELEASED the way the session releases them (ClientConn.writeOKResult: Result.Free), more of
// them than the statement has shards, so that recycled result objects reach the merger of
// the statement under test. The pool is a sync.Pool: this family runs alone, on one P and
// with the collector off, so that what was released is what is drawn next.
func releasedFamily(r *ev.Run, layouts []rig.Layout) {
	oldProcs := runtime.GOMAXPROCS(1)
	oldGC := debug.SetGCPercent(-1)
	defer func() {
		debug.SetGCPercent(oldGC)
		runtime.GOMAXPROCS(oldProcs)
	}()
	w := &worker{rigs: map[string]*rig.Rig{}}
	fill := []string{"insert_one", "insert_multi", "insert_set", "replace"}
	for _, l := range layouts {
		for _, fname := range fill {
			var fp rig.Prefix
			for _, p := range rig.Prefixes {
				if p.Name == fname {
					fp = p
				}
			}
			for ti := range hTargets {
				rg := w.rig(l).Fresh()
				st, err := rg.NewStore(contentRows([]int{0, 1, 2, 3, 4, 5, 6, 7}))
				if err != nil {
					ev.Fatalf("%v", err)
				}
				fsql := rig.Subst(fp.SQL, l)
				fstmt, _ := rg.Parse(fsql)
				// m sessions execute the earlier statement and hold its result ...
				var held []*mysql.Result
				ok := true
				for i := 0; i < 2*l.Tables()+2; i++ {
					p, err := rg.Build(fsql)
					if err != nil {
						ok = false
						break
					}
					res, err, _ := rg.NewExec(st).Run(p)
					if err != nil || res == nil {
						ok = false
						break
					}
					held = append(held, res)
					if _, err := sqlref.Exec(st.Union, fstmt); err != nil {
						ok = false
						break
					}
				}
				// ... and release it after the answer was written
				for _, res := range held {
					res.Free()
				}
				ref, sh, _ := rg.TRows(st)
				if !ok || !rig.SameRows(ref, sh) {
					r.Add("released_prefix_diverged", 1)
					continue
				}
				sql := rig.Subst(hTargets[ti].text, l)
				stmt, _ := rg.Parse(sql)
				p, err := rg.Build(sql)
				if err != nil {
					r.Add("released_rejected", 1)
					continue
				}
				ex := rg.NewExec(st)
				res, err, _ := ex.Run(p)
				refRes, rerr := sqlref.Exec(st.Union, stmt)
				r.Add("evaluations", 1)
				r.Add("released_cases", 1)
				if err != nil || rerr != nil {
					r.Add("released_rejected", 1)
					continue
				}
				var aff, insertID uint64
				var status uint16
				if res != nil {
					aff, insertID, status = res.AffectedRows, res.InsertID, res.Status
				}
				c := Case{Layout: l.Name(), KeyStmt: -1, HTarget: ti, Released: fname, Content: []int{0, 1, 2, 3, 4, 5, 6, 7}, SQL: fsql + " (x" + strconv.Itoa(len(held)) + ", results released); " + sql, Shards: rig.CallsText(ex.Calls)}
				kind, detail := "", ""
				switch {
				case aff != refRes.AffectedRows:
					kind, detail = "affected_rows", fmt.Sprintf("reported %d affected rows, single database reports %d", aff, refRes.AffectedRows)
				case insertID != 0:
					kind, detail = "insert_id", fmt.Sprintf("reported insert id %d for an UPDATE/DELETE", insertID)
				case res != nil && status != mysql.ServerStatusAutocommit:
					kind, detail = "status", fmt.Sprintf("reported status %#x, the shards reported %#x", status, mysql.ServerStatusAutocommit)
				}
				if kind == "" {
					r.Add("released_cases_held", 1)
					continue
				}
				feat := map[string]string{"layout_rule": l.Rule, "mismatch": kind, "stmt": "released:" + hTargets[ti].name, "prefix_1": fname, "prefix_2": "-"}
				r.Violation(ev.Witness{Summary: fmt.Sprintf("[%s] %s: %s", c.Layout, c.SQL, detail), Features: feat, Case: c})
			}
		}
	}
}

func subst(s, qual string, l rig.Layout) string {
	s = strings.ReplaceAll(s, "{id}", qual+"id")
	if strings.Contains(s, "{K") {
		for i := 1; i <= rig.NKeys; i++ {
			s = strings.ReplaceAll(s, fmt.Sprintf("{K%d}", i), l.KeyLit(i))
		}
	}
	return s
}

// Case is one replayable case: statement template, WHERE tree {form, a, b}, content.
type Case struct {
	Layout   string   `json:"layout"`
	Tmpl     int      `json:"tmpl"`
	Tree     [3]int   `json:"tree"`
	Content  []int    `json:"content"`
	KeyStmt  int      `json:"key_stmt"`           // >= 0: index into keyAssign instead of Tmpl/Tree
	Hist     []int    `json:"hist,omitempty"`     // history case: rig.Prefixes executed first on the same router
	HTarget  int      `json:"h_target"`           // history case: index into hTargets
	Released string   `json:"released,omitempty"` // released-results family: the earlier statement (a rig.Prefixes name)
	SQL      string   `json:"sql,omitempty"`
	Rows     []string `json:"rows,omitempty"`
	Shards   []string `json:"shard_sqls,omitempty"`
}

func render(c Case, l rig.Layout) string {
	if c.KeyStmt >= 0 {
		return subst(keyAssign[c.KeyStmt].text, "", l)
	}
	t := tmpls[c.Tmpl]
	w := forms[c.Tree[0]].text
	w = strings.ReplaceAll(w, "%a", atoms[c.Tree[1]].text)
	w = strings.ReplaceAll(w, "%b", atoms[c.Tree[2]].text)
	if w != "" {
		w = " WHERE " + subst(w, t.qual, l)
	}
	return strings.ReplaceAll(t.text, "%w", w)
}

func parseLayout(s string) rig.Layout {
	i := strings.LastIndex(s, "-")
	if i < 0 {
		ev.Fatalf("bad layout %q", s)
	}
	xy := strings.Split(s[i+1:], "x")
	if len(xy) != 2 {
		ev.Fatalf("bad layout %q", s)
	}
	a, e1 := strconv.Atoi(xy[0])
	b, e2 := strconv.Atoi(xy[1])
	if e1 != nil || e2 != nil {
		ev.Fatalf("bad layout %q", s)
	}
	return rig.Layout{Rule: s[:i], Slices: a, Per: b}
}

func contentRows(c []int) []rig.Row {
	rows := make([]rig.Row, len(c))
	for i, x := range c {
		rows[i] = rig.Universe[x]
	}
	return rows
}

type worker struct {
	rigs  map[string]*rig.Rig
	fresh map[string]freshPlan // (layout, statement) -> what a router that has executed nothing sends
}

type freshPlan struct {
	calls string
	err   error
}

// freshPlanOf is the differential reference of the history family. The statements a plan
// sends do not depend on the data, so one execution per (layout, statement) is enough.
func (w *worker) freshPlanOf(rg *rig.Rig, st *rig.Store, sql string) freshPlan {
	k := rg.L.Name() + "|" + sql
	if w.fresh == nil {
		w.fresh = map[string]freshPlan{}
	}
	if f, ok := w.fresh[k]; ok {
		return f
	}
	step := rg.Fresh().Apply(st.Clone(), sql)
	f := freshPlan{calls: strings.Join(rig.CallsText(step.Calls), "\n"), err: step.GaeaErr}
	w.fresh[k] = f
	return f
}

func (w *worker) rig(l rig.Layout) *rig.Rig {
	if rg := w.rigs[l.Name()]; rg != nil {
		return rg
	}
	rg, err := rig.New(l)
	if err != nil {
		ev.Fatalf("%v", err)
	}
	w.rigs[l.Name()] = rg
	return rg
}

type outcome struct {
	status  string // invalid | rejected_build | rejected_exec | ok | violation
	kind    string
	detail  string
	sql     string
	shards  []string
	touched int // backend statements that changed rows
	routed  int // backend statements issued
	errText string
}

func multiset(rows [][]sqlref.Value) map[string]int {
	m := map[string]int{}
	for _, r := range rows {
		m[sqlref.EncodeRow(r)]++
	}
	return m
}

func sameMultiset(a, b map[string]int) bool {
	if len(a) != len(b) {
		return false
	}
	for k, v := range a {
		if b[k] != v {
			return false
		}
	}
	return true
}

func showSet(m map[string]int) string {
	var ks []string
	for k, v := range m {
		for i := 0; i < v; i++ {
			ks = append(ks, k)
		}
	}
	sort.Strings(ks)
	return "[" + strings.Join(ks, " ") + "]"
}

// shardRows collects the rows of every physical copy of t and checks that each row sits
// in the table its key maps to.
func shardRows(rg *rig.Rig, st *rig.Store) (rows [][]sqlref.Value, misplaced string) {
	var names []string
	for n := range st.Phys {
		names = append(names, n)
	}
	sort.Strings(names)
	for _, n := range names {
		idx := st.Phys[n]
		i := strings.Index(n, "/")
		j := strings.LastIndex(n, ".")
		t, err := st.Shards[n[:i]].Get(n[i+1:j], n[j+1:])
		if err != nil {
			ev.Fatalf("store: %v", err)
		}
		for _, r := range t.Rows {
			rows = append(rows, r)
			want, err := rg.Rule.FindTableIndex(r[0])
			if err != nil || want != idx {
				misplaced = fmt.Sprintf("row %s sits in table %d (%s) but its key maps to %d", sqlref.EncodeRow(r), idx, n, want)
			}
		}
	}
	return rows, misplaced
}

// prepared is what one (layout, statement) needs before it meets a content.
type prepared struct {
	sql      string
	ref      *sqlref.Prepared
	refErr   error
	plan     plan.Plan
	buildErr error
}

func prepare(rg *rig.Rig, c Case) *prepared {
	p := &prepared{sql: render(c, rg.L)}
	if c.KeyStmt < 0 {
		st, err := rg.Parse(p.sql)
		p.ref, p.refErr = &sqlref.Prepared{Stmt: st}, err
	}
	p.plan, p.buildErr = rg.Build(p.sql)
	return p
}

// run executes one case from scratch: own plan, own store.
func run(w *worker, c Case) outcome {
	if len(c.Hist) > 0 {
		return runHistory(w, c)
	}
	l := parseLayout(c.Layout)
	rg := w.rig(l)
	st, err := rg.NewStore(contentRows(c.Content))
	if err != nil {
		ev.Fatalf("%v", err)
	}
	return runPrepared(rg, prepare(rg, c), c, st, nil)
}

// runPrepared executes a prepared statement on a store it may modify.
func runPrepared(rg *rig.Rig, p *prepared, c Case, st *rig.Store, ex *rig.Exec) outcome {
	if ex == nil {
		ex = rg.NewExec(st)
	}
	ex.Reset(st)
	sql := p.sql
	o := outcome{sql: sql}
	if c.KeyStmt >= 0 {
		// assigning the sharding column must be refused by the proxy itself
		if p.buildErr != nil {
			o.status, o.errText = "ok", p.buildErr.Error()
			return o
		}
		_, err, _ := ex.Run(p.plan)
		for _, cl := range ex.Calls {
			o.shards = append(o.shards, cl.Slice+"/"+cl.DB+": "+cl.SQL)
		}
		o.status, o.kind = "violation", "key_assignment_accepted"
		o.detail = fmt.Sprintf("a plan was built (execution error: %v)", err)
		return o
	}
	if p.refErr != nil {
		o.status, o.errText = "invalid", p.refErr.Error()
		return o
	}
	before := multiset(st.Union.Tables["db.t"].Rows)
	refRes, err := p.ref.Exec(st.Union)
	if err != nil {
		o.status, o.errText = "invalid", err.Error()
		return o
	}
	want := multiset(st.Union.Tables["db.t"].Rows)
	if p.buildErr != nil {
		o.status, o.errText = "rejected_build", p.buildErr.Error()
		return o
	}
	res, err, _ := ex.Run(p.plan)
	o.routed = len(ex.Calls)
	for _, cl := range ex.Calls {
		o.shards = append(o.shards, cl.Slice+"/"+cl.DB+": "+cl.SQL)
		if cl.Affected > 0 {
			o.touched++
		}
	}
	rows, misplaced := shardRows(rg, st)
	got := multiset(rows)
	if err != nil {
		if sameMultiset(got, before) {
			o.status, o.errText = "rejected_exec", err.Error()
			return o
		}
		o.status, o.kind = "violation", "partial_error"
		o.detail = fmt.Sprintf("error %v after some shards were changed: shards hold %s", err, showSet(got))
		return o
	}
	var affected uint64
	if res != nil {
		affected = res.AffectedRows
	}
	switch {
	case !sameMultiset(got, want):
		o.status, o.kind = "violation", "rows"
		o.detail = fmt.Sprintf("shards hold %s, single database holds %s", showSet(got), showSet(want))
	case affected != refRes.AffectedRows:
		o.status, o.kind = "violation", "affected_rows"
		o.detail = fmt.Sprintf("reported %d affected rows, single database reports %d", affected, refRes.AffectedRows)
	case misplaced != "":
		o.status, o.kind, o.detail = "violation", "moved_row", misplaced
	default:
		o.status = "ok"
	}
	return o
}

func describe(l rig.Layout, content []int) []string {
	var out []string
	for _, x := range content {
		r := rig.Universe[x]
		f := func(v sqlref.Value, t sqlref.Type) string {
			if v == nil {
				return "NULL"
			}
			s := string(sqlref.Text(v, t))
			if _, ok := v.(string); ok {
				return "'" + s + "'"
			}
			return s
		}
		out = append(out, fmt.Sprintf("(id=%s k=%s v=%s)", l.KeyLit(r.Key), f(r.K, sqlref.Type{K: sqlref.KInt}), f(r.V, sqlref.Type{K: sqlref.KStr})))
	}
	return out
}

func features(c Case, l rig.Layout, kind string) map[string]string {
	f := map[string]string{"layout_rule": l.Rule, "mismatch": kind}
	if len(c.Hist) > 0 {
		f["stmt"] = "history:" + hTargets[c.HTarget].name
		f["prefix_1"], f["prefix_2"] = rig.Prefixes[c.Hist[0]].Name, "-"
		if len(c.Hist) > 1 {
			f["prefix_2"] = rig.Prefixes[c.Hist[1]].Name
		}
		return f
	}
	if c.KeyStmt >= 0 {
		f["stmt"] = "key_assign:" + keyAssign[c.KeyStmt].name
		return f
	}
	f["stmt"] = tmpls[c.Tmpl].name
	f["form"] = forms[c.Tree[0]].name
	f["atom_a"], f["atom_b"] = "-", "-"
	if strings.Contains(forms[c.Tree[0]].text, "%a") {
		f["atom_a"] = atoms[c.Tree[1]].name
	}
	if strings.Contains(forms[c.Tree[0]].text, "%b") {
		f["atom_b"] = atoms[c.Tree[2]].name
	}
	return f
}

var (
	classMu sync.Mutex
	classes = map[string]int{}
)

// report confirms a violation five times and reports it when it is locally minimal (no
// row can be dropped and the tree cannot be cut down to one of its atoms).
// boundedSet is a set of 64-bit hashes of case keys with a hard size limit: what does not
// fit is simply not remembered (the caller then re-runs the sub-case instead of looking it
// up), so the memory of a run does not grow with the number of violating cases.
type boundedSet struct {
	mu  sync.Mutex
	m   map[uint64]struct{}
	max int
}

func hashKey(k string) uint64 {
	h := uint64(14695981039346656037)
	for i := 0; i < len(k); i++ {
		h ^= uint64(k[i])
		h *= 1099511628211
	}
	return h
}

func (s *boundedSet) Store(k string, _ bool) {
	s.mu.Lock()
	if s.m == nil {
		s.m = map[uint64]struct{}{}
	}
	if len(s.m) < s.max {
		s.m[hashKey(k)] = struct{}{}
	}
	s.mu.Unlock()
}

func (s *boundedSet) Load(k string) (bool, bool) {
	s.mu.Lock()
	_, ok := s.m[hashKey(k)]
	s.mu.Unlock()
	return ok, ok
}

var violSet = &boundedSet{max: 2000000}

func caseKey(c Case) string {
	return fmt.Sprint(c.Layout, c.Tmpl, c.Tree, c.Content, c.KeyStmt, c.Hist, c.HTarget)
}

func violates(w *worker, c Case) bool {
	k := caseKey(c)
	if _, ok := violSet.Load(k); ok {
		return true
	}
	if run(w, c).status == "violation" {
		violSet.Store(k, true)
		return true
	}
	return false
}

func report(r *ev.Run, w *worker, c Case, first outcome) {
	l := parseLayout(c.Layout)
	violSet.Store(caseKey(c), true)
	if c.KeyStmt < 0 && len(c.Hist) == 0 {
		for i := range c.Content {
			cc := c
			cc.Content = append(append([]int{}, c.Content[:i]...), c.Content[i+1:]...)
			if _, ok := violSet.Load(caseKey(cc)); ok {
				r.Add("violations_nonminimal", 1)
				return
			}
		}
	}
	for i := 0; i < 4; i++ {
		again := run(w, c)
		if again.status != first.status || again.kind != first.kind {
			r.Add("unstable_verdicts", 1)
			first.kind = "unstable"
		}
	}
	if c.KeyStmt < 0 && len(c.Hist) == 0 {
		for i := range c.Content {
			cc := c
			cc.Content = append(append([]int{}, c.Content[:i]...), c.Content[i+1:]...)
			if violates(w, cc) {
				r.Add("violations_nonminimal", 1)
				return
			}
		}
		if c.Tree[0] >= 2 && c.Tree[0] != 9 {
			subs := []Case{c}
			subs[0].Tree = [3]int{1, c.Tree[1], 0}
			if strings.Contains(forms[c.Tree[0]].text, "%b") {
				s2 := c
				s2.Tree = [3]int{1, c.Tree[2], 0}
				subs = append(subs, s2)
			}
			for _, s := range subs {
				if violates(w, s) {
					r.Add("violations_nonminimal", 1)
					return
				}
			}
		}
	}
	if len(c.Hist) == 2 {
		for i := range c.Hist {
			cc := c
			cc.Hist = []int{c.Hist[1-i]}
			if violates(w, cc) {
				r.Add("violations_nonminimal", 1)
				return
			}
		}
	}
	r.Add("violations_minimal", 1)
	feat := features(c, l, first.kind)
	c.SQL, c.Rows, c.Shards = first.sql, describe(l, c.Content), first.shards
	classMu.Lock()
	classes[fmt.Sprintf("%s stmt=%s form=%s a=%s b=%s h=%s,%s mismatch=%s", l.Rule, feat["stmt"], feat["form"], feat["atom_a"], feat["atom_b"], feat["prefix_1"], feat["prefix_2"], first.kind)]++
	classMu.Unlock()
	r.Violation(ev.Witness{Summary: fmt.Sprintf("[%s] %s on %v: %s", c.Layout, first.sql, c.Rows, first.detail), Features: feat, Case: c})
}

func selfTest() {
	if err := sqlref.SelfTest(); err != nil {
		ev.Fatalf("%v", err)
	}
}

func main() {
	gx.Quiet()
	debug.SetGCPercent(300)
	debug.SetMemoryLimit(5 << 30)
	r := ev.Start("C05", "exploration")
	selfTest()

	rc := Case{KeyStmt: -1}
	if r.ReplayCase(&rc) {
		if rc.Released != "" {
			// the released-results family is replayed as a whole for the layout
			releasedFamily(r, []rig.Layout{parseLayout(rc.Layout)})
			r.Finish()
		}
		w := &worker{rigs: map[string]*rig.Rig{}}
		o := run(w, rc)
		fmt.Printf("replay: [%s] %s\n  content %v\n  status=%s %s %s %s\n", rc.Layout, o.sql, describe(parseLayout(rc.Layout), rc.Content), o.status, o.kind, o.detail, o.errText)
		for _, s := range o.shards {
			fmt.Println("   ", s)
		}
		if o.status == "violation" {
			report(r, w, rc, o)
		}
		r.Set("evaluations", 1)
		r.Finish()
	}

	var layouts []rig.Layout
	if r.Quick() {
		layouts = []rig.Layout{{Rule: "hash", Slices: 2, Per: 1}, {Rule: "mod", Slices: 2, Per: 2}, {Rule: "range", Slices: 2, Per: 2},
			{Rule: "date_month", Slices: 2, Per: 1}, {Rule: "mycat_mod", Slices: 2, Per: 2}, {Rule: "range", Slices: 3, Per: 1}}
	} else {
		for _, rule := range []string{"hash", "mod", "range", "date_month", "mycat_mod"} {
			for _, sp := range [][2]int{{1, 2}, {2, 1}, {2, 2}, {3, 1}, {1, 4}, {4, 1}} {
				layouts = append(layouts, rig.Layout{Rule: rule, Slices: sp[0], Per: sp[1]})
			}
		}
	}
	rowsSingle := r.Pick(3, 4) // contents for trees with at most one atom
	rowsPair := 2              // contents for two-atom trees
	// thorough = a fixed volume (about 4x quick), not cut by the clock: all 30 layouts for
	// trees with at most one atom on <=3 rows, 4-row contents and two-atom trees (all
	// templates) on the six layouts of the quick tier, the history family on 20 layouts
	core := map[string]bool{"hash-2x1": true, "mod-2x2": true, "range-2x2": true, "date_month-2x1": true, "mycat_mod-2x2": true, "range-3x1": true}
	var contents [][]int
	enum.Multisets(len(rig.Universe), rowsSingle, func(s []int) { contents = append(contents, append([]int{}, s...)) })

	// the trees: none, a, NOT a, and the six two-atom forms over all ordered atom pairs
	var trees [][3]int
	trees = append(trees, [3]int{0, 0, 0})
	for a := range atoms {
		trees = append(trees, [3]int{1, a, 0}, [3]int{2, a, 0}, [3]int{9, a, 0})
	}
	// pairs: every form over the same two atoms before the next pair, so that a time cap
	// cuts all connectives at the same place; AND / OR are commutative for forms 3..6
	for a := range atoms {
		for b := a + 1; b < len(atoms); b++ {
			for f := 3; f <= 8; f++ {
				trees = append(trees, [3]int{f, a, b})
				if f > 6 {
					trees = append(trees, [3]int{f, b, a})
				}
			}
		}
	}
	pairTmpl := map[string]bool{"delete": true, "update_two": true, "update_alias": true, "delete_db": true}
	type item struct {
		l    rig.Layout
		t    int
		tr   [3]int
		tri  int
		ks   int
		hist int // > 0: history family, index+1 into hists
	}
	var items []item
	for _, l := range layouts {
		for ks := range keyAssign {
			items = append(items, item{l: l, ks: ks})
		}
	}
	// order: key-assigning statements first, then trees with at most one atom, the history
	// family and two-atom trees interleaved round-robin (each simplest-first), so that a
	// time cap under heavy machine load cuts all three at a comparable depth
	keyItems := items
	items = nil
	var pairItems []item
	// simplest trees first, all layouts and templates inside each tree
	for tri, tr := range trees {
		for _, l := range layouts {
			for t := range tmpls {
				// quick tier: two-atom trees meet four of the templates (routing of
				// AND/OR is independent of how the statement spells its table)
				if r.Quick() && tr[0] >= 3 && tr[0] <= 8 && !pairTmpl[tmpls[t].name] {
					continue
				}
				if tr[0] >= 3 && tr[0] <= 8 {
					if !core[l.Name()] {
						continue
					}
					pairItems = append(pairItems, item{l: l, t: t, tr: tr, tri: tri, ks: -1})
				} else {
					items = append(items, item{l: l, t: t, tr: tr, tri: tri, ks: -1})
				}
			}
		}
	}

	// the history family: every prefix of 1 or 2 statements x every statement under test,
	// on one layout per rule type (quick) / all layouts (thorough)
	var hists [][]int
	for a := range rig.Prefixes {
		hists = append(hists, []int{a})
	}
	for a := range rig.Prefixes {
		for b := range rig.Prefixes {
			hists = append(hists, []int{a, b})
		}
	}
	hContents := [][]int{{0, 1, 2, 3, 4, 5, 6, 7}, {0, 2, 5, 9}}
	seenRule := map[string]bool{}
	var hLayouts []rig.Layout
	for _, l := range layouts {
		if r.Quick() && seenRule[l.Rule] {
			continue
		}
		if r.Thorough() && l.Tables() < 3 {
			continue
		}
		seenRule[l.Rule] = true
		hLayouts = append(hLayouts, l)
	}
	for hi := range hists {
		for _, l := range hLayouts {
			items = append(items, item{l: l, ks: -1, hist: hi + 1})
		}
	}
	{
		var singles, histItems []item
		for _, it := range items {
			if it.hist > 0 {
				histItems = append(histItems, it)
			} else {
				singles = append(singles, it)
			}
		}
		items = keyItems
		for i := 0; i < len(singles) || i < len(histItems) || i < len(pairItems); i++ {
			if i < len(singles) {
				items = append(items, singles[i])
			}
			if i < len(histItems) {
				items = append(items, histItems[i])
			}
			if i < len(pairItems) {
				items = append(items, pairItems[i])
			}
		}
	}
	// one pristine store per (layout, content); every case works on a clone
	templates := map[string][]*rig.Store{}
	for _, l := range layouts {
		rg, err := rig.New(l)
		if err != nil {
			ev.Fatalf("%v", err)
		}
		for _, c := range contents {
			st, err := rg.NewStore(contentRows(c))
			if err != nil {
				ev.Fatalf("%s: %v", l.Name(), err)
			}
			templates[l.Name()] = append(templates[l.Name()], st)
		}
	}

	releasedFamily(r, hLayouts)

	pool := sync.Pool{New: func() interface{} { return &worker{rigs: map[string]*rig.Rig{}} }}
	// one bit per (template, tree, content) triple that changed rows on >= 2 tables
	ntWords := (len(contents) + 63) / 64
	ntBits := make([]uint64, len(tmpls)*len(trees)*ntWords)
	mark := func(t, tri, ci int) {
		w := (t*len(trees)+tri)*ntWords + ci/64
		bit := uint64(1) << uint(ci%64)
		for {
			old := atomic.LoadUint64(&ntBits[w])
			if old&bit != 0 || atomic.CompareAndSwapUint64(&ntBits[w], old, old|bit) {
				return
			}
		}
	}
	histNontrivial := map[string]bool{}
	errClasses := map[string]int{}
	noteErr := func(c string) {
		classMu.Lock()
		errClasses[c]++
		classMu.Unlock()
	}
	start := time.Now()
	stop := func() bool {
		if r.Quick() && os.Getenv("VERIF_BUDGET_S") == "" && time.Since(start) > 50*time.Second {
			return true
		}
		return r.TimeUp()
	}
	var sampleMu sync.Mutex
	sampled := map[string]bool{}

	done := enum.Parallel(len(items), stop, func(n int) {
		it := items[n]
		w := pool.Get().(*worker)
		defer pool.Put(w)
		if it.ks >= 0 {
			c := Case{Layout: it.l.Name(), KeyStmt: it.ks, Content: []int{0, 2}}
			o := run(w, c)
			r.Add("evaluations", 1)
			r.Add("key_assigning_statements", 1)
			if o.status == "violation" {
				report(r, w, c, o)
			} else {
				r.Add("key_assigning_statements_rejected", 1)
			}
			return
		}
		if it.hist > 0 {
			var nEval, nOK, nDiv, nRej, nNT int64
			for ti := range hTargets {
				for hc, content := range hContents {
					if r.Quick() && hc > 0 && len(hists[it.hist-1]) > 1 {
						continue // quick: two-statement prefixes meet the all-keys content only
					}
					c := Case{Layout: it.l.Name(), KeyStmt: -1, Hist: hists[it.hist-1], HTarget: ti, Content: content}
					o := run(w, c)
					switch o.status {
					case "prefix_diverged":
						nDiv++
						noteErr("prefix diverged: " + rig.Prefixes[c.Hist[len(c.Hist)-1]].Name)
						continue
					case "invalid":
						continue
					case "rejected_exec":
						nEval++
						nRej++
						continue
					}
					nEval++
					if o.touched >= 2 {
						nNT++
						classMu.Lock()
						histNontrivial[fmt.Sprint(c.Hist, ti, hc)] = true
						classMu.Unlock()
					}
					if o.status == "violation" {
						report(r, w, c, o)
					} else {
						nOK++
						if o.touched >= 2 && len(c.Hist) == 2 {
							sampleMu.Lock()
							if !sampled["history"] {
								sampled["history"] = true
								c.SQL, c.Rows, c.Shards = o.sql, describe(it.l, content), o.shards
								r.Sample(c)
							}
							sampleMu.Unlock()
						}
					}
				}
			}
			r.Add("evaluations", nEval)
			r.Add("history_cases", nEval)
			r.Add("history_cases_held", nOK)
			r.Add("history_prefix_diverged", nDiv)
			r.Add("history_rejected", nRej)
			r.Add("history_changed_rows_on_two_or_more_tables", nNT)
			return
		}
		maxRows := rowsSingle
		if !core[it.l.Name()] {
			maxRows = 3
		}
		if it.tr[0] >= 3 && it.tr[0] <= 8 {
			maxRows = rowsPair
		}
		var nEval, nOK, nRejB, nRejE, nInvalid, nTouched2 int64
		rg := w.rig(it.l)
		prep := prepare(rg, Case{Layout: it.l.Name(), Tmpl: it.t, Tree: it.tr, KeyStmt: -1})
		ex := rg.NewExec(nil)
		for ci, content := range contents {
			if len(content) > maxRows {
				continue
			}
			c := Case{Layout: it.l.Name(), Tmpl: it.t, Tree: it.tr, Content: content, KeyStmt: -1}
			o := runPrepared(rg, prep, c, templates[it.l.Name()][ci].Clone(), ex)
			switch o.status {
			case "invalid":
				nInvalid++
				continue
			case "rejected_build":
				nRejB++
				noteErr("build: " + errClass(o.errText))
				// the plan does not depend on the content
				goto out
			case "rejected_exec":
				nEval++
				nRejE++
				noteErr("exec: " + errClass(o.errText))
				continue
			}
			nEval++
			if o.touched >= 2 {
				nTouched2++
				mark(it.t, it.tri, ci)
			}
			if o.status == "violation" {
				report(r, w, c, o)
			} else {
				nOK++
				if o.touched >= 2 {
					key := tmpls[it.t].name
					sampleMu.Lock()
					if !sampled[key] && len(sampled) < 6 {
						sampled[key] = true
						c.SQL, c.Rows, c.Shards = o.sql, describe(it.l, content), o.shards
						r.Sample(c)
					}
					sampleMu.Unlock()
				}
			}
		}
	out:
		if ok, how := rg.Intact(); !ok {
			// the shared router of this worker was damaged by the statement: report it and
			// continue with a new router
			c := Case{Layout: it.l.Name(), Tmpl: it.t, Tree: it.tr, Content: []int{}, KeyStmt: -1}
			feat := features(c, it.l, "router_state_changed")
			c.SQL = prep.sql
			r.Violation(ev.Witness{Summary: fmt.Sprintf("[%s] %s: %s", c.Layout, prep.sql, how), Features: feat, Case: c})
			delete(w.rigs, it.l.Name())
		}
		r.Add("evaluations", nEval)
		r.Add("held", nOK)
		r.Add("statements_rejected_at_build", nRejB)
		r.Add("rejected_at_execution_nothing_changed", nRejE)
		r.Add("not_valid_sql_for_reference", nInvalid)
		r.Add("changed_rows_on_two_or_more_tables", nTouched2)
		r.Add("statements", 1)
	})
	if done < len(items) {
		r.Capped(fmt.Sprintf("%d of %d (layout, statement) items, simplest WHERE trees first", done, len(items)))
	}
	nNontriv := 0
	for _, w := range ntBits {
		nNontriv += bits.OnesCount64(w)
	}
	nNontriv += len(histNontrivial)
	r.Set("distinct_nontrivial", nNontriv)
	r.Set("history_family", fmt.Sprintf("%d prefixes (rig.Prefixes) -> %d histories of length 1-2 x %d statements under test x %d contents, fresh router per case", len(rig.Prefixes), len(hists), len(hTargets), len(hContents)))
	r.Set("rejections_by_error_class", errClasses)
	var names []string
	for _, l := range layouts {
		names = append(names, l.Name())
	}
	r.Set("layouts", names)
	nt := len(tmpls)
	if r.Quick() {
		nt = len(pairTmpl)
	}
	r.Set("volume", "fixed by the tier: the run ends when every item was executed (exhaustive) or at the engine's budget (cap_hit)")
	r.Set("bounds", fmt.Sprintf("%d statement templates (%d of them for two-atom trees) x %d WHERE trees (%d atoms; forms none, a, NOT (a), NOT a, and 6 two-atom forms) x contents: all multisets of <=%d rows (<=%d rows for two-atom trees) of a %d-row universe; %d key-assigning statements per layout",
		len(tmpls), nt, len(trees), len(atoms), rowsSingle, rowsPair, len(rig.Universe), len(keyAssign)))
	r.Set("universe_items", len(items))
	r.Set("rule", "cases = layout x statement template x WHERE tree x content (enum.Multisets over rig.Universe), plus the key-assigning statements; a case is non-trivial when the statement changed rows on at least two physical tables (so rows and affected-row counts of several shards had to agree with the single database); distinct_nontrivial counts distinct (template, tree, content) triples among those")
	r.Assume("sqlref implements MySQL's UPDATE/DELETE semantics for the supported subset (affected rows = rows actually changed); it executes both the original statement on the single table and every rewritten statement on its shard")
	r.Assume("a statement Gaea refuses when building the plan changes nothing and is not a violation; an execution error is accepted only if no shard was changed")
	r.Assume("a nil result from ExecuteIn (empty route) means 0 affected rows")
	if os.Getenv("VERIF_DEBUG") != "" {
		var ks []string
		for k := range classes {
			ks = append(ks, k)
		}
		sort.Strings(ks)
		for _, k := range ks {
			fmt.Printf("CLASS %6d  %s\n", classes[k], k)
		}
	}
	r.Finish()
}

func errClass(s string) string {
	if i := strings.Index(s, "(sql:"); i >= 0 {
		s = s[:i]
	}
	var sb strings.Builder
	for _, c := range s {
		if c >= '0' && c <= '9' {
			continue
		}
		sb.WriteRune(c)
	}
	s = sb.String()
	if len(s) > 90 {
		s = s[:90]
	}
	return s
}
