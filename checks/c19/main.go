// C19: backend connections are returned exactly once and never leaked.
//
// Engine: xstate (BFS over histories of client commands, each optionally carrying ONE
// injected backend fault; fault budget 1 (quick) / 2 (thorough) per history), every history
// replayed on fresh real Manager / Namespace / Session objects (real Session.Run) on the
// session rig /verif/ref/sessrig.
//
// Events: BEGIN COMMIT ROLLBACK AC0 AC1 SP RBTO R0 W0 RS WS W1 PING QUIT DISC
// (START TRANSACTION and SELECT..FOR UPDATE take the code paths of BEGIN / W0 and are
// covered by C18). A faulted event is "OP!<pool>#<n>=<kind>": the n-th faultable backend
// call (get, use_db, write_set, set_autocommit, begin, commit, rollback, execute, ping) on
// that pool during the command answers err (error packet, connection healthy) or closed
// (call fails, connection closed) - or hang (execute blocks until the executor's
// max_sql_execute_time path closes the connection) in the timeout configuration. The
// fault positions of an event are enumerated exactly: Enabled replays hist+op once without a
// fault and reads the number of faultable calls per pool from the rig.
//
// Order pinning. The executor iterates Go maps (slices of a sharded statement, txConns,
// ksConns) in loops that stop at the first error (getBackendConns, handleBegin, the ping
// loop) or keep the last error (savepoint loops). When a call fails inside such a command the
// outcome depends on the iteration order. A suffix "@d" asks for descending pool order, no
// suffix for ascending; Replay re-runs the history until the observed order of the
// sequential calls matches (Go picks either order with probability >= 1/8), so both orders
// are explored and every replay of one history gives the same result.
package main

import (
	"fmt"
	"os"
	"sort"
	"strconv"
	"strings"
	"sync"
	"sync/atomic"
	"time"

	"github.com/XiaoMi/Gaea/mysql"

	"verif/engine/ev"
	"verif/engine/gx"
	"verif/engine/xstate"
	"verif/ref/sessrig"
)

var sqlOf = map[string]string{
	"BEGIN":    "begin",
	"COMMIT":   "commit",
	"ROLLBACK": "rollback",
	"AC0":      "set autocommit=0",
	"AC1":      "set autocommit=1",
	"SP":       "savepoint a",
	"RBTO":     "rollback to a",
	"R0":       "select * from t1 where id=1",
	"W0":       "update t1 set a=1 where id=1",
	"RS":       "select * from tbl_ks",
	"WS":       "update tbl_ks set a=1",
	"W1":       "update tbl_ks set a=1 where id=1",
}

var ops = []string{"BEGIN", "COMMIT", "ROLLBACK", "AC0", "AC1", "SP", "RBTO", "R0", "W0", "RS", "WS", "W1", "PING", "QUIT", "DISC"}

// ops whose result can depend on the order in which two connections are visited
var orderOps = map[string]bool{"WS": true, "RS": true, "BEGIN": true, "PING": true, "SP": true, "RBTO": true}

// ops whose loop stops at the first failure (prefix rule); the others visit every connection
var abortOps = map[string]bool{"WS": true, "RS": true, "BEGIN": true, "PING": true, "R0": true, "W0": true, "W1": true}

var targets = map[string][]string{"R0": {"slice-0"}, "W0": {"slice-0"}, "W1": {"slice-1"}, "RS": {"slice-0", "slice-1"}, "WS": {"slice-0", "slice-1"}}

const prelude = "set sql_safe_updates=1" // makes session-variable sync a real backend call

type config struct {
	User      string   `json:"user"`
	KS        bool     `json:"keep_session"`
	MaxExecMs int      `json:"max_exec_ms,omitempty"`
	Kinds     []string `json:"kinds"`
	Depth     int      `json:"depth"`
	Faults    int      `json:"faults"`
}

func (c config) String() string {
	return fmt.Sprintf("user=%s,ks=%v,kinds=%s,maxexec=%d", c.User, c.KS, strings.Join(c.Kinds, "+"), c.MaxExecMs)
}

type kase struct {
	Cfg  config   `json:"cfg"`
	Hist []string `json:"hist"`
	Real bool     `json:"real_pool_layer,omitempty"`
}

type event struct {
	Op   string
	F    *sessrig.Fault
	Desc bool
}

func parseEvent(s string) event {
	var e event
	if strings.HasSuffix(s, "@d") {
		e.Desc = true
		s = strings.TrimSuffix(s, "@d")
	}
	if i := strings.Index(s, "!"); i >= 0 {
		e.Op = s[:i]
		rest := s[i+1:]
		h := strings.Index(rest, "#")
		q := strings.Index(rest, "=")
		n, _ := strconv.Atoi(rest[h+1 : q])
		e.F = &sessrig.Fault{Pool: rest[:h], Nth: n, Kind: rest[q+1:]}
	} else {
		e.Op = s
	}
	return e
}

func (e event) String() string {
	s := e.Op
	if e.F != nil {
		s += "!" + e.F.String()
	}
	if e.Desc {
		s += "@d"
	}
	return s
}

func nFaults(h []string) int {
	n := 0
	for _, s := range h {
		if strings.Contains(s, "!") {
			n++
		}
	}
	return n
}

// ---- one replay ----

type faultInfo struct {
	op    string // backend call that was hit: execute, begin, ...
	kind  string
	cmd   string // client command during which it fired
	phase string // session phase when the command started
	pool  string
	lease int
}

type result struct {
	res      xstate.Result
	calls    map[string]int // faultable calls per pool of the LAST step
	mismatch bool           // order did not match: replay again
	trace    []stepTrace
	ended    bool
}

type stepTrace struct {
	Ev   string   `json:"event"`
	Resp string   `json:"resp"`
	Led  []string `json:"ledger,omitempty"`
}

func phaseOf(st sessState) string {
	p := "autocommit"
	switch {
	case st.InTrans && !st.AutoCommit:
		p = "begin+autocommit_off"
	case st.InTrans:
		p = "in_tx"
	case !st.AutoCommit:
		p = "autocommit_off"
	}
	if st.KS {
		return "ks_" + p
	}
	return p
}

type sessState struct {
	AutoCommit, InTrans, InTx, KS, Closed bool
	tx, ks                                map[string]sessrig.ConnInfo // slice -> conn
	Savepoints                            []string
}

func snapshot(w *sessrig.World, a *sessrig.Sess) sessState {
	s := a.State()
	st := sessState{AutoCommit: s.AutoCommit, InTrans: s.InTrans, InTx: s.InTx, KS: s.KeepSession, Closed: s.Closed,
		tx: map[string]sessrig.ConnInfo{}, ks: map[string]sessrig.ConnInfo{}, Savepoints: s.Savepoints}
	for _, r := range s.TxConns {
		ci, _ := w.InfoOf(r.Conn)
		st.tx[r.Slice] = ci
	}
	for _, r := range s.KsConns {
		ci, _ := w.InfoOf(r.Conn)
		st.ks[r.Slice] = ci
	}
	return st
}

// expectedSeq predicts the pools the command's sequential loop visits (only for abort-type
// commands, see orderOps/abortOps). Guarded by an assertion in replayOnce.
func expectedSeq(cfg config, op string, st sessState) []string {
	set := map[string]bool{}
	switch op {
	case "BEGIN":
		for s, c := range st.tx {
			set[s+"/"+c.Role] = true
		}
		for s, c := range st.ks {
			set[s+"/"+c.Role] = true
		}
	case "PING":
		for s, c := range st.ks {
			set[s+"/"+c.Role] = true
		}
	default:
		for _, s := range targets[op] {
			if st.KS {
				if _, ok := st.ks[s]; !ok {
					set[s+"/master"] = true
				}
				continue
			}
			if st.InTx {
				if _, ok := st.tx[s]; !ok {
					set[s+"/master"] = true
				}
				continue
			}
			if (op == "R0" || op == "RS") && cfg.User == sessrig.UserRWS {
				set[s+"/slave"] = true
			} else {
				set[s+"/master"] = true
			}
		}
	}
	out := make([]string, 0, len(set))
	for k := range set {
		out = append(out, k)
	}
	sort.Strings(out)
	return out
}

func runEvent(a *sessrig.Sess, e event) sessrig.Resp {
	var fs []sessrig.Fault
	if e.F != nil {
		fs = []sessrig.Fault{*e.F}
	}
	switch e.Op {
	case "PING":
		return a.Ping(fs...)
	case "QUIT":
		return a.Quit(fs...)
	case "DISC":
		return a.Disconnect(fs...)
	}
	return a.Do(mysql.ComQuery, []byte(sqlOf[e.Op]), fs...)
}

func replayOnce(cfg config, hist []string, wantTrace bool) result {
	w, err := sessrig.New(sessrig.Config{KeepSession: cfg.KS, MaxExecMs: cfg.MaxExecMs})
	if err != nil {
		ev.Fatalf("sessrig.New: %v", err)
	}
	defer w.Close()
	a := w.NewSession("A", cfg.User)
	if r := a.Query(prelude); r.Kind != "ok" {
		ev.Fatalf("prelude failed: %+v", r)
	}
	leases := sessrig.NewLeases()
	var out result
	var faults []faultInfo
	faultedLease := map[int]bool{}
	var cur struct {
		entries []sessrig.Entry
		before  sessState
	}
	viol := func(i int, e event, kind string, lease int, format string, args ...interface{}) result {
		which := "other_conn"
		if faultedLease[lease] {
			which = "faulted_conn"
		}
		f := map[string]string{"kind": kind, "which": which, "ks": fmt.Sprint(cfg.KS), "detected_at": e.Op, "faults": fmt.Sprint(len(faults)),
			"mech": mechOf(cfg, kind, lease, e.Op, cur.entries, cur.before, w)}
		if n := len(faults); n > 0 {
			f["fault"] = faults[n-1].op + "_" + faults[n-1].kind
			f["cmd"] = faults[n-1].cmd
			f["phase"] = faults[n-1].phase
		} else {
			f["fault"], f["cmd"], f["phase"] = "none", "none", "none"
		}
		out.res.Violation = fmt.Sprintf("step %d %s: %s [%s]: ", i, e, kind, f["mech"]) + fmt.Sprintf(format, args...)
		out.res.Features = f
		return out
	}
	for i, hs := range hist {
		e := parseEvent(hs)
		before := snapshot(w, a)
		resp := runEvent(a, e)
		led := w.Ledger()
		step := w.Step()
		var entries []sessrig.Entry
		for _, x := range led {
			if x.Step == step {
				entries = append(entries, x)
			}
		}
		if wantTrace {
			out.trace = append(out.trace, stepTrace{Ev: hs, Resp: fmt.Sprintf("%s %d %s", resp.Kind, resp.ErrCode, resp.ErrMsg), Led: sessrig.Describe(entries)})
		}
		if i == len(hist)-1 {
			out.calls = resp.Calls
		}
		// --- order pinning ---
		failing := false
		for _, x := range entries {
			if x.Res == "err" || x.Res == "closed" || x.Res == "on_closed" || x.Res == "hang" {
				failing = true
			}
		}
		if failing && orderOps[e.Op] {
			obs := sessrig.SeqOrder(entries, step)
			if abortOps[e.Op] {
				exp := expectedSeq(cfg, e.Op, before)
				in := map[string]bool{}
				for _, k := range exp {
					in[k] = true
				}
				for _, k := range obs {
					if !in[k] {
						ev.Fatalf("order predictor wrong: %v event %d %s: observed %v expected subset of %v", hist, i, hs, obs, exp)
					}
				}
				if e.Desc {
					sort.Sort(sort.Reverse(sort.StringSlice(exp)))
				}
				if len(exp) >= 2 {
					for j, k := range obs {
						if j >= len(exp) || exp[j] != k {
							out.mismatch = true
							return out
						}
					}
				}
			} else if len(obs) >= 2 {
				asc := sort.StringsAreSorted(obs)
				if asc == e.Desc {
					out.mismatch = true
					return out
				}
			}
		}
		if e.F != nil && len(resp.Fired) == 0 {
			// The enumerated position exists in ascending order (that is how it was probed) but
			// not in this order variant: an earlier connection of the loop failed first and the
			// loop stopped. The run is then identical to the unfaulted variant of the event,
			// which is enumerated as well: drop this history.
			atomic.AddInt64(&unfired, 1)
			out.res = xstate.Result{Key: "fault position does not exist in this iteration order", Stop: true}
			return out
		}
		// --- fault bookkeeping ---
		for _, f := range resp.Fired {
			fi := faultInfo{kind: f.Kind, cmd: e.Op, phase: phaseOf(before), pool: f.Pool}
			for _, x := range entries {
				if x.Slice+"/"+x.Role == f.Pool && (x.Res == "err" || x.Res == "closed" || x.Res == "hang") {
					fi.op = x.Op
					fi.lease = x.Lease
					if x.Lease != 0 {
						faultedLease[x.Lease] = true
					}
				}
			}
			faults = append(faults, fi)
		}
		// --- oracle ---
		cur.entries, cur.before = entries, before
		if br := leases.Feed(led); len(br) > 0 {
			return viol(i, e, br[0].Kind, br[0].Entry.Lease, "%s", br[0])
		}
		ended := resp.Ended || a.Ended
		after := snapshot(w, a)
		referenced := map[int]string{}
		for s, c := range after.tx {
			referenced[c.Lease] = "txConns[" + s + "]"
		}
		for s, c := range after.ks {
			referenced[c.Lease] = "ksConns[" + s + "]"
		}
		outst := w.Outstanding()
		sort.Slice(outst, func(x, y int) bool { return outst[x].Pool < outst[y].Pool })
		if ended {
			out.ended = true
			for _, c := range outst {
				if c.Holder != "A" {
					continue
				}
				k := "held_at_session_end"
				if c.InTx {
					k = "open_tx_at_session_end"
				}
				return viol(i, e, k, c.Lease, "connection of %s (closed=%v, backend transaction open=%v) was never given back although the session ended", c.Pool, c.Closed, c.InTx)
			}
		} else {
			for _, c := range outst {
				if c.Holder != "A" {
					continue
				}
				if _, ok := referenced[c.Lease]; !ok {
					return viol(i, e, "leak_unreferenced", c.Lease, "connection of %s (closed=%v, backend transaction open=%v) is still taken from its pool but the session has forgotten it (not in txConns/ksConns): it can never be given back", c.Pool, c.Closed, c.InTx)
				}
			}
			// a connection the session still refers to must still be leased to it
			for _, m := range []map[string]sessrig.ConnInfo{after.tx, after.ks} {
				sl := make([]string, 0, len(m))
				for s := range m {
					sl = append(sl, s)
				}
				sort.Strings(sl)
				for _, s := range sl {
					c := m[s]
					if !c.Out || leases.Released[c.Lease] > 0 {
						return viol(i, e, "dangling_reference", c.Lease, "the session still refers to a connection of %s for %s that it has already given back to the pool", c.Pool, s)
					}
				}
			}
			if !after.KS && !after.InTx && len(after.tx) > 0 {
				return viol(i, e, "held_outside_tx", 0, "session is not in a transaction but still holds %d transaction connection(s)", len(after.tx))
			}
		}
		if i == len(hist)-1 {
			out.res.Outcome = e.Op + "=" + resp.Kind
			if e.F != nil {
				out.res.Outcome += "!" + faults[len(faults)-1].op + "_" + e.F.Kind
			}
		}
		if ended && i < len(hist)-1 {
			ev.Fatalf("history continues after the session ended: %v", hist)
		}
	}
	out.res.Stop = out.ended
	out.res.Key = canon(cfg, w, a, nFaults(hist), out.ended)
	return out
}

// mechOf names the mechanism behind a violation from what is visible in the step's ledger
// and the session state - the matcher of the known-finding signatures. Every pattern is
// specific to one code path; anything else is "unclassified" and therefore always reported.
func mechOf(cfg config, kind string, lease int, op string, entries []sessrig.Entry, before sessState, w *sessrig.World) string {
	var mine []sessrig.Entry
	pingFailed, otherClosedRecycled := false, false
	for _, x := range entries {
		if x.Lease == lease && x.Conn != 0 {
			mine = append(mine, x)
		}
		if x.Op == "ping" && x.Res != "ok" {
			pingFailed = true
		}
	}
	closedNow := map[int]bool{}
	for _, x := range entries {
		if x.Op == "recycle" && x.Res == "discard" && x.Lease != lease {
			closedNow[x.Lease] = true
		}
	}
	otherClosedRecycled = len(closedNow) > 0
	gotHere, setupFailed := false, false
	for _, x := range mine {
		if x.Op == "get" {
			gotHere = true
		}
		if (x.Op == "begin" || x.Op == "set_autocommit" || x.Op == "write_set") && (x.Res == "err" || x.Res == "closed") {
			setupFailed = true
		}
	}
	inTxBefore, inKsBefore := false, false
	for _, c := range before.tx {
		if c.Lease == lease {
			inTxBefore = true
		}
	}
	for _, c := range before.ks {
		if c.Lease == lease {
			inKsBefore = true
		}
	}
	closed := false
	for _, c := range w.Conns() {
		if c.Lease == lease {
			closed = c.Closed
		}
	}
	unsharded := op == "R0" || op == "W0"
	switch kind {
	case "double_release":
		if unsharded && gotHere && setupFailed {
			// getTransactionConn / getBackendKsConn close+recycle the connection and still return
			// it; ExecuteSQL's deferred recycleBackendConn recycles it again
			return "failed_setup_conn_returned_twice"
		}
		if cfg.KS && op == "PING" && pingFailed {
			return "ks_conns_reused_after_failed_ping"
		}
	case "use_after_release":
		if cfg.KS && op == "PING" && pingFailed {
			// handleKeepSessionPing recycles the pinned connections but leaves them in ksConns; the
			// session exit path then rolls back / closes / recycles them again
			return "ks_conns_reused_after_failed_ping"
		}
	case "dangling_reference":
		if cfg.KS && closed && (inKsBefore || gotHere) {
			// recycleBackendConn recycles a closed keep-session connection but leaves it in ksConns
			return "closed_ks_conn_returned_but_still_pinned"
		}
	case "leak_unreferenced", "held_at_session_end", "open_tx_at_session_end":
		if !cfg.KS && closed && inTxBefore && (op == "ROLLBACK" || op == "QUIT" || op == "DISC") {
			// rollback() skips closed connections and then drops txConns
			return "closed_tx_conn_skipped_by_rollback"
		}
		if !cfg.KS && inTxBefore && unsharded && otherClosedRecycled {
			// recycleBackendConn on a closed connection -> recycleTx forgets every transaction connection
			return "other_tx_conns_forgotten_after_conn_failure"
		}
	}
	return "unclassified"
}

var retries, replays, unfired int64

func replay(cfg config, hist []string, wantTrace bool) result {
	for attempt := 0; attempt < 4000; attempt++ {
		atomic.AddInt64(&replays, 1)
		r := replayOnce(cfg, hist, wantTrace)
		if !r.mismatch {
			return r
		}
		atomic.AddInt64(&retries, 1)
	}
	ev.Fatalf("could not obtain the requested iteration order for %v", hist)
	return result{}
}

// canon: the state a future can depend on.
//
// Merging argument. The session's future behaviour is a function of its status bits, its
// savepoint list, the slices present in txConns / ksConns and, for each of those
// connections, its pool, backend flags (closed, autocommit, in-tx), whether it is still
// leased, and how far its initialisation went (database selected / variables stored / SET
// owed - this decides which backend calls, hence which fault positions, the next use has).
// The pools' future behaviour is a function of their idle queues (same per-connection
// attributes, in hand-out order). Outstanding leases the session no longer refers to can
// never change again; they are kept as a sorted multiset because the end-of-session verdict
// counts them. The remaining fault budget bounds the future. Identities are irrelevant
// beyond "same object in two places", which cannot occur between txConns and ksConns.
func canon(cfg config, w *sessrig.World, a *sessrig.Sess, used int, ended bool) string {
	st := a.State()
	var sb strings.Builder
	fmt.Fprintf(&sb, "ended=%v faults=%d ac=%v it=%v sp=%v|", ended, used, st.AutoCommit, st.InTrans, st.Savepoints)
	desc := func(ci sessrig.ConnInfo) string {
		return fmt.Sprintf("%s/g%d/%s cl=%v ac=%v tx=%v out=%v init=%s", ci.Slice, ci.Gen, ci.Role, ci.Closed, ci.AutoCom, ci.InTx, ci.Out, ci.Init)
	}
	referenced := map[int]bool{}
	sb.WriteString("tx:")
	for _, r := range st.TxConns {
		ci, _ := w.InfoOf(r.Conn)
		referenced[ci.Lease] = true
		fmt.Fprintf(&sb, "%s=(%s);", r.Slice, desc(ci))
	}
	sb.WriteString("|ks:")
	for _, r := range st.KsConns {
		ci, _ := w.InfoOf(r.Conn)
		referenced[ci.Lease] = true
		fmt.Fprintf(&sb, "%s=(%s);", r.Slice, desc(ci))
	}
	var others []string
	for _, ci := range w.Outstanding() {
		if !referenced[ci.Lease] {
			others = append(others, ci.Holder+":"+desc(ci))
		}
	}
	sort.Strings(others)
	fmt.Fprintf(&sb, "|out:%v|idle:", others)
	idle := w.Idle()
	pk := make([]string, 0, len(idle))
	for k := range idle {
		pk = append(pk, k)
	}
	sort.Strings(pk)
	for _, k := range pk {
		sb.WriteString(k + "=[")
		for _, ci := range idle[k] {
			sb.WriteString(ci.Init + ",")
		}
		sb.WriteString("];")
	}
	return sb.String()
}

func sigOf(f map[string]string) string {
	ks := make([]string, 0, len(f))
	for k := range f {
		ks = append(ks, k)
	}
	sort.Strings(ks)
	var sb strings.Builder
	for _, k := range ks {
		sb.WriteString(k + "=" + f[k] + " ")
	}
	return sb.String()
}

// ---- enumeration ----

func enabled(cfg config, hist []string) []string {
	dirty := nFaults(hist) > 0
	budget := nFaults(hist) < cfg.Faults
	var out []string
	type probe struct {
		op    string
		calls map[string]int
	}
	probes := make([]probe, len(ops))
	if budget {
		var wg sync.WaitGroup
		for i, op := range ops {
			wg.Add(1)
			go func(i int, op string) {
				defer wg.Done()
				h := append(append([]string(nil), hist...), op)
				r := replay(cfg, h, false)
				probes[i] = probe{op, r.calls}
			}(i, op)
		}
		wg.Wait()
	}
	for i, op := range ops {
		out = append(out, op)
		if dirty && orderOps[op] {
			out = append(out, op+"@d")
		}
		if !budget {
			continue
		}
		calls := probes[i].calls
		npools := 0
		for _, n := range calls {
			if n > 0 {
				npools++
			}
		}
		for _, pool := range sessrig.SortedKeys(calls) {
			for n := 0; n < calls[pool]; n++ {
				for _, kind := range cfg.Kinds {
					e := event{Op: op, F: &sessrig.Fault{Pool: pool, Nth: n, Kind: kind}}
					out = append(out, e.String())
					if orderOps[op] && (npools >= 2 || dirty) {
						e.Desc = true
						out = append(out, e.String())
					}
				}
			}
		}
	}
	return out
}

func main() {
	gx.Quiet()
	r := ev.Start("C19", "fault_enumeration")
	var c kase
	if r.ReplayCase(&c) && c.Real {
		o := realReplay(c.Cfg, c.Hist, true)
		for _, t := range o.trace {
			fmt.Printf("%-34s -> %-22s %v\n", t.Ev, t.Resp, t.Led)
		}
		if o.res.Violation != "" {
			r.Violation(ev.Witness{Summary: "real_pool," + c.Cfg.String() + " " + strings.Join(c.Hist, ",") + ": " + o.res.Violation, Features: o.res.Features, Case: c})
		}
		r.Set("evaluations", 1)
		r.Set("rule", "replay of one recorded history on the real-pool layer")
		r.Distinct("nontrivial", "replay")
		r.Distinct("nontrivial", "replay2")
		r.Sample(c)
		r.Finish()
	}
	if c.Hist != nil {
		o := replay(c.Cfg, c.Hist, true)
		for _, t := range o.trace {
			fmt.Printf("%-34s -> %-22s %v\n", t.Ev, t.Resp, t.Led)
		}
		if o.res.Violation != "" {
			r.Violation(ev.Witness{Summary: c.Cfg.String() + " " + strings.Join(c.Hist, ",") + ": " + o.res.Violation, Features: o.res.Features, Case: c})
		}
		r.Set("evaluations", 1)
		r.Set("rule", "replay of one recorded history")
		r.Distinct("nontrivial", "replay")
		r.Distinct("nontrivial", "replay2")
		r.Sample(c)
		r.Finish()
	}

	depth := r.Pick(4, 5)
	nf := r.Pick(1, 2)
	ek := []string{"err", "closed"}
	cfgs := []config{
		{User: sessrig.UserRWS, KS: false, Kinds: ek, Depth: depth, Faults: nf},
		{User: sessrig.UserRWS, KS: true, Kinds: ek, Depth: depth, Faults: nf},
		// the max_sql_execute_time path: a blocked Execute, the executor kills + closes
		{User: sessrig.UserRW, KS: false, MaxExecMs: 400, Kinds: []string{"hang"}, Depth: 3, Faults: 1},
		{User: sessrig.UserRW, KS: true, MaxExecMs: 400, Kinds: []string{"hang"}, Depth: r.Pick(2, 3), Faults: 1},
	}
	if r.Thorough() {
		cfgs = append(cfgs,
			config{User: sessrig.UserRW, KS: false, Kinds: ek, Depth: 4, Faults: 2},
			config{User: sessrig.UserRW, KS: true, Kinds: ek, Depth: 4, Faults: 2})
	}
	var states, transitions int64
	perCfg := map[string]interface{}{}
	firedKinds := map[string]int{}
	classes := map[string]int{}
	classEx := map[string]string{}
	var flaky []string
	var mu sync.Mutex
	for _, cfg := range cfgs {
		cfg := cfg
		opsHere := ops
		_ = opsHere
		spec := xstate.Spec[string]{
			MaxDepth: cfg.Depth,
			Workers:  16,
			Stop:     r.TimeUp,
			Enabled: func(h []string) []string {
				if cfg.MaxExecMs > 0 {
					// timeout configuration: only unsharded statements can hang (see NOTES.md)
					var out []string
					all := enabled(cfg, h)
					last := map[string]int{} // op|pool -> highest position
					for _, e := range all {
						if pe := parseEvent(e); pe.F != nil && pe.F.Nth > last[pe.Op+"|"+pe.F.Pool] {
							last[pe.Op+"|"+pe.F.Pool] = pe.F.Nth
						}
					}
					for _, e := range all {
						pe := parseEvent(e)
						if pe.F != nil && ((pe.Op != "R0" && pe.Op != "W0") || pe.F.Nth != last[pe.Op+"|"+pe.F.Pool]) {
							continue
						}
						out = append(out, e)
					}
					return out
				}
				return enabled(cfg, h)
			},
			Replay: func(h []string) xstate.Result {
				o := replay(cfg, h, false)
				if o.res.Key != "" {
					r.Distinct("nontrivial", cfg.String()+"|"+o.res.Key)
				}
				return o.res
			},
			OnOutcome: func(o string) {
				if o != "" {
					r.Distinct("outcomes", cfg.String()+"|"+o)
					if i := strings.Index(o, "!"); i >= 0 {
						mu.Lock()
						firedKinds[o[i+1:]]++
						mu.Unlock()
					}
				}
			},
			OnViolation: func(h []string, res xstate.Result) {
				// re-run 4 more times; a history whose verdict is not reproducible is never
				// reported as a violation (it is counted, and makes the run an engine error
				// unless reproducible violations exist as well)
				var wg sync.WaitGroup
				var differs int32
				for i := 0; i < 4; i++ {
					wg.Add(1)
					go func() {
						defer wg.Done()
						again := replay(cfg, h, false)
						if again.res.Violation != res.Violation {
							atomic.AddInt32(&differs, 1)
						}
					}()
				}
				wg.Wait()
				if differs > 0 {
					mu.Lock()
					flaky = append(flaky, cfg.String()+" "+strings.Join(h, ",")+": "+res.Violation)
					mu.Unlock()
					return
				}
				mu.Lock()
				classes[sigOf(res.Features)]++
				if _, ok := classEx[sigOf(res.Features)]; !ok {
					classEx[sigOf(res.Features)] = cfg.String() + " " + strings.Join(h, ",")
				}
				mu.Unlock()
				k := kase{Cfg: cfg, Hist: append([]string(nil), h...)}
				r.Violation(ev.Witness{Summary: cfg.String() + " " + strings.Join(h, ",") + ": " + res.Violation, Features: res.Features, Case: k})
			},
		}
		t0 := time.Now()
		st := xstate.BFS(spec)
		fmt.Printf("%s: states=%d transitions=%d depth=%d frontier=%v violating=%d %.1fs\n", cfg, st.States, st.Transitions, st.MaxDepth, st.PerDepth, st.Violations, time.Since(t0).Seconds())
		states += st.States
		transitions += st.Transitions
		perCfg[cfg.String()] = map[string]interface{}{"states": st.States, "transitions": st.Transitions, "depth": st.MaxDepth, "depth_bound": cfg.Depth,
			"fault_budget": cfg.Faults, "frontier_per_depth": st.PerDepth, "violating_histories": st.Violations}
		if st.Capped {
			r.Capped(fmt.Sprintf("time budget hit in configuration %s at depth %d; earlier configurations and shallower depths complete", cfg, st.MaxDepth))
			break
		}
	}
	// the real-pool layer (see real.go)
	rs, rt := runRealLayer(r, perCfg, func(cfg config, h []string, res xstate.Result) {
		mu.Lock()
		classes[sigOf(res.Features)]++
		if _, ok := classEx[sigOf(res.Features)]; !ok {
			classEx[sigOf(res.Features)] = "real_pool," + cfg.String() + " " + strings.Join(h, ",")
		}
		mu.Unlock()
		k := kase{Cfg: cfg, Hist: append([]string(nil), h...), Real: true}
		r.Violation(ev.Witness{Summary: "real_pool," + cfg.String() + " " + strings.Join(h, ",") + ": " + res.Violation, Features: res.Features, Case: k})
	})
	states += rs
	transitions += rt
	r.Set("real_pool_layer_states", rs)
	r.Set("real_pool_layer_transitions", rt)
	if len(classes) > 0 && (r.Violations() > 0 || os.Getenv("VERIF_VERBOSE") != "") {
		fmt.Println("violation classes (count, features, first = shortest example):")
		for _, k := range sessrig.SortedKeys(classes) {
			fmt.Printf("  %5d %s\n        e.g. %s\n", classes[k], k, classEx[k])
		}
	}
	for _, s := range []kase{
		{Cfg: cfgs[0], Hist: []string{"BEGIN", "WS!slice-1/master#4=closed", "ROLLBACK", "DISC"}},
		{Cfg: cfgs[0], Hist: []string{"AC0", "W0", "COMMIT!slice-0/master#0=err", "QUIT"}},
		{Cfg: cfgs[1], Hist: []string{"W0", "BEGIN", "W1!slice-1/master#0=err", "DISC"}},
	} {
		o := replay(s.Cfg, s.Hist, true)
		r.Sample(map[string]interface{}{"cfg": s.Cfg, "hist": s.Hist, "trace": o.trace, "violation": o.res.Violation})
	}
	r.Set("evaluations", transitions)
	r.Set("states", states)
	r.Set("transitions", transitions)
	r.Set("traces_validated_against_impl", transitions)
	r.Set("replays_including_probes_and_order_retries", atomic.LoadInt64(&replays))
	r.Set("order_retries", atomic.LoadInt64(&retries))
	r.Set("fault_positions_absent_in_desc_order", atomic.LoadInt64(&unfired))
	r.Set("per_configuration", perCfg)
	r.Set("faults_fired_by_call_and_kind", firedKinds)
	r.Set("rule", "BFS over histories of client commands (15 ops) with at most <fault_budget> injected backend faults per history; the fault positions of each command are enumerated exactly (every faultable backend call on every pool, kinds err/closed, or hang in the timeout configurations) and both map-iteration orders are explored for order-sensitive commands; states merged by canonical key; distinct_nontrivial = distinct canonical states reached (session status, txConns/ksConns with backend flags, unreferenced outstanding leases, idle queues, fault budget used)")
	r.Assume("fake backend: err = error packet with healthy connection, closed = call fails and IsClosed() becomes true, hang = Execute blocks until Close(); the pool applies the real reset-on-put rule; a SetAutoCommit error does not additionally break the socket (the real DirectConnection closes its net.Conn there)")
	r.Assume("timeout configurations use max_sql_execute_time=400ms real time: no ordinary fake call may take that long")
	r.Assume("timeouts on the sharded execution path (executeMultipleSQLInSlice) are not injected: that path leaves the backend call running and does not close the connection")
	r.Set("irreproducible_verdicts", len(flaky))
	if len(flaky) > 0 && r.Violations() == 0 {
		ev.Fatalf("%d histories gave a verdict that did not reproduce in 5 runs, e.g. %s", len(flaky), flaky[0])
	}
	if len(firedKinds) < 6 && !r.TimeUp() && r.Violations() == 0 {
		ev.Fatalf("vacuous run: only %d distinct (call,kind) faults fired", len(firedKinds))
	}
	r.Finish()
}
