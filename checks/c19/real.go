package main

// Real-pool layer of C19: the same session commands, but the master pool of every slice is a
// REAL backend.connectionPoolImpl (util.ResourcePool + pooledConnectImpl + DirectConnection
// over in-memory pipes answered by the rig's MySQL responder, see ref/sessrig/realpool.go).
// What the fake pools model (Recycle of a closed connection = discard + slot released,
// reset-on-put) is the real code here, so defects BELOW the PooledConnect interface are
// visible: the oracle is the pool's own accounting.
//
//	after every command:  sum(in use) == number of real connections the session still refers to
//	                      (txConns / ksConns), and in use + available == capacity per pool
//	when the session ends: in use == 0 and available == capacity for every pool
//
// Events: BEGIN COMMIT ROLLBACK AC0 AC1 W0 W1 WS PING RELOAD QUIT DISC; one fault per history on
// commands that talk to exactly one pool (err / closed at every backend round trip; hang =
// statement timeout in the max_sql_execute_time configuration).

import (
	"fmt"
	"sort"
	"strings"
	"sync"
	"time"

	"verif/engine/ev"
	"verif/engine/xstate"
	"verif/ref/sessrig"
)

var realOps = []string{"BEGIN", "COMMIT", "ROLLBACK", "AC0", "AC1", "W0", "W1", "WS", "PING", "RELOAD", "QUIT", "DISC"}

type realOutcome struct {
	res   xstate.Result
	calls map[string]int
	trace []stepTrace
}

func realReplay(cfg config, hist []string, wantTrace bool) realOutcome {
	w, err := sessrig.New(sessrig.Config{KeepSession: cfg.KS, MaxExecMs: cfg.MaxExecMs, RealMasters: true})
	if err != nil {
		ev.Fatalf("sessrig.New: %v", err)
	}
	defer w.Close()
	a := w.NewSession("A", cfg.User)
	var out realOutcome
	lastFault := "none"
	ended := false
	for i, hs := range hist {
		e := parseEvent(hs)
		var resp sessrig.Resp
		if e.Op == "RELOAD" {
			if err := w.Reload(); err != nil {
				ev.Fatalf("reload: %v", err)
			}
		} else {
			resp = runEvent(a, e)
			if e.F != nil {
				if len(resp.Fired) == 0 {
					ev.Fatalf("real layer: fault %s of event %d (%s) did not fire", e.F, i, hs)
				}
				lastFault = e.F.Kind
			}
		}
		if i == len(hist)-1 {
			out.calls = resp.Calls
		}
		led := w.Ledger()
		step := w.Step()
		var entries []sessrig.Entry
		for _, x := range led {
			if x.Step == step && e.Op != "RELOAD" {
				entries = append(entries, x)
			}
		}
		if wantTrace {
			out.trace = append(out.trace, stepTrace{Ev: hs, Resp: fmt.Sprintf("%s %d %s", resp.Kind, resp.ErrCode, resp.ErrMsg), Led: sessrig.Describe(entries)})
		}
		ended = a.Ended
		st := a.State()
		refs := 0
		for _, r := range st.TxConns {
			if _, ok := w.RealConnOf(r.Conn); ok {
				refs++
			}
		}
		for _, r := range st.KsConns {
			if _, ok := w.RealConnOf(r.Conn); ok {
				refs++
			}
		}
		var inUse int64
		viol := func(kind, format string, args ...interface{}) realOutcome {
			out.res.Violation = fmt.Sprintf("step %d %s: %s: ", i, hs, kind) + fmt.Sprintf(format, args...)
			out.res.Features = map[string]string{"layer": "real_pool", "kind": kind, "ks": fmt.Sprint(cfg.KS), "detected_at": e.Op, "fault": lastFault, "mech": "unclassified"}
			return out
		}
		for _, c := range w.RealCounters() {
			inUse += c.InUse
			if c.InUse+c.Available != c.Capacity || c.InUse < 0 {
				return viol("pool_accounting_broken", "pool %s (generation %d): capacity=%d in use=%d available=%d", c.Pool, c.Gen, c.Capacity, c.InUse, c.Available)
			}
		}
		if ended {
			if inUse != 0 {
				return viol("slot_leaked_at_session_end", "the session ended but %d pool slot(s) are still marked in use", inUse)
			}
		} else if inUse != int64(refs) {
			return viol("slot_accounting_mismatch", "%d pool slot(s) in use but the session refers to %d backend connection(s)", inUse, refs)
		}
		if ended && i < len(hist)-1 {
			ev.Fatalf("real layer: history continues after the session ended: %v", hist)
		}
	}
	out.res.Stop = ended
	out.res.Outcome = "real:" + hist2last(hist)
	out.res.Key = realCanon(w, a, nFaults(hist), ended)
	return out
}

func hist2last(h []string) string {
	if len(h) == 0 {
		return ""
	}
	return parseEvent(h[len(h)-1]).Op
}

// realCanon: session status bits, savepoints are not used here; per referenced connection the
// client view (autocommit / in-tx / closed) and the server view; per pool the counters and the
// number of live idle connections (decides fresh vs. reused on the next Get); fault budget.
func realCanon(w *sessrig.World, a *sessrig.Sess, used int, ended bool) string {
	st := a.State()
	var sb strings.Builder
	fmt.Fprintf(&sb, "ended=%v faults=%d ac=%v it=%v idx=%v|", ended, used, st.AutoCommit, st.InTrans, st.NsIndexNow > st.NsIndexCtx)
	ref := map[int]bool{}
	one := func(tag, slice string, rc sessrig.RealConn, ok bool, cv [3]bool) {
		fmt.Fprintf(&sb, "%s:%s=(real=%v srv ac=%v tx=%v cli ac=%v tx=%v closed=%v);", tag, slice, ok, rc.AutoCom, rc.InTx, cv[0], cv[1], cv[2])
	}
	for _, r := range st.TxConns {
		rc, ok := w.RealConnOf(r.Conn)
		var cv [3]bool
		if ok {
			cv[0], cv[1], cv[2] = sessrig.ClientView(r.Conn)
			ref[rc.ID] = true
		}
		one("tx", r.Slice, rc, ok, cv)
	}
	for _, r := range st.KsConns {
		rc, ok := w.RealConnOf(r.Conn)
		var cv [3]bool
		if ok {
			cv[0], cv[1], cv[2] = sessrig.ClientView(r.Conn)
			ref[rc.ID] = true
		}
		one("ks", r.Slice, rc, ok, cv)
	}
	var cs []string
	maxGen := 0
	for _, c := range w.RealCounters() {
		if c.Gen > maxGen {
			maxGen = c.Gen
		}
	}
	for _, c := range w.RealCounters() {
		cs = append(cs, fmt.Sprintf("%s stale=%v use=%d idle=%d", c.Pool, c.Gen < maxGen, c.InUse, c.Active-c.InUse))
	}
	sort.Strings(cs)
	fmt.Fprintf(&sb, "|%v", cs)
	return sb.String()
}

func realEnabled(cfg config, hist []string) []string {
	out := append([]string(nil), realOps...)
	if !cfg.KS {
		// RELOAD only matters for pinned connections
		out = out[:0]
		for _, op := range realOps {
			if op != "RELOAD" {
				out = append(out, op)
			}
		}
	}
	if nFaults(hist) >= cfg.Faults {
		return out
	}
	fops := []string{"BEGIN", "COMMIT", "ROLLBACK", "AC0", "AC1", "W0", "W1", "PING"}
	probes := make([]map[string]int, len(fops))
	var wg sync.WaitGroup
	for i, op := range fops {
		wg.Add(1)
		go func(i int, op string) {
			defer wg.Done()
			probes[i] = realReplay(cfg, append(append([]string(nil), hist...), op), false).calls
		}(i, op)
	}
	wg.Wait()
	for i, op := range fops {
		if len(probes[i]) != 1 {
			continue // commands talking to two pools are order dependent under a fault (see main.go)
		}
		for pool, n := range probes[i] {
			for k := 0; k < n; k++ {
				for _, kind := range cfg.Kinds {
					if kind == "hang" && (k != n-1 || (op != "W0" && op != "W1")) {
						continue
					}
					out = append(out, fmt.Sprintf("%s!%s#%d=%s", op, pool, k, kind))
				}
			}
		}
	}
	return out
}

// runRealLayer explores the real-pool configurations and returns (states, transitions).
func runRealLayer(r *ev.Run, perCfg map[string]interface{}, onViolation func(cfg config, h []string, res xstate.Result)) (int64, int64) {
	ek := []string{"err", "closed"}
	cfgs := []config{
		{User: sessrig.UserRW, KS: false, Kinds: ek, Depth: r.Pick(3, 5), Faults: 1},
		{User: sessrig.UserRW, KS: true, Kinds: ek, Depth: r.Pick(3, 5), Faults: 1},
		{User: sessrig.UserRW, KS: false, MaxExecMs: 400, Kinds: []string{"hang"}, Depth: r.Pick(2, 3), Faults: 1},
		{User: sessrig.UserRW, KS: true, MaxExecMs: 400, Kinds: []string{"hang"}, Depth: r.Pick(2, 3), Faults: 1},
	}
	var states, transitions int64
	for _, cfg := range cfgs {
		cfg := cfg
		name := "real_pool," + cfg.String()
		spec := xstate.Spec[string]{
			MaxDepth: cfg.Depth,
			Workers:  16,
			Stop:     r.TimeUp,
			Enabled:  func(h []string) []string { return realEnabled(cfg, h) },
			Replay: func(h []string) xstate.Result {
				o := realReplay(cfg, h, false)
				if o.res.Key != "" {
					r.Distinct("nontrivial", name+"|"+o.res.Key)
				}
				return o.res
			},
			OnViolation: func(h []string, res xstate.Result) {
				for i := 0; i < 2; i++ {
					if again := realReplay(cfg, h, false); again.res.Violation != res.Violation {
						return // never report a verdict that does not reproduce
					}
				}
				onViolation(cfg, h, res)
			},
		}
		t0 := time.Now()
		st := xstate.BFS(spec)
		fmt.Printf("%s: states=%d transitions=%d depth=%d frontier=%v violating=%d %.1fs\n", name, st.States, st.Transitions, st.MaxDepth, st.PerDepth, st.Violations, time.Since(t0).Seconds())
		states += st.States
		transitions += st.Transitions
		perCfg[name] = map[string]interface{}{"states": st.States, "transitions": st.Transitions, "depth": st.MaxDepth, "depth_bound": cfg.Depth,
			"fault_budget": cfg.Faults, "frontier_per_depth": st.PerDepth, "violating_histories": st.Violations}
		if st.Capped {
			r.Capped(fmt.Sprintf("time budget hit in real-pool configuration %s at depth %d", cfg, st.MaxDepth))
			break
		}
	}
	return states, transitions
}
