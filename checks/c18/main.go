package main

import (
	"fmt"
	"os"
	"runtime/pprof"
	"time"

	"verif/engine/gx"
	"verif/ref/sessrig"
)

func main() {
	gx.Quiet()
	f, _ := os.Create("/tmp/c18-smoke/cpu.prof")
	pprof.StartCPUProfile(f)
	t0 := time.Now()
	n := 2000
	for i := 0; i < n; i++ {
		_, err := sessrig.New(sessrig.Config{KeepSession: i%2 == 0})
		if err != nil {
			panic(err)
		}
	}
	fmt.Println(time.Since(t0)/time.Duration(n), "per world")
	t0 = time.Now()
	for i := 0; i < n; i++ {
		w, err := sessrig.New(sessrig.Config{KeepSession: i%2 == 0})
		if err != nil {
			panic(err)
		}
		s := w.NewSession("A", sessrig.UserRWS)
		for _, q := range []string{"begin", "insert into t1 values (1)", "update tbl_ks set a=1", "commit"} {
			s.Query(q)
		}
		s.Disconnect()
	}
	fmt.Println(time.Since(t0)/time.Duration(n), "per replay")
	pprof.StopCPUProfile()
}
