// C18: a transaction stays on one master connection per slice.
//
// Engine: xstate (BFS over command histories, every history replayed on a FRESH real
// server.Manager / Namespace / Session running the real Session.Run loop) on the session rig
// /verif/ref/sessrig (fake connection pools with a per-connection ledger).
//
// Alphabet (design C18): BEGIN, START TRANSACTION, COMMIT, ROLLBACK, SET autocommit=0/1,
// SAVEPOINT a, ROLLBACK TO a, unsharded read / write / SELECT..FOR UPDATE (default slice),
// sharded read / write on slices {0,1}, sharded write on slice 1 only, and a second session
// issuing autocommit writes (default slice / both slices) between any two steps.
// Configurations: user with / without read-write splitting x keep-session off / on.
//
// Oracle = a monitor over the ledger, written from the client's point of view with MySQL's
// transaction semantics (see type monitor).
package main

import (
	"fmt"
	"sort"
	"strconv"
	"strings"
	"sync"
	"time"

	"verif/engine/ev"
	"verif/engine/gx"
	"verif/engine/xstate"
	"verif/ref/sessrig"
)

// ---- alphabet ----

var sqlOf = map[string]string{
	"BEGIN":    "begin",
	"START":    "start transaction",
	"COMMIT":   "commit",
	"ROLLBACK": "rollback",
	"AC0":      "set autocommit=0",
	"AC1":      "set autocommit=1",
	"SP":       "savepoint a",
	"RBTO":     "rollback to a",
	"R0":       "select * from t1 where id=1",
	"W0":       "update t1 set a=1 where id=1",
	"FU":       "select * from t1 where id=1 for update",
	"RS":       "select * from tbl_ks",
	"WS":       "update tbl_ks set a=1",
	"W1":       "update tbl_ks set a=1 where id=1",
	"B:W0":     "update t1 set a=2 where id=2",
	"B:WS":     "update tbl_ks set a=2",
}

var alphabet = []string{"BEGIN", "START", "COMMIT", "ROLLBACK", "AC0", "AC1", "SP", "RBTO", "R0", "W0", "FU", "RS", "WS", "W1", "B:W0", "B:WS"}

type config struct {
	User  string `json:"user"`
	KS    bool   `json:"keep_session"`
	Depth int    `json:"depth,omitempty"` // 0: the tier's default bound
	// Faults > 0: statement events may carry one injected backend fault ("OP!pool#n=kind", at
	// most Faults per history): taking / setting up the connection or the statement itself
	// fails (err = error answer, closed = the connection breaks).
	Faults int `json:"faults,omitempty"`
}

func (c config) String() string {
	if c.Faults > 0 {
		return fmt.Sprintf("user=%s,ks=%v,faults=%d", c.User, c.KS, c.Faults)
	}
	return fmt.Sprintf("user=%s,ks=%v", c.User, c.KS)
}

// faultOps are the commands that may carry a fault; multi-slice statements only where at most
// one slice needs a new connection (otherwise the outcome depends on Go's map iteration
// order in getBackendConns - that universe belongs to C19, which pins the order).
var faultOps = []string{"R0", "W0", "FU", "W1", "RS", "WS"}

func splitEvent(ev string) (op string, f *sessrig.Fault) {
	i := strings.Index(ev, "!")
	if i < 0 {
		return ev, nil
	}
	rest := ev[i+1:]
	h, q := strings.Index(rest, "#"), strings.Index(rest, "=")
	n, _ := strconv.Atoi(rest[h+1 : q])
	return ev[:i], &sessrig.Fault{Pool: rest[:h], Nth: n, Kind: rest[q+1:]}
}

func nFaults(h []string) int {
	n := 0
	for _, e := range h {
		if strings.Contains(e, "!") {
			n++
		}
	}
	return n
}

type kase struct {
	Cfg  config   `json:"cfg"`
	Hist []string `json:"hist"`
}

// ---- monitor ----

// monitor is the oracle. It tracks the CLIENT's view of the transaction with MySQL's rules:
//
//	open()  <=>  inside BEGIN/START TRANSACTION ... COMMIT/ROLLBACK, or autocommit = 0
//	COMMIT / ROLLBACK end the transaction (under autocommit=0 the next one starts at once)
//	SET autocommit=1 while autocommit=0 is an implicit COMMIT; while autocommit is already 1
//	    it is a no-op, so a transaction opened with BEGIN stays open (MySQL: sys_vars.cc
//	    fix_autocommit only commits when the mode actually flips)
//	BEGIN inside an open transaction commits it implicitly and opens the next one; the
//	    monitor does not demand a release there (the statement names only COMMIT/ROLLBACK)
//	    and keeps the connection set, which is what the implementation does.
//
// While open(), every backend call of the session must be on a master connection and on the
// SAME lease per slice (epoch); leases must not be returned before the transaction ends.
// At COMMIT/ROLLBACK the commit/rollback call must reach exactly the epoch's leases
// (keep-session: at least those, and only connections pinned by this session), afterwards
// they are released (keep-session: kept).
type monitor struct {
	ks       bool
	ac       bool
	explicit bool
	epoch    map[string]int // slice -> lease
	// after names an earlier event of the CURRENT transaction after which the proxy is known
	// to have left transaction mode although the client's transaction is still open (only
	// "AC1_in_explicit_tx": SET autocommit=1 inside a BEGIN block with autocommit already 1).
	// It is reported as a feature so that the consequences of that one mechanism can be told
	// apart from any other violation.
	after  string
	// broken: a connection that belongs to the open transaction broke (fault kind closed after
	// its set-up succeeded). The backend transaction is gone and cannot stay on "one and the
	// same connection"; until the client's COMMIT/ROLLBACK the monitor then only demands what
	// still makes sense: no replica, no released / foreign lease (ledger audit).
	broken bool
	leases *sessrig.Leases
}

func (m *monitor) open() bool { return m.explicit || !m.ac }

type violation struct {
	msg  string
	feat map[string]string
}

func phaseOf(m *monitor) string {
	switch {
	case m.explicit && m.ac:
		return "explicit_tx_autocommit_on"
	case m.explicit && !m.ac:
		return "explicit_tx_autocommit_off"
	case !m.ac:
		return "autocommit_off"
	}
	return "autocommit_on"
}

// step evaluates one command of session A. entries = ledger entries of this step.
func (m *monitor) step(op string, resp sessrig.Resp, entries []sessrig.Entry, heldByA map[int]bool) *violation {
	phase := phaseOf(m)
	// what failed in this step (injected fault, or a call on a connection that broke earlier)
	failedOn := map[int]string{} // lease -> first failing op
	gotHere := map[int]bool{}
	anyFail := false
	for _, e := range entries {
		if e.Actor != "A" {
			continue
		}
		if e.Op == "get" && e.Res == "ok" {
			gotHere[e.Lease] = true
		}
		if e.Res == "err" || e.Res == "closed" || e.Res == "on_closed" {
			anyFail = true
			if _, ok := failedOn[e.Lease]; !ok && e.Lease != 0 {
				failedOn[e.Lease] = e.Op + ":" + e.Res
			}
		}
	}
	freshSetupFailed := func(l int) bool { // taken in this step and its set-up (BEGIN / SET autocommit=0) failed
		f := failedOn[l]
		return gotHere[l] && (strings.HasPrefix(f, "begin:") || strings.HasPrefix(f, "set_autocommit:"))
	}
	mk := func(kind, format string, a ...interface{}) *violation {
		return &violation{msg: fmt.Sprintf("%s at %s (%s, after=%s): ", kind, op, phase, m.after) + fmt.Sprintf(format, a...),
			feat: map[string]string{"kind": kind, "event": op, "phase": phase, "ks": fmt.Sprint(m.ks), "after": m.after, "broken": fmt.Sprint(m.broken)}}
	}
	wasOpen := m.open()
	if op == "AC1" && m.ac && m.explicit {
		m.after = "AC1_in_explicit_tx"
	}
	ending := ""
	switch op {
	case "COMMIT":
		ending = "commit"
	case "ROLLBACK":
		ending = "rollback"
	case "AC1":
		if !m.ac {
			ending = "set_autocommit"
		}
	}
	// the transaction state that applies to the backend calls of this step
	inTx := wasOpen
	if op == "BEGIN" || op == "START" || op == "AC0" {
		inTx = true
	}
	// does a connection of the transaction break in this step?
	brokeNow := false
	if inTx {
		for l, f := range failedOn {
			if (strings.HasSuffix(f, ":closed") || strings.HasSuffix(f, ":on_closed")) && !freshSetupFailed(l) {
				brokeNow = true
			}
		}
	}
	// per connection, deterministic order
	by := map[int][]sessrig.Entry{}
	var ids []int
	for _, e := range entries {
		if e.Actor != "A" || e.Conn == 0 {
			continue
		}
		if _, ok := by[e.Conn]; !ok {
			ids = append(ids, e.Conn)
		}
		by[e.Conn] = append(by[e.Conn], e)
	}
	// deterministic order that does not depend on connection numbering
	sort.Slice(ids, func(i, j int) bool {
		a, b := by[ids[i]][0], by[ids[j]][0]
		if a.Pool != b.Pool {
			return a.Pool < b.Pool
		}
		return ids[i] < ids[j]
	})
	ended := map[int]bool{}    // lease -> received the terminating call
	released := map[int]bool{} // lease -> released in this step
	for _, id := range ids {
		for _, e := range by[id] {
			switch e.Op {
			case "recycle":
				released[e.Lease] = true
				if !inTx {
					continue
				}
				inEpoch := m.epoch[e.Slice] == e.Lease
				if !inEpoch {
					continue
				}
				if freshSetupFailed(e.Lease) {
					// never became part of the transaction: the proxy has to give it back
					delete(m.epoch, e.Slice)
					continue
				}
				if m.broken || strings.HasSuffix(failedOn[e.Lease], ":closed") || strings.HasSuffix(failedOn[e.Lease], ":on_closed") {
					continue // a broken connection of the transaction is discarded
				}
				if brokeNow {
					continue // the transaction lost a connection in this step: the proxy gives the others up too
				}
				if ending == "" {
					return mk("released_in_tx", "the connection (%s) of the open transaction was given back to the pool before COMMIT/ROLLBACK", e.Pool)
				}
				if m.ks {
					return mk("ks_released_at_end", "keep-session connection (%s) was given back at the end of the transaction", e.Pool)
				}
				if !ended[e.Lease] {
					return mk("released_before_end_call", "connection (%s) was given back before %s reached it", e.Pool, ending)
				}
			case "close", "pool_rollback", "pool_autocommit":
			default:
				if !inTx {
					continue
				}
				if !sessrig.IsMasterRole(e.Role) {
					v := mk("replica_in_tx", "%s on a %s connection (%s) inside a transaction", e.Op, e.Role, e.Pool)
					v.feat["role"] = e.Role
					return v
				}
				if m.broken || brokeNow {
					continue
				}
				if l, ok := m.epoch[e.Slice]; ok && l != e.Lease {
					return mk("second_connection", "%s for %s ran on another connection than the one the transaction already uses for that slice (%s)", e.Op, e.Slice, e.Pool)
				}
				m.epoch[e.Slice] = e.Lease
				if ending != "" && e.Op == ending && e.Res == "ok" {
					if ending != "set_autocommit" || e.Arg == "1" {
						if ended[e.Lease] {
							return mk("end_call_twice", "%s sent twice to a connection of %s", ending, e.Pool)
						}
						ended[e.Lease] = true
					}
				}
			}
		}
	}
	if resp.Kind == "err" && !anyFail {
		// nothing failed on the backends: the proxy has no reason to refuse a command of the alphabet
		return mk("unexpected_error", "client got error %d %s", resp.ErrCode, resp.ErrMsg)
	}
	if ending != "" && !(m.broken || brokeNow) {
		need := map[int]bool{}
		for _, l := range m.epoch {
			need[l] = true
		}
		slices := make([]string, 0, len(m.epoch))
		for s := range m.epoch {
			slices = append(slices, s)
		}
		sort.Strings(slices)
		for _, s := range slices {
			l := m.epoch[s]
			if !ended[l] {
				return mk("end_call_missing", "%s did not reach the transaction's connection for %s", ending, s)
			}
			if !m.ks && !released[l] {
				return mk("not_released_at_end", "the transaction's connection for %s is still held after %s", s, ending)
			}
		}
		extra := 0
		for l := range ended {
			if need[l] {
				continue
			}
			if !m.ks || !heldByA[l] {
				extra++
			}
		}
		if extra > 0 {
			return mk("end_call_extra", "%s sent to %d connection(s) that are not part of the transaction", ending, extra)
		}
	}
	if brokeNow {
		m.broken = true
		m.epoch = map[string]int{}
	}
	// advance the client's view
	switch op {
	case "BEGIN", "START":
		m.explicit = true
	case "COMMIT", "ROLLBACK":
		m.explicit = false
		m.epoch = map[string]int{}
		m.after = ""
		m.broken = false
	case "AC0":
		m.ac = false
	case "AC1":
		if !m.ac {
			m.explicit = false
			m.epoch = map[string]int{}
			m.after = ""
			m.broken = false
		}
		m.ac = true
	}
	if !m.open() {
		m.epoch = map[string]int{}
		m.after = ""
		m.broken = false
	}
	return nil
}

// ---- replay ----

type stepTrace struct {
	Op   string   `json:"op"`
	Resp string   `json:"resp"`
	Led  []string `json:"ledger,omitempty"`
}

type outcome struct {
	res    xstate.Result
	trace  []stepTrace
	facts  []string
	ledger []string
	calls  map[string]int // faultable backend calls per pool of the last command
}

func replay(cfg config, hist []string, wantTrace bool) outcome {
	w, err := sessrig.New(sessrig.Config{KeepSession: cfg.KS})
	if err != nil {
		ev.Fatalf("sessrig.New: %v", err)
	}
	defer w.Close()
	a := w.NewSession("A", cfg.User)
	var b *sessrig.Sess
	m := &monitor{ks: cfg.KS, ac: true, epoch: map[string]int{}, leases: sessrig.NewLeases()}
	var out outcome
	everA := map[int]bool{} // connection ids ever leased by A
	last := ""
	for i, evs := range hist {
		op, fault := splitEvent(evs)
		var resp sessrig.Resp
		actor := "A"
		if strings.HasPrefix(op, "B:") {
			if b == nil {
				b = w.NewSession("B", sessrig.UserRW)
			}
			actor = "B"
			resp = b.Query(sqlOf[op])
		} else if fault != nil {
			resp = a.Query(sqlOf[op], *fault)
			if len(resp.Fired) == 0 {
				ev.Fatalf("fault %s of event %d (%s) did not fire", fault, i, evs)
			}
		} else {
			resp = a.Query(sqlOf[op])
		}
		if i == len(hist)-1 {
			out.calls = resp.Calls
		}
		led := w.Ledger()
		step := w.Step()
		var entries []sessrig.Entry
		for _, e := range led {
			if e.Step == step {
				entries = append(entries, e)
			}
		}
		if wantTrace {
			out.trace = append(out.trace, stepTrace{Op: evs, Resp: resp.Kind, Led: sessrig.Describe(entries)})
		}
		// ledger-level contract
		if br := m.leases.Feed(led); len(br) > 0 {
			out.res.Violation = fmt.Sprintf("step %d %s: %s", i, op, br[0])
			out.res.Features = map[string]string{"kind": br[0].Kind, "event": op, "phase": phaseOf(m), "ks": fmt.Sprint(cfg.KS), "after": m.after}
			return out
		}
		if resp.Ended || resp.Kind == "gone" || resp.Kind == "none" {
			out.res.Violation = fmt.Sprintf("step %d %s: session ended / no answer (%+v)", i, op, resp)
			out.res.Features = map[string]string{"kind": "session_ended", "event": op, "phase": phaseOf(m), "ks": fmt.Sprint(cfg.KS), "after": m.after}
			return out
		}
		held := map[int]bool{}
		for _, c := range w.Outstanding() {
			if c.Holder == "A" {
				held[c.Lease] = true
			}
		}
		for _, e := range entries {
			if e.Op == "get" && e.Res == "ok" {
				if e.Actor == "A" {
					everA[e.Conn] = true
					if !sessrig.IsMasterRole(e.Role) && !m.open() {
						out.facts = append(out.facts, "replica_read_outside_tx")
					}
				} else if everA[e.Conn] {
					out.facts = append(out.facts, "other_session_reused_conn_of_A")
				}
			}
		}
		if actor == "A" {
			nEpoch := len(m.epoch)
			if v := m.step(op, resp, entries, held); v != nil {
				out.res.Violation = fmt.Sprintf("step %d: %s", i, v.msg)
				out.res.Features = v.feat
				return out
			}
			if (op == "COMMIT" || op == "ROLLBACK") && nEpoch == 2 {
				out.facts = append(out.facts, "two_slice_tx_ended_by_"+op)
			}
		} else {
			if resp.Kind == "err" {
				out.res.Violation = fmt.Sprintf("step %d %s: second session got error %d %s", i, op, resp.ErrCode, resp.ErrMsg)
				out.res.Features = map[string]string{"kind": "unexpected_error", "event": op, "phase": phaseOf(m), "ks": fmt.Sprint(cfg.KS), "after": m.after}
				return out
			}
		}
		if i == len(hist)-1 {
			last = stepOutcome(op, resp, entries)
		}
	}
	out.res.Outcome = last
	out.res.Key = fmt.Sprintf("faults=%d|", nFaults(hist)) + canon(w, a, m)
	return out
}

func stepOutcome(op string, resp sessrig.Resp, entries []sessrig.Entry) string {
	set := map[string]bool{}
	for _, e := range entries {
		set[e.Op+"@"+e.Slice+"/"+e.Role+":"+e.Res] = true
	}
	ks := make([]string, 0, len(set))
	for k := range set {
		ks = append(ks, k)
	}
	sort.Strings(ks)
	return op + "=" + resp.Kind + "[" + strings.Join(ks, ",") + "]"
}

// canon renders the state a future can depend on.
//
// Merging argument. Session A's future behaviour is a function of: its status bits
// (autocommit / in-transaction), its savepoint list, which slices have an entry in txConns /
// ksConns and the backend state (pool, closed, autocommit, in-tx) of those connections; the
// second session's behaviour is a function of its pinned connections (keep-session) - it is
// otherwise stateless between its autocommit statements. The fake pools hand out an idle
// connection if there is one (always in reset state) or a new one, which behave alike, so
// only the NUMBER of idle connections per pool is kept. The monitor's own memory (client
// view ac/explicit, epoch leases) is part of the state because the verdict of a future step
// depends on it. Lease / connection identities are renamed in order of first mention
// (txConns by slice, ksConns by slice, epoch by slice); unreferenced outstanding leases are
// kept as a sorted multiset of descriptors. Nothing else (ledger length, ids, step numbers)
// influences later behaviour or later verdicts.
func canon(w *sessrig.World, a *sessrig.Sess, m *monitor) string {
	st := a.State()
	names := map[int]string{}
	name := func(lease int) string {
		if n, ok := names[lease]; ok {
			return n
		}
		n := fmt.Sprintf("c%d", len(names)+1)
		names[lease] = n
		return n
	}
	var sb strings.Builder
	fmt.Fprintf(&sb, "ac=%v it=%v closed=%v sp=%v|mon ac=%v ex=%v after=%s broken=%v|", st.AutoCommit, st.InTrans, st.Closed, st.Savepoints, m.ac, m.explicit, m.after, m.broken)
	desc := func(ci sessrig.ConnInfo) string {
		return fmt.Sprintf("%s/g%d/%s cl=%v ac=%v tx=%v", ci.Slice, ci.Gen, ci.Role, ci.Closed, ci.AutoCom, ci.InTx)
	}
	referenced := map[int]bool{}
	sb.WriteString("tx:")
	for _, r := range st.TxConns {
		ci, _ := w.InfoOf(r.Conn)
		referenced[ci.Lease] = true
		fmt.Fprintf(&sb, "%s=%s(%s out=%v);", r.Slice, name(ci.Lease), desc(ci), ci.Out)
	}
	sb.WriteString("|ks:")
	for _, r := range st.KsConns {
		ci, _ := w.InfoOf(r.Conn)
		referenced[ci.Lease] = true
		fmt.Fprintf(&sb, "%s=%s(%s out=%v);", r.Slice, name(ci.Lease), desc(ci), ci.Out)
	}
	sb.WriteString("|epoch:")
	sl := make([]string, 0, len(m.epoch))
	for s := range m.epoch {
		sl = append(sl, s)
	}
	sort.Strings(sl)
	for _, s := range sl {
		fmt.Fprintf(&sb, "%s=%s;", s, name(m.epoch[s]))
	}
	var others []string
	for _, ci := range w.Outstanding() {
		if referenced[ci.Lease] {
			continue
		}
		others = append(others, ci.Holder+":"+desc(ci))
	}
	sort.Strings(others)
	fmt.Fprintf(&sb, "|out:%v|idle:", others)
	idle := map[string]int{}
	for _, ci := range w.Conns() {
		if !ci.Out && !ci.Closed {
			idle[ci.Pool]++
		}
	}
	for _, k := range sessrig.SortedKeys(idle) {
		fmt.Fprintf(&sb, "%s=%d;", k, idle[k])
	}
	return sb.String()
}

// ---- main ----

func main() {
	gx.Quiet()
	r := ev.Start("C18", "model_checking")
	var c kase
	if r.ReplayCase(&c) {
		o := replay(c.Cfg, c.Hist, true)
		for _, t := range o.trace {
			fmt.Printf("%-9s -> %-6s %v\n", t.Op, t.Resp, t.Led)
		}
		if o.res.Violation != "" {
			r.Violation(ev.Witness{Summary: c.Cfg.String() + " " + strings.Join(c.Hist, ",") + ": " + o.res.Violation, Features: o.res.Features, Case: c})
		}
		r.Set("states", 1)
		r.Set("transitions", len(c.Hist))
		r.Set("traces_validated_against_impl", len(c.Hist))
		r.Sample(c)
		r.Finish()
	}

	depth := r.Pick(7, 16)
	cfgs := []config{
		{User: sessrig.UserRWS, KS: false}, {User: sessrig.UserRW, KS: false},
		{User: sessrig.UserRWS, KS: true}, {User: sessrig.UserRW, KS: true},
		// user types: the slice chooses the pool group (statistic slaves / monitor pools) by the
		// user's type, independently of the master/slave decision of the statement
		{User: sessrig.UserStat, KS: false, Depth: r.Pick(5, 16)}, {User: sessrig.UserMon, KS: false, Depth: r.Pick(5, 16)},
		{User: sessrig.UserStat, KS: true, Depth: r.Pick(6, 16)}, {User: sessrig.UserMon, KS: true, Depth: r.Pick(6, 16)},
	}
	// backend faults on statements (taking / setting up the transaction connection of a slice
	// fails, or the statement breaks its connection), one per history
	fd := r.Pick(5, 7)
	cfgs = append(cfgs,
		config{User: sessrig.UserRWS, KS: false, Depth: fd, Faults: 1}, config{User: sessrig.UserRW, KS: false, Depth: fd, Faults: 1},
		config{User: sessrig.UserRWS, KS: true, Depth: fd, Faults: 1})
	if r.Thorough() {
		// the admin (pass-through) type uses the normal users' pool groups
		cfgs = append(cfgs, config{User: sessrig.UserAdmin, KS: false}, config{User: sessrig.UserAdmin, KS: true})
	}
	var states, transitions int64
	perCfg := map[string]interface{}{}
	var mu sync.Mutex
	facts := map[string]int{}
	var flaky []string
	maxDepth := 0
	for _, cfg := range cfgs {
		cfg := cfg
		spec := xstate.Spec[string]{
			MaxDepth: func() int {
				if cfg.Depth > 0 {
					return cfg.Depth
				}
				return depth
			}(),
			Workers:  16,
			Stop:     r.TimeUp,
			Enabled: func(h []string) []string {
				if cfg.Faults == 0 || nFaults(h) >= cfg.Faults {
					return alphabet
				}
				// exact fault positions: replay hist+op once without a fault and read the number
				// of faultable backend calls per pool
				out := append([]string(nil), alphabet...)
				probes := make([]map[string]int, len(faultOps))
				var wg sync.WaitGroup
				for i, op := range faultOps {
					wg.Add(1)
					go func(i int, op string) {
						defer wg.Done()
						probes[i] = replay(cfg, append(append([]string(nil), h...), op), false).calls
					}(i, op)
				}
				wg.Wait()
				for i, op := range faultOps {
					fresh := 0 // pools on which the command takes a new connection (get + set-up + statement)
					for _, n := range probes[i] {
						if n >= 3 {
							fresh++
						}
					}
					if fresh > 1 {
						continue // order-dependent outcome, see faultOps
					}
					for _, pool := range sessrig.SortedKeys(probes[i]) {
						for n := 0; n < probes[i][pool]; n++ {
							for _, kind := range []string{"err", "closed"} {
								out = append(out, fmt.Sprintf("%s!%s#%d=%s", op, pool, n, kind))
							}
						}
					}
				}
				return out
			},
			Replay: func(h []string) xstate.Result {
				o := replay(cfg, h, false)
				mu.Lock()
				for _, f := range o.facts {
					facts[f]++
				}
				mu.Unlock()
				if o.res.Key != "" {
					r.Distinct("nontrivial", cfg.String()+"|"+o.res.Key)
				}
				return o.res
			},
			OnOutcome: func(o string) {
				if o != "" {
					r.Distinct("outcomes", cfg.String()+"|"+o)
				}
			},
			OnViolation: func(h []string, res xstate.Result) {
				// re-run 4 more times: the same history must fail identically
				for i := 0; i < 4; i++ {
					again := replay(cfg, h, false)
					if again.res.Violation != res.Violation {
						// never report a verdict that does not reproduce
						mu.Lock()
						flaky = append(flaky, cfg.String()+" "+strings.Join(h, ",")+": "+res.Violation+" vs "+again.res.Violation)
						mu.Unlock()
						return
					}
				}
				k := kase{Cfg: cfg, Hist: append([]string(nil), h...)}
				res.Features["user"] = cfg.User
				r.Violation(ev.Witness{Summary: cfg.String() + " " + strings.Join(h, ",") + ": " + res.Violation, Features: res.Features, Case: k})
			},
		}
		t0 := time.Now()
		st := xstate.BFS(spec)
		fmt.Printf("%s: states=%d transitions=%d depth=%d frontier=%v violating=%d %.1fs\n", cfg, st.States, st.Transitions, st.MaxDepth, st.PerDepth, st.Violations, time.Since(t0).Seconds())
		states += st.States
		transitions += st.Transitions
		if st.MaxDepth > maxDepth {
			maxDepth = st.MaxDepth
		}
		perCfg[cfg.String()] = map[string]interface{}{"states": st.States, "transitions": st.Transitions, "depth": st.MaxDepth,
			"frontier_per_depth": st.PerDepth, "violating_histories": st.Violations,
			"state_space_closed": len(st.PerDepth) > 0 && st.PerDepth[len(st.PerDepth)-1] == 0}
		if st.Capped {
			r.Capped(fmt.Sprintf("time budget hit in configuration %s at depth %d", cfg, st.MaxDepth))
			break
		}
	}
	// samples: a few written-out histories with the ledger they produced
	for _, s := range []kase{
		{cfgs[0], []string{"R0", "BEGIN", "W0", "WS", "B:WS", "COMMIT"}},
		{cfgs[1], []string{"AC0", "W1", "SP", "RS", "RBTO", "ROLLBACK", "AC1"}},
		{cfgs[2], []string{"W0", "START", "FU", "W1", "B:W0", "COMMIT"}},
	} {
		o := replay(s.Cfg, s.Hist, true)
		r.Sample(map[string]interface{}{"cfg": s.Cfg, "hist": s.Hist, "trace": o.trace, "violation": o.res.Violation})
	}
	r.Set("states", states)
	r.Set("transitions", transitions)
	r.Set("traces_validated_against_impl", transitions)
	r.Set("depth_bound", depth)
	r.Set("depth_reached", maxDepth)
	r.Set("alphabet", alphabet)
	r.Set("per_configuration", perCfg)
	r.Set("coverage_facts", facts)
	r.Set("rule", "BFS over histories of <=depth commands from the alphabet, one search per configuration (user type: normal with/without rw-splitting, statistic, monitor, thorough: admin; x keep-session off/on; five pool groups per slice); every history is replayed on fresh real Manager/Namespace/Session objects; states are merged by the canonical key (session status bits, savepoints, txConns/ksConns with renamed connection identities and backend state, monitor view, outstanding and idle connections per pool); distinct_nontrivial = distinct canonical states reached")
	r.Assume("fake pools/connections model the backend: BEGIN/COMMIT/ROLLBACK/SET autocommit change the server-side transaction flags as MySQL does; pool.Put applies the real reset-on-put rule (rollback open transaction, autocommit back to 1)")
	r.Assume("all backend calls answer ok (faults are C19's subject)")
	// non-vacuity: the facts that make the oracle meaningful must have been observed
	r.Set("irreproducible_verdicts", len(flaky))
	if len(flaky) > 0 && r.Violations() == 0 {
		ev.Fatalf("%d histories gave a verdict that did not reproduce in 5 runs, e.g. %s", len(flaky), flaky[0])
	}
	for _, f := range []string{"replica_read_outside_tx", "other_session_reused_conn_of_A", "two_slice_tx_ended_by_COMMIT", "two_slice_tx_ended_by_ROLLBACK"} {
		if facts[f] == 0 && !r.TimeUp() && r.Violations() == 0 {
			ev.Fatalf("vacuous run: fact %q never observed", f)
		}
	}
	r.Finish()
}
