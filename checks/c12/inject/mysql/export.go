//go:build verif

package mysql

// Thin accessors for the unexported codec functions of encoding.go (C12).

func VerifReadLenEncString(data []byte, pos int) (string, int, bool) {
	return readLenEncString(data, pos)
}

func VerifSkipLenEncString(data []byte, pos int) (int, bool) {
	return skipLenEncString(data, pos)
}

func VerifWriteEOFString(data []byte, pos int, value string) int {
	return writeEOFString(data, pos, value)
}
