//go:build verif

package models

// VerifVerifyAllowIps runs the control plane's allow-list validation (Namespace.Verify step).
func VerifVerifyAllowIps(list []string) error {
	n := &Namespace{AllowedIP: list}
	return n.verifyAllowIps()
}
