//go:build verif

package server

import (
	"net"

	"github.com/XiaoMi/Gaea/mysql"
	"github.com/XiaoMi/Gaea/util"
)

// Accessors for the C35 harness (injected by build overlay; not part of Gaea).

// VerifParseAllowIps is the real allow-list parser.
func VerifParseAllowIps(list []string) ([]util.IPInfo, error) { return parseAllowIps(list) }

// VerifAllowIPCount returns the number of parsed allow-list entries of a namespace.
func VerifAllowIPCount(n *Namespace) int { return len(n.allowips) }

// VerifManagerOf builds a Manager whose current namespace table holds exactly ns
// (no statistics, no users, no goroutines).
func VerifManagerOf(ns *Namespace) *Manager {
	m := NewManager()
	current, _, _ := m.switchIndex.Get()
	nm := NewNamespaceManager()
	nm.namespaces[ns.name] = ns
	m.namespaces[current] = nm
	m.users[current] = NewUserManager()
	return m
}

// VerifSessionOn builds a Session bound to namespace name on connection c, the way
// newSession + handleHandshakeResponse leave it (fields IsAllowConnect reads).
func VerifSessionOn(m *Manager, name string, c net.Conn) *Session {
	cc := new(Session)
	cc.c = NewClientConn(mysql.NewConn(c), m)
	cc.manager = m
	cc.namespace = name
	cc.closed.Store(false)
	return cc
}
