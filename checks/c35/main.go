// C35: only allow-listed client addresses can connect.
//
// Engine: enum. Every allow-list of <= K entries over a boundary-rich alphabet of entry
// texts (IPv4 / IPv6 / IPv4-mapped addresses and prefixes, with blanks) is loaded by the
// real server.NewNamespace (-> parseAllowIps -> util.ParseIPInfo) and every client address
// of a fixed boundary set (first/last address of every block, +-1) is presented
//
//	P4   as a 4-byte net.IP to Namespace.IsClientIPAllowed
//	P16  as a 16-byte net.IP (IPv4 values in IPv4-mapped form)
//	S4   through Session.IsAllowConnect with RemoteAddr = *net.TCPAddr{4-byte IP}
//	S16  through Session.IsAllowConnect with RemoteAddr = *net.TCPAddr{16-byte IP}
//	SM   through Session.IsAllowConnect with RemoteAddr().String() = "[::ffff:a.b.c.d]:port"
//
// and compared with an independent bit-prefix matcher (own text parser, own prefix
// comparison on 32-/128-bit values, IPv4-mapped folded to IPv4).
package main

import (
	"fmt"
	"net"
	"sort"
	"strconv"
	"strings"
	"time"

	"github.com/XiaoMi/Gaea/models"
	"github.com/XiaoMi/Gaea/proxy/server"

	"verif/engine/enum"
	"verif/engine/ev"
	"verif/engine/gx"
)

// ---------------------------------------------------------------- reference model

// value is an address: IPv4 (fam 4, b[12:16]) or IPv6 (fam 6, b[0:16]).
type value struct {
	fam int
	b   [16]byte
}

func (v value) String() string {
	if v.fam == 4 {
		return fmt.Sprintf("%d.%d.%d.%d", v.b[12], v.b[13], v.b[14], v.b[15])
	}
	var sb strings.Builder
	for i := 0; i < 16; i += 2 {
		if i > 0 {
			sb.WriteByte(':')
		}
		sb.WriteString(strconv.FormatUint(uint64(v.b[i])<<8|uint64(v.b[i+1]), 16))
	}
	return sb.String()
}

var mappedPrefix = [12]byte{0, 0, 0, 0, 0, 0, 0, 0, 0, 0, 0xff, 0xff}

func isMapped(b [16]byte) bool {
	for i := 0; i < 12; i++ {
		if b[i] != mappedPrefix[i] {
			return false
		}
	}
	return true
}

// fold turns an IPv4-mapped IPv6 value into the IPv4 value.
func fold(b [16]byte) value {
	if isMapped(b) {
		var v value
		v.fam = 4
		copy(v.b[12:], b[12:])
		return v
	}
	return value{fam: 6, b: b}
}

func mapped(v value) [16]byte {
	var b [16]byte
	copy(b[:12], mappedPrefix[:])
	copy(b[12:], v.b[12:])
	return b
}

func refParseV4(s string) (out [4]byte, ok bool) {
	parts := strings.Split(s, ".")
	if len(parts) != 4 {
		return out, false
	}
	for i, p := range parts {
		if len(p) == 0 || len(p) > 3 || (len(p) > 1 && p[0] == '0') {
			return out, false
		}
		n := 0
		for _, c := range p {
			if c < '0' || c > '9' {
				return out, false
			}
			n = n*10 + int(c-'0')
		}
		if n > 255 {
			return out, false
		}
		out[i] = byte(n)
	}
	return out, true
}

func refParseGroups(s string) ([]byte, bool) {
	if s == "" {
		return nil, true
	}
	var out []byte
	gs := strings.Split(s, ":")
	for i, g := range gs {
		if i == len(gs)-1 && strings.Contains(g, ".") {
			q, ok := refParseV4(g)
			if !ok {
				return nil, false
			}
			out = append(out, q[:]...)
			continue
		}
		if len(g) == 0 || len(g) > 4 {
			return nil, false
		}
		n, err := strconv.ParseUint(g, 16, 16)
		if err != nil {
			return nil, false
		}
		out = append(out, byte(n>>8), byte(n))
	}
	return out, true
}

func refParseV6(s string) (out [16]byte, ok bool) {
	if strings.Count(s, "::") > 1 {
		return out, false
	}
	if i := strings.Index(s, "::"); i >= 0 {
		head, ok1 := refParseGroups(s[:i])
		tail, ok2 := refParseGroups(s[i+2:])
		if !ok1 || !ok2 || len(head)+len(tail) > 14 {
			return out, false
		}
		copy(out[:], head)
		copy(out[16-len(tail):], tail)
		return out, true
	}
	all, ok1 := refParseGroups(s)
	if !ok1 || len(all) != 16 {
		return out, false
	}
	copy(out[:], all)
	return out, true
}

// refEntry is an allow-list entry as the property statement reads it.
type refEntry struct {
	text  string
	blank bool
	fam   int      // 4 or 6 after folding
	b     [16]byte // fam 4: b[12:16]
	plen  int      // prefix length in bits of the family (32 / 128 for a single address)
	// loose: an IPv6 block shorter than /96: whether an IPv4 client "lies in" it is not
	// defined by the statement; only equal treatment of the IPv4 and the IPv4-mapped
	// presentation is demanded there.
	loose bool
	kind  string
}

func refParseEntry(text string) (refEntry, bool) {
	e := refEntry{text: text}
	s := strings.TrimSpace(text)
	if s == "" {
		e.blank = true
		e.kind = "blank"
		return e, true
	}
	addr, plen, hasLen := s, -1, false
	if i := strings.IndexByte(s, '/'); i >= 0 {
		addr = s[:i]
		ps := s[i+1:]
		if ps == "" || len(ps) > 3 {
			return e, false
		}
		n := 0
		for _, c := range ps {
			if c < '0' || c > '9' {
				return e, false
			}
			n = n*10 + int(c-'0')
		}
		plen, hasLen = n, true
	}
	if q, ok := refParseV4(addr); ok {
		e.fam = 4
		copy(e.b[12:], q[:])
		e.plen = 32
		e.kind = "v4addr"
		if hasLen {
			if plen > 32 {
				return e, false
			}
			e.plen = plen
			e.kind = "v4net"
		}
		return e, true
	}
	b, ok := refParseV6(addr)
	if !ok {
		return e, false
	}
	if hasLen && plen > 128 {
		return e, false
	}
	if !hasLen {
		v := fold(b)
		e.fam, e.b = v.fam, v.b
		if v.fam == 4 {
			e.plen, e.kind = 32, "mappedaddr"
		} else {
			e.plen, e.kind = 128, "v6addr"
		}
		return e, true
	}
	if isMapped(b) && plen >= 96 {
		v := fold(b)
		e.fam, e.b, e.plen, e.kind = 4, v.b, plen-96, "mappednet"
		return e, true
	}
	e.fam, e.b, e.plen, e.kind = 6, b, plen, "v6net"
	if plen < 96 {
		e.loose = true
	}
	return e, true
}

func prefixEq(a, b []byte, bits int) bool {
	for i := 0; i < bits; i++ {
		ba := a[i/8] >> (7 - uint(i%8)) & 1
		bb := b[i/8] >> (7 - uint(i%8)) & 1
		if ba != bb {
			return false
		}
	}
	return true
}

// refMatch: 1 = lies in the entry, 0 = does not, 2 = undefined by the statement (IPv4
// client against an IPv6 block shorter than /96 that covers its mapped form).
func refMatch(e refEntry, c value) int {
	if e.blank {
		return 0
	}
	if e.fam == 4 && c.fam == 4 {
		if prefixEq(e.b[12:], c.b[12:], e.plen) {
			return 1
		}
		return 0
	}
	if e.fam == 6 && c.fam == 6 {
		if prefixEq(e.b[:], c.b[:], e.plen) {
			return 1
		}
		return 0
	}
	if e.fam == 6 && c.fam == 4 && e.loose {
		m := mapped(c)
		if prefixEq(e.b[:], m[:], e.plen) {
			return 2
		}
	}
	return 0
}

func refAllowed(es []refEntry, c value) int {
	n, loose := 0, false
	for _, e := range es {
		if e.blank {
			continue
		}
		n++
		switch refMatch(e, c) {
		case 1:
			return 1
		case 2:
			loose = true
		}
	}
	if n == 0 {
		return 1
	}
	if loose {
		return 2
	}
	return 0
}

// ---------------------------------------------------------------- alphabet

var entryTexts = []string{
	// IPv4 addresses and blocks of every boundary length
	"10.1.2.3", "10.1.2.3/32", "10.1.2.2/31", "10.1.2.0/30", "10.1.2.0/24", "10.1.2.3/24",
	"10.1.2.128/25", "10.1.0.0/16", "10.0.0.0/8", "128.0.0.0/1", "0.0.0.0/1", "0.0.0.0/0",
	"0.0.0.0", "255.255.255.255", "192.168.0.0/23",
	// IPv6
	"2001:db8::1", "2001:db8::1/128", "2001:db8::/127", "2001:db8::/64", "2001:db8::/32",
	"2001:db8:0:0:8000::/65", "8000::/1", "::/1", "::/0", "::1", "fe80::1:2:3:4",
	"2001:db8::ffff:0:0/96", "::10.1.2.3",
	// IPv4-mapped
	"::ffff:10.1.2.3", "::ffff:a01:203", "::ffff:10.1.2.3/128", "::ffff:10.1.2.0/120",
	"::ffff:10.0.0.0/104", "::ffff:0:0/96", "::ffff:128.0.0.0/97", "0:0:0:0:0:ffff:10.1.2.2/127",
	// IPv6 blocks shorter than /96 that cover the mapped range
	"::ffff:10.1.2.0/64", "::/80", "::ffff:0:0/95",
	// blanks
	"", "  ", " 10.1.2.3", "10.1.2.0/24 ", "\t2001:db8::/64 ", " ::ffff:10.1.2.3 ",
	// rejected by the control plane (lists containing them are skipped)
	"10.1.2", "10.1.2.3/33", "10.1.2.3 /24", "2001:db8::/129", "test", "10.1.2.256",
}

// reduced alphabet for the longest lists of the thorough tier
var reducedTexts = []string{
	"10.1.2.3", "10.1.2.0/24", "10.1.2.2/31", "0.0.0.0/1", "2001:db8::1", "2001:db8::/64",
	"::/1", "::ffff:10.1.2.3", "::ffff:10.1.2.0/120", "::ffff:0:0/96", "", " 10.1.2.128/25 ",
}

func addDelta(b []byte, d int) ([]byte, bool) {
	out := append([]byte(nil), b...)
	for i := len(out) - 1; i >= 0; i-- {
		s := int(out[i]) + d
		if s >= 0 && s <= 255 {
			out[i] = byte(s)
			return out, true
		}
		if d > 0 {
			out[i] = 0
		} else {
			out[i] = 255
		}
	}
	return nil, false // wrapped
}

// boundary clients of an entry: first-1, first, last, last+1 of its block.
func boundaries(e refEntry) []value {
	if e.blank {
		return nil
	}
	var raw [][]byte
	n := 16
	off := 0
	if e.fam == 4 {
		n, off = 4, 12
	}
	first := make([]byte, n)
	last := make([]byte, n)
	for i := 0; i < n*8; i++ {
		bit := e.b[off+i/8] >> (7 - uint(i%8)) & 1
		if i >= e.plen {
			bit = 0
		}
		first[i/8] |= bit << (7 - uint(i%8))
		lb := bit
		if i >= e.plen {
			lb = 1
		}
		last[i/8] |= lb << (7 - uint(i%8))
	}
	raw = append(raw, first, last)
	if p, ok := addDelta(first, -1); ok {
		raw = append(raw, p)
	}
	if p, ok := addDelta(last, +1); ok {
		raw = append(raw, p)
	}
	var out []value
	for _, r := range raw {
		var v value
		if n == 4 {
			v.fam = 4
			copy(v.b[12:], r)
		} else {
			var b [16]byte
			copy(b[:], r)
			v = fold(b)
		}
		out = append(out, v)
	}
	return out
}

// ---------------------------------------------------------------- observation

type textAddr string

func (a textAddr) Network() string { return "tcp" }
func (a textAddr) String() string  { return string(a) }

type fakeConn struct{ remote net.Addr }

func (f *fakeConn) Read(b []byte) (int, error)         { return 0, fmt.Errorf("closed") }
func (f *fakeConn) Write(b []byte) (int, error)        { return len(b), nil }
func (f *fakeConn) Close() error                       { return nil }
func (f *fakeConn) LocalAddr() net.Addr                { return textAddr("127.0.0.1:13306") }
func (f *fakeConn) RemoteAddr() net.Addr               { return f.remote }
func (f *fakeConn) SetDeadline(t time.Time) error      { return nil }
func (f *fakeConn) SetReadDeadline(t time.Time) error  { return nil }
func (f *fakeConn) SetWriteDeadline(t time.Time) error { return nil }

var forms4 = []string{"P4", "P16", "S4", "S16", "SM"}
var forms6 = []string{"P16", "S16"}

type rig struct {
	ns   *server.Namespace
	conn *fakeConn
	sess *server.Session
}

func nsConfig(list []string) *models.Namespace {
	return &models.Namespace{
		Name:         "ns35",
		AllowedIP:    list,
		Slices:       []*models.Slice{{Name: "s0"}}, // no master / slaves: nothing is dialled
		DefaultSlice: "s0",
	}
}

func buildRig(list []string) (*rig, error) {
	ns, err := server.NewNamespace(nsConfig(list), "dc0")
	if err != nil {
		return nil, err
	}
	g := &rig{ns: ns, conn: &fakeConn{remote: textAddr("127.0.0.1:1")}}
	m := server.VerifManagerOf(ns)
	g.sess = server.VerifSessionOn(m, "ns35", g.conn)
	return g, nil
}

func (g *rig) observe(c value, form string) bool {
	ip4 := net.IP(append([]byte(nil), c.b[12:]...))
	var ip16 net.IP
	if c.fam == 4 {
		m := mapped(c)
		ip16 = net.IP(append([]byte(nil), m[:]...))
	} else {
		ip16 = net.IP(append([]byte(nil), c.b[:]...))
	}
	switch form {
	case "P4":
		return g.ns.IsClientIPAllowed(ip4)
	case "P16":
		return g.ns.IsClientIPAllowed(ip16)
	case "S4":
		g.conn.remote = &net.TCPAddr{IP: ip4, Port: 40001}
	case "S16":
		g.conn.remote = &net.TCPAddr{IP: ip16, Port: 40001}
	case "SM":
		g.conn.remote = textAddr("[::ffff:" + c.String() + "]:40001")
	default:
		ev.Fatalf("unknown form %s", form)
	}
	return g.sess.IsAllowConnect()
}

// ---------------------------------------------------------------- the check

type kase struct {
	List   []string `json:"list"`
	Client string   `json:"client"` // textual value
	Fam    int      `json:"fam"`
	Form   string   `json:"form"`
}

func parseClient(s string, fam int) value {
	if fam == 4 {
		q, ok := refParseV4(s)
		if !ok {
			ev.Fatalf("bad v4 client %q", s)
		}
		var v value
		v.fam = 4
		copy(v.b[12:], q[:])
		return v
	}
	b, ok := refParseV6(s)
	if !ok {
		ev.Fatalf("bad v6 client %q", s)
	}
	return value{fam: 6, b: b}
}

func verdictName(v int) string { return [...]string{"deny", "allow", "undefined"}[v] }

// evalList checks one allow-list against all clients; returns number of evaluations.
func evalList(r *ev.Run, list []string, clients []value, only *kase) int {
	if err := models.VerifVerifyAllowIps(list); err != nil {
		r.Add("lists_rejected_by_control_plane", 1)
		return 0
	}
	es := make([]refEntry, len(list))
	kinds := make([]string, len(list))
	for i, t := range list {
		e, ok := refParseEntry(t)
		if !ok {
			r.Violation(ev.Witness{
				Summary:  fmt.Sprintf("control plane accepts allow-list entry %q that is neither an address nor a CIDR block", t),
				Features: map[string]string{"kind": "accepted_malformed_entry", "entry": t},
				Case:     kase{List: list},
			})
			return 0
		}
		es[i] = e
		kinds[i] = e.kind
	}
	g, err := buildRig(list)
	if err != nil {
		r.Violation(ev.Witness{
			Summary:  fmt.Sprintf("allow-list %q passes verifyAllowIps but NewNamespace fails: %v", list, err),
			Features: map[string]string{"kind": "accepted_list_not_loadable", "entries": strings.Join(kinds, ",")},
			Case:     kase{List: list},
		})
		return 0
	}
	nonBlank := 0
	for _, e := range es {
		if !e.blank {
			nonBlank++
		}
	}
	if got := server.VerifAllowIPCount(g.ns); got != nonBlank {
		r.Violation(ev.Witness{
			Summary:  fmt.Sprintf("allow-list %q: %d entries loaded, %d non-blank entries configured", list, got, nonBlank),
			Features: map[string]string{"kind": "entry_count", "entries": strings.Join(kinds, ",")},
			Case:     kase{List: list},
		})
	}
	n := 0
	for _, c := range clients {
		forms := forms6
		if c.fam == 4 {
			forms = forms4
		}
		if only != nil {
			forms = []string{only.Form}
		}
		want := refAllowed(es, c)
		var first bool
		for fi, form := range forms {
			got := g.observe(c, form)
			n++
			if fi == 0 {
				first = got
			}
			bad := ""
			switch {
			case want == 1 && !got:
				bad = "denied_but_listed"
			case want == 0 && got:
				bad = "allowed_but_not_listed"
			case got != first:
				bad = "presentation_dependent"
			}
			if bad != "" {
				// name the entry that decides
				decisive := ""
				for _, e := range es {
					m := refMatch(e, c)
					if (want == 1 && m == 1) || (want == 2 && m == 2) {
						decisive = e.kind + "/" + strconv.Itoa(e.plen)
						break
					}
				}
				if nonBlank == 0 {
					decisive = "empty-list"
				}
				r.Violation(ev.Witness{
					Summary: fmt.Sprintf("allow-list %q, client %s presented as %s: Gaea says allowed=%v, reference says %s",
						list, c, form, got, verdictName(want)),
					Features: map[string]string{"kind": bad, "form": form, "clientfam": strconv.Itoa(c.fam),
						"entries": strings.Join(kinds, ","), "decisive": decisive, "len": strconv.Itoa(len(list))},
					Case: kase{List: list, Client: c.String(), Fam: c.fam, Form: form},
				})
			}
		}
		// non-triviality: decisions at a block boundary of a listed entry
		for _, e := range es {
			if e.blank {
				continue
			}
			for _, bv := range boundaries(e) {
				if bv == c {
					r.Distinct("nontrivial", e.text+"|"+c.String()+"|"+verdictName(want))
				}
			}
		}
		r.Distinct("verdicts", verdictName(want))
	}
	return n
}

func main() {
	gx.Quiet()
	r := ev.Start("C35", "exploration")
	// clients: boundary addresses of every valid entry of the alphabet
	cset := map[value]bool{}
	for _, t := range entryTexts {
		e, ok := refParseEntry(t)
		if !ok {
			continue
		}
		for _, b := range boundaries(e) {
			cset[b] = true
		}
	}
	var clients []value
	for v := range cset {
		clients = append(clients, v)
	}
	sort.Slice(clients, func(i, j int) bool {
		if clients[i].fam != clients[j].fam {
			return clients[i].fam < clients[j].fam
		}
		return string(clients[i].b[:]) < string(clients[j].b[:])
	})

	var k kase
	if r.ReplayCase(&k) {
		n := 0
		if k.Client == "" {
			n = evalList(r, k.List, clients, nil)
		} else {
			n = evalList(r, k.List, []value{parseClient(k.Client, k.Fam)}, &k)
		}
		r.Set("evaluations", n)
		r.Finish()
	}

	// lists: all ordered sequences of <= maxLen entries over the full alphabet; thorough
	// adds all multisets of 4 entries over the reduced alphabet.
	maxLen := r.Pick(2, 3)
	var lists [][]string
	enum.Seqs(len(entryTexts), 0, maxLen, func(seq []int) {
		l := make([]string, len(seq))
		for i, x := range seq {
			l[i] = entryTexts[x]
		}
		lists = append(lists, l)
	})
	if r.Thorough() {
		enum.Multisets(len(reducedTexts), 4, func(s []int) {
			if len(s) != 4 {
				return
			}
			l := make([]string, len(s))
			for i, x := range s {
				l[i] = reducedTexts[x]
			}
			lists = append(lists, l)
		})
	}
	done := enum.Parallel(len(lists), r.TimeUp, func(i int) {
		n := evalList(r, lists[i], clients, nil)
		r.Add("evaluations", int64(n))
		if n > 0 {
			r.Add("lists_evaluated", 1)
		}
		if i%977 == 5 && n > 0 {
			// written-out case: the reference verdict of a few clients (Gaea agreed, or a violation was recorded)
			es := []refEntry{}
			for _, t := range lists[i] {
				e, _ := refParseEntry(t)
				es = append(es, e)
			}
			vs := map[string]string{}
			for j, c := range clients {
				if j%9 == i%9 {
					vs[c.String()] = verdictName(refAllowed(es, c))
				}
			}
			r.Sample(map[string]interface{}{"list": lists[i], "verdict_by_client": vs})
		}
	})
	if done < len(lists) {
		r.Capped(fmt.Sprintf("%d of %d allow-lists (enumeration order: shortest first)", done, len(lists)))
	}
	r.Set("universe_lists", len(lists))
	r.Set("entry_alphabet", len(entryTexts))
	r.Set("client_values", len(clients))
	r.Set("max_list_len", maxLen)
	r.Set("rule", "every ordered allow-list of <= max_list_len entries over the entry alphabet (thorough: plus all 4-entry multisets over a 12-entry alphabet) x every boundary client value (first/last address of every block of the alphabet, +-1) x every presentation (4-byte, 16-byte/mapped, Session.IsAllowConnect with TCPAddr 4/16-byte and textual ::ffff: form). distinct_nontrivial = distinct (listed entry, client at a boundary of that entry's block, verdict) triples evaluated.")
	r.Assume("lists rejected by models.Namespace.verifyAllowIps never reach the proxy (skipped, counted)")
	r.Assume("an IPv4 client against an IPv6 block shorter than /96 that covers ::ffff:0:0/96 is not defined by the statement: only equal treatment of the IPv4 and IPv4-mapped presentations is required there")
	r.Assume("zone-qualified IPv6 client addresses are out of scope")
	r.Finish()
}
