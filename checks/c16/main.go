// C16: prepared statements are isolated and never reuse stale parameters.
//
// Engine: xstate (BFS over command histories, every history replayed on a FRESH real
// SessionExecutor with a recording fake backend) against a reference model
// "handle -> long-data buffers".
//
// Events: prepare (1-parameter / 2-parameter template), send_long_data(handle, param),
// execute(handle, value set) with a well-formed packet carrying parameter types (value set 0:
// strings, value set 1: LONGLONG), re-execute WITHOUT types (new-params-bound = 0: the values
// are decoded with the types remembered from the handle's previous execute, which is what
// libmysqlclient / Connector/J send for a statement that was not re-bound), execute with a malformed packet
// (truncated bitmap / truncated types / truncated value / unknown type / bad date length),
// reset, close — each also on a closed handle and on a never-allocated id.
//
// Oracle after every step (reference model):
//   - a well-formed execute of an open handle succeeds and the backend receives exactly one
//     statement: the handle's template with each placeholder replaced by the value supplied
//     in THIS packet, or by the long data sent for that parameter since the handle's previous
//     execution (successful or failed), reset or prepare;
//   - execute / reset on a closed or unknown id fails and nothing reaches the backend;
//   - a malformed execute fails and nothing reaches the backend; it counts as an execution:
//     nothing it carried, and no long data sent before it, may show up later;
//   - nothing else ever reaches the backend.
package main

import (
	"encoding/json"
	"fmt"
	"sort"
	"strconv"
	"strings"

	"github.com/XiaoMi/Gaea/mysql"
	"github.com/XiaoMi/Gaea/proxy/server"

	"verif/engine/ev"
	"verif/engine/gx"
	"verif/engine/xstate"
	"verif/ref/mylex"
	sessrig "verif/ref/sessrig_stmt"
)

type event struct {
	K string `json:"k"`           // P prepare, L long data, X execute (types sent), Y execute without types, M malformed execute, R reset, C close
	H int    `json:"h"`           // handle index in order of preparation; -1 = an id never allocated
	P int    `json:"p,omitempty"` // L: parameter index; P: template index
	V int    `json:"v,omitempty"` // X: value set
	M string `json:"m,omitempty"` // M: malformation
}

func (e event) String() string {
	switch e.K {
	case "P":
		return fmt.Sprintf("prepare(T%d)", e.P)
	case "L":
		return fmt.Sprintf("long(h%d,p%d)", e.H, e.P)
	case "X":
		return fmt.Sprintf("execute(h%d,v%d)", e.H, e.V)
	case "Y":
		return fmt.Sprintf("execute_without_types(h%d,v%d)", e.H, e.V)
	case "M":
		return fmt.Sprintf("execute_malformed(h%d,%s)", e.H, e.M)
	case "R":
		return fmt.Sprintf("reset(h%d)", e.H)
	case "C":
		return fmt.Sprintf("close(h%d)", e.H)
	}
	return "?"
}

var templates = []struct {
	sql string
	n   int
}{
	{"select a from t where x = ?", 1},
	{"select b from t where x = ? and y = ?", 2},
}

const unknownID = 0x7ffffff0

// ---------- reference model ----------

type mHandle struct {
	id    uint32
	tpl   int
	open  bool
	long  [][]byte // nil = no long data
	types []byte   // type code per parameter as sent by the last well-formed execute with types; nil = none / undefined
	dirty bool     // a malformed execute hit this handle since its last reset/successful execute (feature only)
}

type model struct {
	h []*mHandle
}

// get returns the open handle that a command naming handle i addresses. Commands carry
// protocol ids: the id of a closed handle may legitimately have been handed out again, in
// which case the command addresses the open handle that owns the id now.
func (m *model) get(i int) *mHandle {
	if i < 0 || i >= len(m.h) {
		return nil
	}
	id := m.h[i].id
	for _, h := range m.h {
		if h.open && h.id == id {
			return h
		}
	}
	return nil
}

func (m *model) idOf(i int) uint32 {
	if i < 0 || i >= len(m.h) {
		return unknownID
	}
	return m.h[i].id
}

func idBytes(id uint32) []byte {
	return []byte{byte(id), byte(id >> 8), byte(id >> 16), byte(id >> 24)}
}

// val is one parameter value: a byte string or a (positive) integer.
type val struct {
	s     []byte
	isInt bool
	n     uint64
}

func (v val) String() string {
	if v.isInt {
		return fmt.Sprint(v.n)
	}
	return fmt.Sprintf("'%s'", v.s)
}

// value returns the value of parameter p in an execute of handle h: tag "v" for executes
// with types, "y" for executes without; as a string or, for integer-typed parameters, as a
// number whose four low bytes are all different and non-zero.
func value(tag byte, h, v, p int, asInt bool) val {
	if asInt {
		base := uint64(0x01020300)
		if tag == 'y' {
			base = 0x05060700
		}
		return val{isInt: true, n: base + uint64(h)*0x40 + uint64(p)*0x10 + uint64(v) + 1}
	}
	return val{s: []byte(fmt.Sprintf("h%d%c%dp%d", h, tag, v, p))}
}

func isStringType(t byte) bool { return t == mysql.TypeVarString || t == mysql.TypeBlob }

func encode(t byte, v val) []byte {
	if t == mysql.TypeLonglong {
		b := make([]byte, 8)
		for i := range b {
			b[i] = byte(v.n >> (8 * uint(i)))
		}
		return b
	}
	return lenenc(v.s)
}
func chunk(h, p int) []byte { return []byte(fmt.Sprintf("h%dL%d.", h, p)) }

func lenenc(b []byte) []byte { return append([]byte{byte(len(b))}, b...) }

// execPacket builds a COM_STMT_EXECUTE payload for n parameters. With sendTypes the
// parameter types are part of the packet (new-params-bound = 1), otherwise the flag is 0
// and only values follow. Parameters with pending long data (hasLong) carry no value.
func execPacket(id uint32, n int, hasLong []bool, types []byte, vals []val, sendTypes bool) []byte {
	pkt := append(idBytes(id), 0, 1, 0, 0, 0)
	pkt = append(pkt, make([]byte, (n+7)/8)...)
	if sendTypes {
		pkt = append(pkt, 1)
		for p := 0; p < n; p++ {
			pkt = append(pkt, types[p], 0)
		}
	} else {
		pkt = append(pkt, 0)
	}
	for p := 0; p < n; p++ {
		if !hasLong[p] {
			pkt = append(pkt, encode(types[p], vals[p])...)
		}
	}
	return pkt
}

// malformedPacket builds the malformed variants. target = the highest parameter without long
// data (the one whose type/value is damaged); ok=false if the variant is not applicable.
func malformedPacket(id uint32, h int, n int, hasLong []bool, kind string) (pkt []byte, ok bool) {
	head := append(idBytes(id), 0, 1, 0, 0, 0)
	switch kind {
	case "trunc_bitmap":
		return head, true
	case "cursor_flag":
		// flags byte = CURSOR_TYPE_READ_ONLY: refused as unsupported before anything is bound
		// (added after seeded change c16-2 was missed: a refusal that happens before the
		// parameter section is read must still end the execution's pending long data)
		pkt = append(idBytes(id), 1, 1, 0, 0, 0)
		pkt = append(pkt, make([]byte, (n+7)/8)...)
		return pkt, true
	case "trunc_types":
		pkt = append(head, make([]byte, (n+7)/8)...)
		pkt = append(pkt, 1, mysql.TypeVarString)
		return pkt, true
	}
	target := -1
	for p := n - 1; p >= 0; p-- {
		if !hasLong[p] {
			target = p
			break
		}
	}
	if target < 0 {
		return nil, false
	}
	pkt = append(head, make([]byte, (n+7)/8)...)
	pkt = append(pkt, 1)
	for p := 0; p < n; p++ {
		switch {
		case hasLong[p]:
			pkt = append(pkt, mysql.TypeBlob, 0)
		case p == target && kind == "unknown_type":
			pkt = append(pkt, 0x20, 0)
		case p == target && kind == "bad_date_len":
			pkt = append(pkt, mysql.TypeDate, 0)
		default:
			pkt = append(pkt, mysql.TypeVarString, 0)
		}
	}
	for p := 0; p < n; p++ {
		if hasLong[p] {
			continue
		}
		bad := []byte(fmt.Sprintf("h%dBADp%d", h, p))
		if p != target {
			pkt = append(pkt, lenenc(bad)...)
			continue
		}
		switch kind {
		case "trunc_value":
			pkt = append(pkt, 9, 'B', 'A')
		case "unknown_type":
			pkt = append(pkt, lenenc(bad)...)
		case "bad_date_len":
			pkt = append(pkt, 3, 1, 2, 3)
		}
	}
	return pkt, true
}

// ---------- replay ----------

var malformations = []string{"trunc_bitmap", "cursor_flag", "trunc_value", "unknown_type", "trunc_types", "bad_date_len"}

func renderArgs(args []interface{}) string {
	var sb strings.Builder
	for _, a := range args {
		switch v := a.(type) {
		case nil:
			sb.WriteString("-,")
		case []byte:
			fmt.Fprintf(&sb, "%q,", v)
		default:
			fmt.Fprintf(&sb, "%T:%v,", a, a)
		}
	}
	return sb.String()
}

// checkSQL compares the statement the backend received with the template + expected values.
func checkSQL(got string, tpl int, vals []val) string {
	tt := mylex.Lex(templates[tpl].sql, mylex.Mode{}, false)
	gt := mylex.Lex(got, mylex.Mode{}, false)
	gi, pi := 0, 0
	for _, t := range tt {
		if gi >= len(gt) {
			return fmt.Sprintf("statement %q ends early", got)
		}
		if t.Kind == mylex.Param {
			g := gt[gi]
			w := vals[pi]
			ok := false
			if w.isInt {
				n, err := strconv.ParseUint(g.Text, 10, 64)
				ok = g.Kind == mylex.Number && err == nil && n == w.n
			} else {
				ok = g.Kind == mylex.String && g.Val == string(w.s)
			}
			if !ok {
				return fmt.Sprintf("parameter %d is %s, expected %s", pi, g.Text, w)
			}
			gi++
			pi++
			continue
		}
		if gt[gi].Kind != t.Kind || gt[gi].Text != t.Text {
			return fmt.Sprintf("statement %q is not the handle's template %q", got, templates[tpl].sql)
		}
		gi++
	}
	if gi != len(gt) {
		return fmt.Sprintf("statement %q has trailing tokens", got)
	}
	return ""
}

func replay(hist []event) xstate.Result {
	rig := sessrig.Acquire()
	defer sessrig.Release(rig)
	s := rig.NewSession(false)
	m := &model{}
	nBackend := 0
	last := ""
	viol := func(step int, kind string, dirty bool, format string, a ...interface{}) xstate.Result {
		src := "none"
		if dirty {
			src = "failed_execute"
		}
		var hs []string
		for _, e := range hist[:step+1] {
			hs = append(hs, e.String())
		}
		return xstate.Result{
			Violation: fmt.Sprintf("step %d of [%s]: %s", step, strings.Join(hs, ", "), fmt.Sprintf(format, a...)),
			Features:  map[string]string{"kind": kind, "stale_source": src, "event": hist[step].K},
		}
	}
	for i, e := range hist {
		var resp server.Response
		var pan interface{}
		send := func(cmd byte, data []byte) {
			pan = ev.Catch(func() { resp = s.Cmd(cmd, data) })
		}
		mh := m.get(e.H)
		dirty := mh != nil && mh.dirty
		sent := true
		expectBackend := 0
		var wantVals []val
		switch e.K {
		case "P":
			send(mysql.ComStmtPrepare, []byte(templates[e.P].sql))
			id, count, _, ok := server.VerifStmtOf(resp)
			if pan != nil || !ok {
				return viol(i, "prepare_failed", false, "prepare failed: %v %v", pan, sessrig.RespErr(resp))
			}
			if count != templates[e.P].n {
				ev.Fatalf("harness: template %d prepared with %d parameters", e.P, count)
			}
			for _, h := range m.h {
				if h.open && h.id == id {
					return viol(i, "handle_id_reused_while_open", false, "prepare returned id %d, which is still open", id)
				}
			}
			m.h = append(m.h, &mHandle{id: id, tpl: e.P, open: true, long: make([][]byte, templates[e.P].n)})
			last = "P:ok"
		case "L":
			data := append(idBytes(m.idOf(e.H)), byte(e.P), 0)
			data = append(data, chunk(e.H, e.P)...)
			send(mysql.ComStmtSendLongData, data)
			// no response is defined for this command: anything is accepted
			if mh != nil && e.P < templates[mh.tpl].n {
				mh.long[e.P] = append(mh.long[e.P], chunk(e.H, e.P)...)
				last = "L:stored"
			} else {
				last = "L:ignored"
			}
		case "X", "Y", "M":
			tpl := 0
			if mh != nil {
				tpl = mh.tpl
			} else if e.H >= 0 && e.H < len(m.h) {
				tpl = m.h[e.H].tpl
			}
			n := templates[tpl].n
			if e.K == "Y" && (mh == nil || mh.types == nil) {
				ev.Fatalf("harness: execute-without-types enabled on a handle without remembered types: %v", hist[:i+1])
			}
			hasLong := make([]bool, n)
			types := make([]byte, n)
			vals := make([]val, n)
			for p := 0; p < n; p++ {
				pending := mh != nil && mh.long[p] != nil
				hasLong[p] = pending
				switch {
				case e.K == "Y":
					types[p] = mh.types[p] // what the server remembers; not sent
				case pending:
					types[p] = mysql.TypeBlob
				case e.V == 1:
					types[p] = mysql.TypeLonglong
				default:
					types[p] = mysql.TypeVarString
				}
				switch {
				case pending:
					vals[p] = val{s: mh.long[p]}
				case e.K == "Y":
					vals[p] = value('y', e.H, e.V, p, !isStringType(types[p]))
				default:
					vals[p] = value('v', e.H, e.V, p, !isStringType(types[p]))
				}
			}
			var pkt []byte
			switch e.K {
			case "X":
				pkt = execPacket(m.idOf(e.H), n, hasLong, types, vals, true)
			case "Y":
				pkt = execPacket(m.idOf(e.H), n, hasLong, types, vals, false)
			default:
				var ok bool
				pkt, ok = malformedPacket(m.idOf(e.H), e.H, n, hasLong, e.M)
				if !ok {
					sent = false
					last = "M:n/a"
				}
			}
			if !sent {
				break
			}
			send(mysql.ComStmtExecute, pkt)
			failed := pan != nil || resp.RespType == server.RespError
			switch {
			case mh == nil:
				if !failed {
					return viol(i, "unknown_id_accepted", false, "execute on a closed/unknown id did not fail")
				}
				last = e.K + ":unknown-id-refused"
			case e.K == "M":
				if !failed {
					return viol(i, "malformed_executed", dirty, "a malformed execute packet (%s) was executed", e.M)
				}
				// a failed execution consumes the long data sent for it
				for p := range mh.long {
					mh.long[p] = nil
				}
				if e.M != "trunc_bitmap" && e.M != "trunc_types" && e.M != "cursor_flag" {
					// the packet carried a full type list before it failed: what the server
					// remembers afterwards is not defined by the property
					mh.types = nil
				}
				mh.dirty = true
				last = "M:refused"
			default:
				if failed {
					return viol(i, "wellformed_execute_failed", dirty, "a well-formed %s failed: %v %v", e, pan, sessrig.RespErr(resp))
				}
				expectBackend = 1
				wantVals = vals
				for p := range mh.long {
					mh.long[p] = nil
				}
				if e.K == "X" {
					mh.types = types // remembered until the statement is re-bound or closed
				}
				mh.dirty = false
				last = e.K + ":ok"
				for p := range hasLong {
					if hasLong[p] {
						last = e.K + ":ok+long"
					}
				}
			}
		case "R":
			send(mysql.ComStmtReset, idBytes(m.idOf(e.H)))
			failed := pan != nil || resp.RespType == server.RespError
			if mh == nil {
				if !failed {
					return viol(i, "unknown_id_accepted", false, "reset on a closed/unknown id did not fail")
				}
				last = "R:unknown-id-refused"
			} else {
				if failed {
					return viol(i, "reset_failed", dirty, "reset of an open handle failed: %v", sessrig.RespErr(resp))
				}
				for p := range mh.long {
					mh.long[p] = nil
				}
				mh.dirty = false
				last = "R:ok"
			}
		case "C":
			send(mysql.ComStmtClose, idBytes(m.idOf(e.H)))
			if mh != nil {
				mh.open = false
				last = "C:closed"
			} else {
				last = "C:ignored"
			}
		}
		if pan != nil && sent {
			// Session.Run would recover and close the connection: terminal
			return xstate.Result{Key: "", Outcome: last + "+panic", Stop: true}
		}
		log := rig.Backend.Log()
		if len(log) != nBackend+expectBackend {
			return viol(i, "backend_count", dirty, "backend received %d statement(s) in this step, expected %d (%q)", len(log)-nBackend, expectBackend, log[nBackend:])
		}
		if expectBackend == 1 {
			if why := checkSQL(log[nBackend].SQL, mh.tpl, wantVals); why != "" {
				return viol(i, "wrong_sql", dirty, "backend received %q: %s", log[nBackend].SQL, why)
			}
		}
		nBackend = len(log)
	}

	// Canonical state. The future of these commands depends, in the implementation, only on
	// the session's statement table (id -> template, bound args, parameter types) and the id
	// counter (read through an accessor and part of the key, like the ids of the open handles:
	// an implementation may hand ids out in any order); in the model, on the
	// per-handle long-data buffers and open flags. The backend, the session variables and the
	// transaction state are not touched by any event (autocommit single statements; the
	// backend connection is returned after each). Handles are named by preparation order, so
	// no renaming is needed; two histories with the same key behave identically from here on.
	var parts []string
	open := map[uint32]bool{}
	for k, h := range m.h {
		// dirty is part of the key although only the classification of a later violation
		// depends on it: otherwise a state reached through a failed execute (known finding)
		// could absorb an identical-looking state reached by other means, and a different
		// defect would be reported under the known signature
		p := fmt.Sprintf("h%d:T%d:open=%v:dirty=%v", k, h.tpl, h.open, h.open && h.dirty)
		if h.open {
			// the protocol id is part of the state: which id a later PREPARE may collide with
			// depends on it (ids need not follow preparation order)
			p += fmt.Sprintf(":id=%d", h.id)
		}
		if h.open {
			open[h.id] = true
			for _, l := range h.long {
				p += fmt.Sprintf(":%q", l)
			}
			p += fmt.Sprintf(":types=%x", h.types)
			args, types, ok := server.VerifStmtState(s.SE, h.id)
			p += fmt.Sprintf("|impl=%v:%s:%x", ok, renderArgs(args), types)
		}
		parts = append(parts, p)
	}
	var stray []string
	for _, id := range server.VerifStmtIDs(s.SE) {
		if !open[id] {
			stray = append(stray, fmt.Sprint(id))
		}
	}
	sort.Strings(stray)
	key := strings.Join(parts, ";") + "|stray=" + strings.Join(stray, ",") + fmt.Sprintf("|next=%d", server.VerifStmtCounter(s.SE))
	if rig.Backend.Leaked() != 0 {
		return xstate.Result{Violation: "backend connection not returned", Features: map[string]string{"kind": "conn_leak", "stale_source": "none", "event": "-"}}
	}
	return xstate.Result{Key: key, Outcome: last}
}

// typesDefined reports (from the history alone) whether handle h is open and the last of its
// executes that carried a full type list was a well-formed one: only then is "execute
// without types" defined. Malformed packets that carry types make it undefined again.
func typesDefined(hist []event, h int) bool {
	np, def := 0, false
	for _, e := range hist {
		if e.K == "P" {
			np++
			continue
		}
		if e.H != h || np <= h {
			continue
		}
		switch e.K {
		case "X":
			def = true
		case "M":
			if e.M != "trunc_bitmap" && e.M != "trunc_types" && e.M != "cursor_flag" {
				def = false
			}
		case "C":
			return false
		}
	}
	return def
}

func main() {
	gx.Quiet()
	r := ev.Start("C16", "model_checking")
	if err := sessrig.Init(16); err != nil {
		ev.Fatalf("sessrig: %v", err)
	}
	var rc []event
	if r.ReplayCase(&rc) {
		res := replay(rc)
		if res.Violation != "" {
			r.Violation(ev.Witness{Summary: res.Violation, Features: res.Features, Case: rc})
		}
		r.Set("states", 1)
		r.Set("transitions", len(rc))
		r.Set("traces_validated_against_impl", len(rc))
		r.Sample(rc)
		r.Finish()
	}

	maxDepth := r.Pick(5, 7)
	maxPrepares := r.Pick(2, 3)
	nMal := r.Pick(4, 6)
	enabled := func(hist []event) []event {
		np := 0
		for _, e := range hist {
			if e.K == "P" {
				np++
			}
		}
		var out []event
		if np < maxPrepares {
			out = append(out, event{K: "P", H: np, P: 0}, event{K: "P", H: np, P: 1})
		}
		for h := 0; h < np; h++ {
			out = append(out, event{K: "X", H: h, V: 0}, event{K: "X", H: h, V: 1})
			if typesDefined(hist, h) {
				out = append(out, event{K: "Y", H: h, V: 0}, event{K: "Y", H: h, V: 1})
			}
			out = append(out, event{K: "L", H: h, P: 0}, event{K: "L", H: h, P: 1})
			for _, mk := range malformations[:nMal] {
				out = append(out, event{K: "M", H: h, M: mk})
			}
			out = append(out, event{K: "R", H: h}, event{K: "C", H: h})
		}
		// an id that was never allocated
		out = append(out, event{K: "X", H: -1}, event{K: "L", H: -1}, event{K: "R", H: -1}, event{K: "C", H: -1},
			event{K: "M", H: -1, M: "trunc_bitmap"})
		return out
	}
	// Second search, "handle lifecycle" (added after seeded change c16-4 was missed): more
	// statements (<= lcPrepares prepares) and deeper, with a reduced per-handle alphabet
	// (execute with value set 0, long data for parameter 0, close), so that closing ANY of
	// several open statements — not only the latest — is followed by several prepares. Same
	// replay, same oracle: every id returned by PREPARE is distinct from the ids of all open
	// handles; an execute runs its own handle's text with its own values; a close affects
	// that handle only (the others still execute, the closed one does not).
	lcDepth := r.Pick(6, 8)
	lcPrepares := r.Pick(4, 5)
	lcEnabled := func(hist []event) []event {
		np := 0
		closed := map[int]bool{}
		for _, e := range hist {
			if e.K == "P" {
				np++
			}
			if e.K == "C" {
				closed[e.H] = true
			}
		}
		var out []event
		if np < lcPrepares {
			out = append(out, event{K: "P", H: np, P: 0}, event{K: "P", H: np, P: 1})
		}
		for h := 0; h < np; h++ {
			out = append(out, event{K: "X", H: h, V: 0})
			if !closed[h] {
				out = append(out, event{K: "L", H: h, P: 0}, event{K: "C", H: h})
			}
		}
		return out
	}
	outcomes := map[string]int{}
	lc := xstate.BFS(xstate.Spec[event]{
		Replay:   replay,
		Enabled:  lcEnabled,
		MaxDepth: lcDepth,
		Workers:  16,
		Stop:     r.TimeUp,
		OnViolation: func(h []event, res xstate.Result) {
			res.Features["search"] = "lifecycle"
			r.Violation(ev.Witness{Summary: res.Violation, Features: res.Features, Case: h})
		},
		OnOutcome: func(o string) {
			outcomes[o]++
			r.Distinct("outcomes", o)
		},
	})
	st := xstate.BFS(xstate.Spec[event]{
		Replay:   replay,
		Enabled:  enabled,
		MaxDepth: maxDepth,
		Workers:  16,
		Stop:     r.TimeUp,
		OnViolation: func(h []event, res xstate.Result) {
			r.Violation(ev.Witness{Summary: res.Violation, Features: res.Features, Case: h})
		},
		OnOutcome: func(o string) {
			outcomes[o]++
			r.Distinct("outcomes", o)
		},
	})
	// a few histories written out: replay deterministic examples
	for _, h := range [][]event{
		{{K: "P", H: 0, P: 1}, {K: "L", H: 0, P: 0}, {K: "X", H: 0, V: 0}, {K: "X", H: 0, V: 1}},
		{{K: "P", H: 0, P: 0}, {K: "P", H: 1, P: 1}, {K: "X", H: 1, V: 1}, {K: "C", H: 0}, {K: "X", H: 0, V: 0}},
		{{K: "P", H: 0, P: 0}, {K: "P", H: 1, P: 1}, {K: "C", H: 0}, {K: "P", H: 2, P: 1}, {K: "P", H: 3, P: 0}, {K: "X", H: 1, V: 0}},
	} {
		res := replay(h)
		b, _ := json.Marshal(h)
		r.Sample(map[string]interface{}{"history": json.RawMessage(b), "last_outcome": res.Outcome, "state": res.Key})
	}
	if st.Capped {
		r.Capped(fmt.Sprintf("BFS stopped by the time budget inside depth %d; all histories up to depth %d were explored", st.MaxDepth, st.MaxDepth-1))
	}
	if lc.Capped {
		r.Capped(fmt.Sprintf("lifecycle BFS stopped by the time budget inside depth %d", lc.MaxDepth))
	}
	r.Set("states", st.States+lc.States)
	r.Set("transitions", st.Transitions+lc.Transitions)
	r.Set("traces_validated_against_impl", st.Transitions+lc.Transitions)
	r.Set("main_search", map[string]interface{}{"states": st.States, "transitions": st.Transitions, "frontier_per_depth": st.PerDepth})
	r.Set("lifecycle_search", map[string]interface{}{"states": lc.States, "transitions": lc.Transitions, "frontier_per_depth": lc.PerDepth,
		"depth_bound": lcDepth, "max_prepares": lcPrepares, "violating_histories": lc.Violations})
	r.Set("max_depth", st.MaxDepth)
	r.Set("depth_bound", maxDepth)
	r.Set("frontier_per_depth", st.PerDepth)
	r.Set("violating_histories", st.Violations)
	r.Set("outcome_counts", outcomes)
	r.Set("bound", fmt.Sprintf("BFS to depth %d; <=%d prepares (templates with 1 and 2 parameters); per handle: execute with types x 2 value sets (strings / LONGLONG), execute without types (new-params-bound=0, enabled once types are remembered) x 2 value sets, send_long_data x 2 parameters, %d malformed-execute variants, reset, close; the same commands on closed handles and on a never-allocated id. Handle-lifecycle search: BFS to depth %d; <=%d prepares; per handle: execute (value set 0, also on closed handles), send_long_data(parameter 0), close", maxDepth, maxPrepares, nMal, lcDepth, lcPrepares))
	r.Set("explanation", "states = distinct canonical states (model long-data buffers + open flags, implementation statement table with bound args and parameter types); transitions = histories replayed step by step on a fresh real SessionExecutor, each step compared with the reference model (SQL text at the fake backend, error/no error); violating histories are not extended")
	if st.States < 10 || r.DistinctN("outcomes") < 6 {
		ev.Fatalf("vacuous run: states=%d outcomes=%d", st.States, r.DistinctN("outcomes"))
	}
	r.Assume("every command is handed to ExecuteCommand in the session's one reused packet buffer, which is overwritten with 0xEE after the command and with the next command's bytes (what Session.Run does through ReadEphemeralPacket / RecycleReadPacket / bufPool); parameter types persist per handle until re-bound, also across reset (MySQL semantics)")
	r.Assume("reference model = MySQL's documented semantics: long data accumulates per parameter until the next execution (successful or failed) or reset of that handle; values of an execute packet live for that execution only")
	r.Assume("a panic escaping ExecuteCommand is what Session.Run recovers by closing the connection: treated as a failed command and a terminal state")
	r.Assume("COM_STMT_SEND_LONG_DATA and COM_STMT_CLOSE have no response in the protocol: whatever the proxy answers is accepted")
	r.Finish()
}
