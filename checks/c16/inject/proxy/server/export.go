//go:build verif

// Master copy of the inject file used by the prepared-statement / multi-statement checks
// (C14, C15, C16, C17). Copy it verbatim to checks/cNN/inject/proxy/server/export.go.
// Thin constructors and accessors only: nothing here re-implements Gaea logic.

package server

import (
	"net"

	"github.com/XiaoMi/Gaea/models"
	"github.com/XiaoMi/Gaea/mysql"
	"github.com/XiaoMi/Gaea/util"
)

type verifNullLogger struct{}

func (verifNullLogger) SetLevel(name, level string) error                          { return nil }
func (verifNullLogger) Debug(format string, a ...interface{}) (err error)          { return nil }
func (verifNullLogger) Trace(format string, a ...interface{}) (err error)          { return nil }
func (verifNullLogger) Notice(format string, a ...interface{}) (err error)         { return nil }
func (verifNullLogger) Warn(format string, a ...interface{}) (err error)           { return nil }
func (verifNullLogger) Fatal(format string, a ...interface{}) (err error)          { return nil }
func (verifNullLogger) Debugx(logID, format string, a ...interface{}) (err error)  { return nil }
func (verifNullLogger) Tracex(logID, format string, a ...interface{}) (err error)  { return nil }
func (verifNullLogger) Noticex(logID, format string, a ...interface{}) (err error) { return nil }
func (verifNullLogger) Warnx(logID, format string, a ...interface{}) (err error)   { return nil }
func (verifNullLogger) Fatalx(logID, format string, a ...interface{}) (err error)  { return nil }
func (verifNullLogger) Close()                                                     {}
func (verifNullLogger) Dropped(i int) uint64                                       { return 0 }

// VerifNewManager builds a Manager the way CreateManager does (statistics, namespaces,
// users) except that (a) the SQL log goes to a sink instead of a file and (b) namespaces
// are created with NewNamespace but not Init()ed, so no health-check goroutine dials the
// configured addresses. Call at most once per process (stats register global names).
func VerifNewManager(cfgs []*models.Namespace) (*Manager, error) {
	proxy := &models.Proxy{Cluster: "verif", Service: "verif", StatsEnabled: "false", ServerVersion: "5.7.25-gaea"}
	m := NewManager()
	sm := NewStatisticManager()
	sm.manager = m
	sm.clusterName = proxy.Cluster
	sm.SQLResponsePercentile = make(map[string]*SQLResponse)
	if err := sm.Init(proxy); err != nil {
		return nil, err
	}
	sm.generalLogger = verifNullLogger{}
	m.statistics = sm

	current, _, _ := m.switchIndex.Get()
	nsMgr := NewNamespaceManager()
	nsMgr.serverIDC = DefaultDatacenter
	byName := map[string]*models.Namespace{}
	for _, c := range cfgs {
		ns, err := NewNamespace(c, DefaultDatacenter)
		if err != nil {
			return nil, err
		}
		nsMgr.namespaces[ns.name] = ns
		byName[c.Name] = c
	}
	m.namespaces[current] = nsMgr
	um, err := CreateUserManager(byName)
	if err != nil {
		return nil, err
	}
	m.users[current] = um
	return m, nil
}

// VerifNewSessionExecutor builds a session executor the way newSession + the handshake do,
// on top of an arbitrary net.Conn (the harness passes a sink). capability is the client
// capability word (mysql.ClientMultiStatements enables multi-statement handling).
func VerifNewSessionExecutor(m *Manager, namespace, user, db string, capability uint32, co net.Conn) *SessionExecutor {
	s := &Server{manager: m, ServerVersion: "5.7.25-gaea",
		ServerVersionCompareStatus: util.NewVersionCompareStatus("5.7.25-gaea")}
	cc := new(Session)
	cc.c = NewClientConn(mysql.NewConn(co), m)
	cc.c.proxy = s
	cc.c.capability = capability
	cc.c.namespace = namespace
	cc.proxy = s
	cc.manager = m
	cc.namespace = namespace
	cc.closed.Store(false)
	se := newSessionExecutor(m)
	se.session = cc
	cc.executor = se
	se.namespace = namespace
	se.user = user
	se.db = db
	se.clientAddr = "verif"
	ns := m.GetNamespace(namespace)
	se.SetCollationID(ns.GetDefaultCollationID())
	se.SetCharset(ns.GetDefaultCharset())
	se.SetContextNamespace()
	return se
}

// VerifBeforeCommand mirrors what Session.Run does between reading a packet and calling
// ExecuteCommand, as far as the executor can observe it: the read packet has not been
// recycled yet. The harness has no ephemeral read buffer, so it marks it as recycled.
func VerifBeforeCommand(se *SessionExecutor) {
	se.session.c.hasRecycledReadPacket.Set(true)
	se.SetContextNamespace()
}

// VerifStmtOf returns what COM_STMT_PREPARE reported for a prepared statement.
func VerifStmtOf(r Response) (id uint32, paramCount int, offsets []int, ok bool) {
	s, isStmt := r.Data.(*Stmt)
	if !isStmt || s == nil {
		return 0, 0, nil, false
	}
	return s.id, s.paramCount, append([]int(nil), s.offsets...), true
}

// VerifStmtItems returns the pieces the prepared statement was cut into (text pieces and "?"
// markers, in order): what COM_STMT_EXECUTE reassembles the statement text from.
func VerifStmtItems(r Response) []string {
	s, isStmt := r.Data.(*Stmt)
	if !isStmt || s == nil {
		return nil
	}
	return append([]string(nil), s.sqlItems...)
}

// VerifStmtCounter returns the session's statement-id counter (the id the next
// COM_STMT_PREPARE will hand out): hidden state the future of a history depends on.
func VerifStmtCounter(se *SessionExecutor) uint32 { return se.stmtID }

// VerifStmtIDs lists the open statement handles of the session.
func VerifStmtIDs(se *SessionExecutor) []uint32 {
	ids := make([]uint32, 0, len(se.stmts))
	for id := range se.stmts {
		ids = append(ids, id)
	}
	return ids
}

// VerifStmtState returns the values currently bound to a handle and its parameter types.
func VerifStmtState(se *SessionExecutor, id uint32) (args []interface{}, paramTypes []byte, ok bool) {
	s, ok := se.stmts[id]
	if !ok {
		return nil, nil, false
	}
	return s.args, s.paramTypes, true
}

// VerifSessionVariable returns a session variable the client has set (nil if unset).
func VerifSessionVariable(se *SessionExecutor, name string) interface{} {
	v, ok := se.sessionVariables.GetAll()[name]
	if !ok {
		return nil
	}
	return v.Get()
}
