// C08: Mycat-compatible rules place keys exactly where Mycat does.
//
// Engine: enum (bounded-exhaustive). Every rule is built through the real configuration
// path (models.Namespace.Verify -> router.NewRouter -> Router.GetShardRule);
// Rule.FindTableIndex + GetDatabaseNameByTableIndex are compared with verif/ref/javaref, an
// independent model of Mycat's PartitionByMod / PartitionByLong / PartitionByString /
// PartitionByMurmurHash written from the Java semantics (BigInteger, long, UTF-16 code
// units, Guava Murmur3_32.hashUnencodedChars, TreeMap.tailMap).
//
// Oracle: whenever Mycat places a key in data node i, Gaea must return (i, nil) and name
// the i-th configured database. Where Mycat itself throws (non-numeric key for mod/long)
// nothing is demanded; where the model does not define Java's behaviour the key is skipped.
package main

import (
	"fmt"
	"math"
	"strconv"
	"strings"
	"sync"

	"github.com/XiaoMi/Gaea/models"
	"github.com/XiaoMi/Gaea/proxy/router"

	"verif/engine/enum"
	"verif/engine/ev"
	"verif/engine/gx"
	"verif/ref/javaref"
)

// ---------------------------------------------------------------- case description

type cfg struct {
	Type      string `json:"type"`
	Nodes     int    `json:"nodes"`                      // number of databases
	Count     string `json:"partition_count,omitempty"`  // long / string
	Length    string `json:"partition_length,omitempty"` // long / string
	HashSlice string `json:"hash_slice,omitempty"`       // string
	Seed      string `json:"seed,omitempty"`             // murmur
	VBT       string `json:"virtual_bucket_times,omitempty"`
}

func (c cfg) id() string {
	switch c.Type {
	case models.ShardMycatMod:
		return fmt.Sprintf("mycat_mod/%d", c.Nodes)
	case models.ShardMycatLong:
		return fmt.Sprintf("mycat_long/%s x %s", c.Count, c.Length)
	case models.ShardMycatString:
		return fmt.Sprintf("mycat_string/%s x %s [%s]", c.Count, c.Length, c.HashSlice)
	}
	return fmt.Sprintf("mycat_murmur/seed %s vbt %s nodes %d", c.Seed, c.VBT, c.Nodes)
}

type key struct {
	T string `json:"t"` // int | int64 | uint64 | string
	I int64  `json:"i,omitempty"`
	U uint64 `json:"u,omitempty"`
	S string `json:"s,omitempty"`
}

func (k key) value() interface{} {
	switch k.T {
	case "int":
		return int(k.I)
	case "int64":
		return k.I
	case "uint64":
		return k.U
	}
	return k.S
}

// columnValue is the string Mycat receives for this key.
func (k key) columnValue() string {
	switch k.T {
	case "int", "int64":
		return strconv.FormatInt(k.I, 10)
	case "uint64":
		return strconv.FormatUint(k.U, 10)
	}
	return k.S
}

func (k key) String() string {
	if k.T == "string" {
		return fmt.Sprintf("%q", k.S)
	}
	return k.T + "(" + k.columnValue() + ")"
}

func (k key) class() string {
	switch k.T {
	case "int", "int64":
		if k.I == math.MinInt64 {
			return "min_int64"
		}
		return "int64"
	case "uint64":
		if k.U > math.MaxInt64 {
			return "uint64_above_int64"
		}
		return "uint64"
	}
	if v, err := javaref.NewBigInteger(k.S); err == nil {
		switch {
		case !v.IsInt64():
			return "decimal_string_above_int64"
		case v.Int64() == math.MinInt64:
			return "numeric_string_min_int64"
		}
		return "numeric_string"
	}
	class := "ascii"
	for _, r := range k.S {
		if r > 0xFFFF {
			return "non_bmp"
		}
		if r > 0x7F {
			class = "bmp_multibyte"
		}
	}
	return class
}

type kcase struct {
	Cfg cfg `json:"cfg"`
	Key key `json:"key"`
}

// ---------------------------------------------------------------- real rule construction

const logicDB, logicTable = "db_mycat", "t"

func sliceName(i int) string { return fmt.Sprintf("slice-%d", i) }
func dbName(i int) string    { return fmt.Sprintf("db_mycat_%d", i) }

func locationsOf(n int) []int {
	if n < 2 {
		return []int{n}
	}
	return []int{(n + 1) / 2, n / 2}
}

func namespaceOf(c cfg) *models.Namespace {
	loc := locationsOf(c.Nodes)
	ns := &models.Namespace{
		Name:         "ns",
		AllowedDBS:   map[string]bool{logicDB: true},
		Users:        []*models.User{{UserName: "u", Password: "p", Namespace: "ns", RWFlag: models.ReadWrite}},
		DefaultSlice: sliceName(0),
	}
	var names []string
	for i := range loc {
		ns.Slices = append(ns.Slices, &models.Slice{Name: sliceName(i), UserName: "r", Password: "r",
			Master: fmt.Sprintf("127.0.0.1:%d", 3306+i), Capacity: 1, MaxCapacity: 1})
		names = append(names, sliceName(i))
	}
	dbs := []string{dbName(0)}
	if c.Nodes >= 2 {
		dbs = []string{fmt.Sprintf("db_mycat_[0-%d]", c.Nodes-1)}
	}
	ns.ShardRules = []*models.Shard{{DB: logicDB, Table: logicTable, Type: c.Type, Key: "k", Locations: loc, Slices: names,
		Databases: dbs, PartitionCount: c.Count, PartitionLength: c.Length, HashSlice: c.HashSlice,
		Seed: c.Seed, VirtualBucketTimes: c.VBT}}
	return ns
}

func build(c cfg) (router.Rule, string) {
	ns := namespaceOf(c)
	var rt *router.Router
	var err error
	if p := ev.Catch(func() {
		if err = ns.Verify(); err != nil {
			return
		}
		rt, err = router.NewRouter(ns)
	}); p != nil {
		return nil, fmt.Sprintf("panic while loading: %v", p)
	}
	if err != nil {
		return nil, "refused: " + err.Error()
	}
	r, ok := rt.GetShardRule(logicDB, logicTable)
	if !ok {
		return nil, "rule not found in the built router"
	}
	return r, ""
}

// ---------------------------------------------------------------- Mycat side

type mycatFn func(columnValue string) (int, error)

func mycatOf(c cfg) mycatFn {
	switch c.Type {
	case models.ShardMycatMod:
		return func(v string) (int, error) { return javaref.PartitionByMod(c.Nodes, v) }
	case models.ShardMycatLong:
		p, err := javaref.NewPartitionByLong(c.Count, c.Length)
		if err != nil || p.Util.Nodes != c.Nodes {
			ev.Fatalf("javaref refuses the valid parameters %s: %v", c.id(), err)
		}
		return p.Calculate
	case models.ShardMycatString:
		p, err := javaref.NewPartitionByString(c.Count, c.Length, c.HashSlice)
		if err != nil || p.Util.Nodes != c.Nodes {
			ev.Fatalf("javaref refuses the valid parameters %s: %v", c.id(), err)
		}
		return p.Calculate
	}
	seed, err := javaref.ParseInt(c.Seed)
	if err != nil {
		ev.Fatalf("seed %q: %v", c.Seed, err)
	}
	vbt, _ := strconv.Atoi(c.VBT)
	return javaref.NewPartitionByMurmurHash(seed, c.Nodes, vbt).Calculate
}

// ---------------------------------------------------------------- universes

// partitionings: every way to cover 1024 with <=3 consecutive (count x length) segments,
// length in {128,256,512,1024}, count >= 1.
func partitionings() [][2]string {
	lens := []int{128, 256, 512, 1024}
	var out [][2]string
	var rec func(cs, ls []int, left int)
	rec = func(cs, ls []int, left int) {
		if left == 0 {
			var a, b []string
			for i := range cs {
				a = append(a, strconv.Itoa(cs[i]))
				b = append(b, strconv.Itoa(ls[i]))
			}
			out = append(out, [2]string{strings.Join(a, ","), strings.Join(b, ",")})
			return
		}
		if len(cs) == 3 {
			return
		}
		for _, l := range lens {
			for c := 1; c*l <= left; c++ {
				rec(append(cs[:len(cs):len(cs)], c), append(ls[:len(ls):len(ls)], l), left-c*l)
			}
		}
	}
	rec(nil, nil, 1024)
	return out
}

func nodesOf(count string) int {
	n := 0
	for _, s := range strings.Split(count, ",") {
		v, _ := strconv.Atoi(s)
		n += v
	}
	return n
}

// the negative end bounds :-2 / :-3 / 1:-3 / -4:-2 together with keys of exactly that many
// characters (end == 0 after normalisation: Mycat hashes the empty slice) were added after
// seeded change c08-1 was missed
var hashSlices = []string{"2", "-2", "0:2", "1:", "-3:", ":-1", ":", "0:0", "2:5", ":-2", ":-3", "1:-3", "-4:-2"}

func sliceKind(spec string) string {
	s, e, err := javaref.SequenceSlicing(spec)
	if err != nil {
		return "invalid"
	}
	if s < 0 || e <= 0 {
		return "len_relative"
	}
	return "absolute"
}

func configs(r *ev.Run) []cfg {
	var out []cfg
	for n := 1; n <= 16; n++ {
		out = append(out, cfg{Type: models.ShardMycatMod, Nodes: n})
	}
	parts := partitionings()
	for _, p := range parts {
		out = append(out, cfg{Type: models.ShardMycatLong, Nodes: nodesOf(p[0]), Count: p[0], Length: p[1]})
	}
	for _, p := range parts {
		for _, hs := range hashSlices {
			out = append(out, cfg{Type: models.ShardMycatString, Nodes: nodesOf(p[0]), Count: p[0], Length: p[1], HashSlice: hs})
		}
	}
	seeds := []string{"0", "1", "-1", "2147483647"}
	vbts := []string{"1", "16", "160"}
	if r.Thorough() {
		seeds = append(seeds, "-2147483648", "12345", "-987654321")
		vbts = append(vbts, "2", "100", "320")
	}
	for _, s := range seeds {
		for _, v := range vbts {
			for n := 1; n <= 16; n++ {
				out = append(out, cfg{Type: models.ShardMycatMURMUR, Nodes: n, Seed: s, VBT: v})
			}
		}
	}
	return out
}

func keys(r *ev.Run) []key {
	ints := []int64{0, 1, -1, 2, 3, 5, 7, 10, 100, 1023, -1023, 1024, -1024, 1025, 12345, -12345,
		1<<31 - 1, 1 << 31, 1<<31 + 1, -(1<<31 - 1), -(1 << 31), -(1<<31 + 1), 1 << 32, 1<<32 + 1,
		math.MaxInt64, math.MaxInt64 - 1, math.MinInt64, math.MinInt64 + 1}
	for i := int64(1); i <= 8; i++ {
		ints = append(ints, i*128-1, i*128, -(i * 128), -(i*128 + 1))
	}
	for i := int64(-50); i <= -40; i++ {
		ints = append(ints, i)
	}
	var ks []key
	seen := map[int64]bool{}
	for _, v := range ints {
		if seen[v] {
			continue
		}
		seen[v] = true
		ks = append(ks, key{T: "int64", I: v}, key{T: "int", I: v}, key{T: "string", S: strconv.FormatInt(v, 10)})
		if v >= 0 {
			ks = append(ks, key{T: "uint64", U: uint64(v)})
		}
	}
	for _, u := range []uint64{1 << 63, 1<<63 + 1, math.MaxUint64 - 1, math.MaxUint64} {
		ks = append(ks, key{T: "uint64", U: u})
	}
	strs := []string{
		// decimal strings Java parses and int64 does not hold
		"9223372036854775808", "-9223372036854775809", "18446744073709551615", "123456789012345678901234567890",
		// other numeric spellings
		"+5", "007", "-0", "+0", "0000",
		// ASCII
		"", "a", "ab", "abc", "abcd", "abcde", "abcdef", "abcdefg", "abcdefgh", "Z", "hello, world", "?!)_FFSD", "ddda;kjelwr",
		"user_10001", "A-1", " ", "a b",
		// short keys whose whole-key hash does not fall into the first partition (so that
		// "empty slice" and "whole key" are told apart)
		"42", "zz", "zzz", "zzzz", "~~",
		// BMP multi-byte
		"é", "éé", "中", "中文", "中文ab", "ab中文", "a中b", "你好, 中国", "ｶﾅ", "€uro",
		// outside the BMP
		"𝄞", "a𝄞b", "😀x", "x😀", "𝄞𝄞", "中𝄞", "ab😀",
	}
	if r.Thorough() {
		for i := 0; i < 200; i++ {
			strs = append(strs, fmt.Sprintf("order-%04d", i), fmt.Sprintf("用户%d", i))
		}
	}
	for _, s := range strs {
		ks = append(ks, key{T: "string", S: s})
	}
	return ks
}

// ---------------------------------------------------------------- judging

func call(rule router.Rule, k key) (idx int, err error, pv interface{}) {
	pv = ev.Catch(func() { idx, err = rule.FindTableIndex(k.value()) })
	return
}

func runKey(r *ev.Run, c cfg, rule router.Rule, mycat mycatFn, k key) {
	want, jerr := mycat(k.columnValue())
	if jerr == javaref.ErrUndefined {
		r.Add("skipped_undefined_in_model", 1)
		return
	}
	idx, err, pv := call(rule, k)
	r.Add("evaluations", 1)
	if jerr != nil {
		// Mycat throws for this key: nothing to agree with
		r.Add("mycat_rejects", 1)
		if err == nil && pv == nil {
			r.Distinct("gaea_places_where_mycat_throws", c.Type+"|"+k.class())
		}
		return
	}
	kind, msg := "", ""
	switch {
	case pv != nil:
		kind, msg = "rejected_by_gaea", fmt.Sprintf("Gaea panics (%v), Mycat places it in data node %d (%s)", pv, want, dbName(want))
	case err != nil:
		kind, msg = "rejected_by_gaea", fmt.Sprintf("Gaea returns error %q, Mycat places it in data node %d (%s)", err.Error(), want, dbName(want))
	case idx != want:
		kind, msg = "wrong_database", fmt.Sprintf("Gaea index %d, Mycat data node %d (%s)", idx, want, dbName(want))
	default:
		var db string
		var derr error
		if p := ev.Catch(func() { db, derr = rule.GetDatabaseNameByTableIndex(idx) }); p != nil || derr != nil || db != dbName(want) {
			kind, msg = "db_name", fmt.Sprintf("index %d is right but GetDatabaseNameByTableIndex gives %q,%v,%v; want %s", idx, db, derr, p, dbName(want))
		} else if si := rule.GetSliceIndexFromTableIndex(idx); si != sliceOf(c.Nodes, idx) {
			kind, msg = "slice_map", fmt.Sprintf("index %d is mapped to slice index %d, want %d", idx, si, sliceOf(c.Nodes, idx))
		}
	}
	if kind != "" {
		sk := "-"
		if c.Type == models.ShardMycatString {
			sk = sliceKind(c.HashSlice)
		}
		noteClass(c.Type + " " + kind + " keyclass=" + k.class() + " keytype=" + k.T + " slice_kind=" + sk)
		r.Violation(ev.Witness{
			Summary: fmt.Sprintf("%s key %s [%s]: %s", c.id(), k, k.class(), msg),
			Features: map[string]string{"rule": c.Type, "kind": kind, "keytype": k.T, "keyclass": k.class(),
				"slice_kind": sk, "hash_slice": orDash(c.HashSlice)},
			Case: kcase{Cfg: c, Key: k},
		})
		return
	}
	r.Add("agreements", 1)
	// non-trivial: Mycat and Gaea agree on a data node (distinct by parameters and node)
	r.Distinct("nontrivial", fmt.Sprintf("%s|%d", c.id(), idx))
	r.Distinct("agreeing_keyclasses", c.Type+"|"+k.class())
}

var (
	classMu sync.Mutex
	classes = map[string]int{}
)

// noteClass counts disagreements per mechanism class (reported in coverage.disagreement_classes).
func noteClass(s string) {
	classMu.Lock()
	classes[s]++
	classMu.Unlock()
}

func orDash(s string) string {
	if s == "" {
		return "-"
	}
	return s
}

func sliceOf(nodes, idx int) int {
	loc := locationsOf(nodes)
	if idx < loc[0] {
		return 0
	}
	return 1
}

func checkLayout(r *ev.Run, c cfg, rule router.Rule) {
	mr, ok := rule.(router.MycatRule)
	var got []string
	if ok {
		got = mr.GetDatabases()
	}
	var want []string
	for i := 0; i < c.Nodes; i++ {
		want = append(want, dbName(i))
	}
	if fmt.Sprint(got) != fmt.Sprint(want) || len(rule.GetSubTableIndexes()) != c.Nodes {
		r.Violation(ev.Witness{
			Summary: fmt.Sprintf("%s: databases %v sub-tables %v, want %v", c.id(), got, rule.GetSubTableIndexes(), want),
			Features: map[string]string{"rule": c.Type, "kind": "database_list", "keytype": "-", "keyclass": "-",
				"slice_kind": "-", "hash_slice": orDash(c.HashSlice)},
			Case: kcase{Cfg: c, Key: key{T: "int64"}},
		})
	}
}

func main() {
	gx.Quiet()
	r := ev.Start("C08", "exploration")

	var rc kcase
	if r.ReplayCase(&rc) {
		rule, why := build(rc.Cfg)
		if rule == nil {
			ev.Fatalf("replay: configuration cannot be loaded: %s", why)
		}
		checkLayout(r, rc.Cfg, rule)
		runKey(r, rc.Cfg, rule, mycatOf(rc.Cfg), rc.Key)
		r.Set("rule", "replay of one recorded case")
		r.Finish()
	}

	cfgs := configs(r)
	ks := keys(r)
	done := enum.Parallel(len(cfgs), r.TimeUp, func(i int) {
		c := cfgs[i]
		rule, why := build(c)
		if rule == nil {
			ev.Fatalf("configuration %s of the (valid) universe cannot be loaded: %s", c.id(), why)
		}
		checkLayout(r, c, rule)
		mycat := mycatOf(c)
		for j, k := range ks {
			runKey(r, c, rule, mycat, k)
			if i%97 == 0 && j == (i/97*13)%len(ks) {
				r.Sample(kcase{Cfg: c, Key: k})
			}
		}
		r.Distinct("configs_by_type", c.Type+"|"+strconv.Itoa(c.Nodes))
		r.Add("configurations", 1)
	})
	if done != len(cfgs) {
		r.Capped(fmt.Sprintf("time budget reached after %d of %d parameter sets", done, len(cfgs)))
	}
	r.Set("disagreement_classes", classes)
	r.Set("universe_parameter_sets", len(cfgs))
	r.Set("universe_keys", len(ks))
	r.Set("bound", "mycat_mod 1-16 databases; mycat_long: every cover of 1024 by <=3 (count x length) segments with length in "+
		"{128,256,512,1024}; mycat_string: the same x hash slices "+strings.Join(hashSlices, " ")+"; mycat_murmur: seeds x virtual "+
		"bucket times x 1-16 databases; keys: boundary int64 values as int/int64/uint64/decimal string, uint64 above int64, decimal "+
		"strings above int64, ASCII strings of length 0-8 and a few longer, BMP multi-byte strings, strings with supplementary characters")
	r.Set("rule", "full product parameter sets x keys; every rule is loaded through Namespace.Verify + NewRouter and "+
		"Rule.FindTableIndex(key) is compared with the Java-semantics model of the Mycat function on the key's column value. "+
		"evaluations = compared calls; distinct_nontrivial = distinct (parameter set, data node) pairs on which Gaea and the Mycat "+
		"model agreed for some key (a real placement that was checked, not a rejection or a skipped key)")
	r.Assume("verif/ref/javaref models Mycat 1.6 PartitionByMod/Long/String/MurmurHash and Guava Murmur3_32 (unit vectors: hand-computed, SMHasher, and placements recorded from Mycat)")
	r.Assume("an integer key reaches Mycat as its decimal string; weightMapFile of PartitionByMurmurHash is not used (Gaea does not implement it)")
	if r.DistinctN("nontrivial") < 200 && done == len(cfgs) {
		ev.Fatalf("vacuous run: only %d distinct agreeing placements", r.DistinctN("nontrivial"))
	}
	r.Finish()
}
