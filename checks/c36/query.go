package main

// Query path of C36: the blacklist decision as the client experiences it. A structured subset
// of the variants of every base is sent as COM_QUERY through a real Session (Session.Run ->
// ExecuteCommand -> handleQuery -> doQuery / doMultiStmts -> checkSQLAllowed -> Preview,
// Namespace.IsSQLAllowed) of a namespace whose blacklist holds the base (installed with the
// real parseBlackSqls); the backends are recording fakes (qrig, a copy of the C21 rig).
//
//	equivalent variant  => the client gets the error "sql in blacklist", nothing reaches a backend
//	structural mutant   => no blacklist error, the statement is executed on a backend
//
// A violation carries path="query" when the direct IsSQLAllowed observation is wrong for the
// same text as well (a fingerprint defect, visible on both paths) and path="query_only" when
// only the query path is wrong.

import (
	"fmt"
	"runtime"
	"strings"
	"sync"

	"verif/checks/c36/qrig"
	"verif/engine/ev"
)

// One Manager per process (Gaea's statistics registry is global): one World holding a pair of
// namespaces (q<i>: single-statement, m<i>: support_multi_query) per worker slot.
type qworld struct {
	w    *qrig.World
	slot int
}

var (
	qOnce  sync.Once
	qWorld *qrig.World
	qSlots chan int
)

func getWorld() *qworld {
	qOnce.Do(func() {
		n := runtime.GOMAXPROCS(0)
		var specs []qrig.NSSpec
		qSlots = make(chan int, n)
		for i := 0; i < n; i++ {
			specs = append(specs, qrig.NSSpec{Name: fmt.Sprintf("q%d", i), CheckSelectLock: true},
				qrig.NSSpec{Name: fmt.Sprintf("m%d", i), CheckSelectLock: true, MultiQuery: true})
			qSlots <- i
		}
		w, err := qrig.NewWorld(specs)
		if err != nil {
			ev.Fatalf("query rig: %v", err)
		}
		qWorld = w
	})
	return &qworld{w: qWorld, slot: <-qSlots}
}

func putWorld(w *qworld) { qSlots <- w.slot }

// forQuery selects the variants that are sent through the query path.
func forQuery(toks []tok, vs []variant) []variant {
	var out []variant
	seenClass := map[string]bool{}
	for _, v := range vs {
		take := false
		switch {
		case v.Class == "structural":
			take = !seenClass["s|"+v.Knob]
			seenClass["s|"+v.Knob] = true
		case v.pure && len(v.gaps) == 1 && len(v.kw) == 0 && len(v.lits) == 0:
			for gi := range v.gaps {
				// before the first keyword, between the first keyword and the next token, after the last token
				take = gi == 0 || gi == 1 || gi == len(toks)
			}
		case v.Knob == "kwcase":
			_, first := v.kw[0]
			take = v.Site == "all" || (first && len(v.kw) == 1)
		}
		if !take && v.Class != "structural" {
			key := "e|" + v.Knob + "|" + v.What
			if v.Knob == "ws" || v.Knob == "optspace" || v.Knob == "comment" {
				key = "e|" + v.Knob + "|" + v.Site // one per gap class
			}
			take = !seenClass[key]
			seenClass[key] = true
		}
		if take {
			out = append(out, v)
		}
	}
	return out
}

type qobs struct {
	blocked bool // last packet is the ERR packet "sql in blacklist"
	err     bool
	errMsg  string
	execs   int // statements that reached a fake backend
}

func observeQ(sess *qrig.Sess, sql string) qobs {
	rep := sess.Query(sql)
	if rep.Closed {
		ev.Fatalf("query rig: session closed while executing %q", sql)
	}
	return qobs{blocked: rep.Err && strings.Contains(rep.ErrMsg, "sql in blacklist"), err: rep.Err, errMsg: rep.ErrMsg,
		// the harmless companion piece of a multi-statement packet ("select 1") may run: the
		// property is about the black-listed statement, which must not reach a backend
		execs: len(qrig.Execs(rep.Events, "select 1"))}
}

// judgeQ evaluates one case on an open session; directRight tells whether the direct
// observation gave the demanded answer for the same text.
func judgeQ(r *ev.Run, sess *qrig.Sess, k kase, directRight bool) bool {
	o := observeQ(sess, k.Variant)
	wantBlocked := k.Class != "structural"
	bad := ""
	switch {
	case wantBlocked && !o.blocked:
		bad = "not_rejected"
	case wantBlocked && o.execs > 0:
		bad = "rejected_but_reached_backend"
	case !wantBlocked && o.blocked:
		bad = "rejected"
	case !wantBlocked && (o.err || o.execs == 0):
		r.Add("query_structural_other_outcome", 1) // not blacklisted, but not executed either: not this property
	}
	if bad == "" {
		return true
	}
	path := "query"
	if directRight {
		path = "query_only"
	}
	r.Violation(ev.Witness{
		Summary: fmt.Sprintf("[%s path, %s] blacklist entry ("+k.entryKind()+") %q: %s variant (%s %s %s) %q: blacklist error=%v other error=%q statements on backends=%d (direct IsSQLAllowed right: %v)",
			k.Path, path, k.entryText(), k.Class, k.Knob, k.Site, k.What, k.Variant, o.blocked, o.errMsg, o.execs, directRight),
		Features: map[string]string{"class": k.Class, "knob": k.Knob, "site": k.Site, "what": k.What, "next": k.Next, "ctx": k.Ctx,
			"stmt": k.Kind, "path": path, "qkind": bad, "entry": k.entryKind()},
		Case: k,
	})
	return false
}

func openSession(qw *qworld, k kase) *qrig.Sess {
	ns, caps := fmt.Sprintf("q%d", qw.slot), uint32(qrig.CapsBase)
	if k.Path == "multi" {
		ns, caps = fmt.Sprintf("m%d", qw.slot), uint32(qrig.CapsMulti)
	}
	qw.w.SetBlackSQL(ns, []string{k.entryText()})
	sess, err := qw.w.NewSession(ns, qrig.RwNoSplit, caps)
	if err != nil {
		ev.Fatalf("query rig: NewSession: %v", err)
	}
	return sess
}

func directRight(g *rig, k kase) bool {
	if k.Knob == "multi_statement" {
		return true // every piece taken alone gets the right answer from IsSQLAllowed (checked on the direct path)
	}
	return g.allowed(k.Variant) == (k.Class == "structural")
}

func replayQuery(r *ev.Run, g *rig, k kase) {
	qw := getWorld()
	sess := openSession(qw, k)
	judgeQ(r, sess, k, directRight(g, k))
	sess.Close()
	putWorld(qw)
}

// queryPath runs the query-path subset of one base; returns the number of evaluations.
func queryPath(r *ev.Run, g *rig, s spec, toks []tok, base string, eqs, sts []variant, otherBase string, otherSpec spec,
	spells []spelling, entryRigs map[string]*rig, okStructurals []variant) int64 {
	qw := getWorld()
	defer putWorld(qw)
	n := int64(0)
	mk := func(v variant, path string) kase {
		return kase{Base: base, Variant: v.SQL, Class: v.Class, Knob: v.Knob, Site: v.Site, What: v.What, Next: v.Next, Ctx: v.Ctx, Kind: s.Kind, Path: path}
	}
	// single-statement path
	sess := openSession(qw, kase{Base: base, Path: "query"})
	cases := []kase{{Base: base, Variant: base, Class: "equivalent", Knob: "identity", Kind: s.Kind, Path: "query"}}
	for _, v := range forQuery(toks, eqs) {
		if v.SQL != base {
			cases = append(cases, mk(v, "query"))
		}
	}
	for _, v := range forQuery(toks, sts) {
		cases = append(cases, mk(v, "query"))
	}
	a, b := s, otherSpec
	a.InLen, a.Rows, b.InLen, b.Rows = 0, 0, 0, 0
	if a != b {
		cases = append(cases, kase{Base: base, Variant: otherBase, Class: "structural", Knob: "other_base", Site: otherSpec.Kind, What: otherSpec.String(), Kind: s.Kind, Path: "query"})
	}
	for _, k := range cases {
		n++
		if judgeQ(r, sess, k, directRight(g, k)) {
			r.Distinct("query_path_classes", k.Class+"|"+k.Knob+"|"+k.Site+"|"+k.What)
			if k.Variant != base {
				r.Distinct("nontrivial", "q|"+base+"|"+k.Variant)
			}
		}
	}
	// entry spellings on the query path: the blacklist of the open session's namespace is replaced
	// (the session is idle between two commands) by another spelling of the base
	for _, sp := range spells {
		switch sp.name {
		case "strings_semicolon", "num_to_string_semicolon", "leading_comment_semicolon", "trailing_semicolon":
		default:
			continue
		}
		qw.w.SetBlackSQL(fmt.Sprintf("q%d", qw.slot), []string{sp.text})
		gE := entryRigs[sp.name]
		ks := []kase{{Variant: base, Class: "equivalent", Knob: "identity"}}
		if len(okStructurals) > 0 {
			v := okStructurals[0]
			ks = append(ks, kase{Variant: v.SQL, Class: v.Class, Knob: v.Knob, Site: v.Site, What: v.What})
		}
		for _, k := range ks {
			k.Base, k.Kind, k.Path, k.Entry, k.EntryKind = base, s.Kind, "query", sp.text, sp.name
			n++
			if judgeQ(r, sess, k, directRight(gE, k)) {
				r.Distinct("query_path_classes", "entry|"+sp.name+"|"+k.Class)
			}
		}
	}
	sess.Close()
	// multi-statement capable session on a namespace with support_multi_query
	sess = openSession(qw, kase{Base: base, Path: "multi"})
	multi := []kase{
		{Variant: base, Class: "equivalent", Knob: "multi_capable_session", Site: "single_statement"},
		{Variant: base + ";", Class: "equivalent", Knob: "multi_capable_session", Site: "single_statement_semicolon"},
		{Variant: "# c\n" + base, Class: "equivalent", Knob: "multi_capable_session", Site: "single_statement_hash_comment"},
		{Variant: base + "; select 1", Class: "equivalent", Knob: "multi_statement", Site: "first_of_two"},
		{Variant: "select 1; " + base, Class: "equivalent", Knob: "multi_statement", Site: "second_of_two"},
	}
	if a != b {
		multi = append(multi, kase{Variant: "select 1; " + otherBase, Class: "structural", Knob: "multi_statement", Site: "second_of_two"})
	}
	for _, k := range multi {
		k.Base, k.Kind, k.Path = base, s.Kind, "multi"
		n++
		dr := true
		if k.Knob == "multi_capable_session" {
			dr = directRight(g, k)
		}
		if judgeQ(r, sess, k, dr) {
			r.Distinct("query_path_classes", k.Class+"|"+k.Knob+"|"+k.Site)
		}
	}
	sess.Close()
	r.Add("query_path_evaluations", n)
	return n
}
