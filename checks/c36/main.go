// C36: the SQL blacklist ignores literals, spacing, keyword case and comments.
//
// Engine: enum (metamorphic). Base statements are generated from a small grammar as TOKEN
// lists; each base is black-listed in a namespace built by the real server.NewNamespace
// (-> parseBlackSqls -> mysql.GetFingerprint/GetMd5) and the real Namespace.IsSQLAllowed is
// asked about
//
//	equivalent variants (must be REJECTED): one literal replaced, IN-list / VALUES-row
//	  count changed, whitespace of a gap replaced by other whitespace, optional whitespace
//	  added/removed next to an operator / comma / parenthesis, one or all keywords re-cased,
//	  a comment put into a token gap (or before / after the statement);
//	structural mutants (must be ALLOWED): every other base of the grammar, other table,
//	  other column, other operator, and<->or, in<->not in, added / removed predicate,
//	  added / removed ORDER BY, DESC, LIMIT, DISTINCT, FOR UPDATE, IN list -> subquery.
//
// The variants are produced by rendering the token list, never by editing SQL text, so an
// "equivalent" differs from the base in nothing but what the knob names. Every generated
// statement must be accepted by Gaea's SQL parser (harness sanity, exit 2 otherwise).
package main

import (
	"fmt"
	"os"
	"sort"
	"strconv"
	"strings"
	"sync"

	"github.com/XiaoMi/Gaea/models"
	"github.com/XiaoMi/Gaea/mysql"
	"github.com/XiaoMi/Gaea/parser"
	"github.com/XiaoMi/Gaea/proxy/server"
	"github.com/XiaoMi/Gaea/util"

	"verif/engine/enum"
	"verif/engine/ev"
	"verif/engine/gx"
)

// ---------------------------------------------------------------- tokens

const (
	KW    = iota // keyword or built-in function name (case-insensitive in SQL)
	ID           // table / column name (case never varied)
	OP           // symbolic operator
	LIT          // literal
	LP           // (
	RP           // )
	COMMA        // ,
	STAR         // *
	DOT          // .
	FN           // function name directly followed by (
)

var kindName = map[int]string{KW: "kw", ID: "id", OP: "op", LIT: "lit", LP: "lp", RP: "rp", COMMA: "comma", STAR: "star", DOT: "dot", FN: "fn"}

type tok struct {
	K       int
	T       string
	IntOnly bool   // literal position that only takes a non-negative integer (LIMIT)
	Role    string // for ID: "table" / "column"
}

// gap kinds between two adjacent tokens
const (
	gNone = iota // no whitespace allowed / never varied
	gOptN        // optional, canonical rendering has none   ( "(" x, x ")", x "," )
	gOptS        // optional, canonical rendering has one space ( ", " x, x " = " y, in " (" )
	gReq         // whitespace required (word word)
)

func gapKind(p, c tok) int {
	switch {
	case c.K == DOT || p.K == DOT:
		return gNone
	case p.K == FN && c.K == LP:
		return gNone
	case (p.K == LP && c.K == STAR) || (p.K == STAR && c.K == RP):
		return gNone
	case p.K == STAR || c.K == STAR:
		return gReq
	case p.K == LP, c.K == RP, c.K == COMMA:
		return gOptN
	case p.K == COMMA, c.K == OP, p.K == OP, c.K == LP, p.K == RP:
		return gOptS
	}
	return gReq
}

func gapSite(p, c tok) string {
	switch {
	case c.K == OP:
		return "before_op"
	case p.K == OP:
		return "after_op"
	case p.K == COMMA:
		return "after_comma"
	case c.K == COMMA:
		return "before_comma"
	case p.K == LP:
		return "after_lp"
	case c.K == RP:
		return "before_rp"
	case c.K == LP:
		return "before_lp_after_" + kindName[p.K] + ":" + strings.ToLower(p.T)
	case p.K == RP:
		return "after_rp"
	}
	return kindName[p.K] + "_" + kindName[c.K]
}

// render: gaps[i] (if present) replaces the gap BEFORE token i; gaps[len(toks)] is appended
// after the last token, gaps[0] is put before the first.
func render(toks []tok, gaps map[int]string, kwmode map[int]int) string {
	var sb strings.Builder
	for i, t := range toks {
		if g, ok := gaps[i]; ok {
			sb.WriteString(g)
		} else if i > 0 {
			switch gapKind(toks[i-1], t) {
			case gOptS, gReq:
				sb.WriteByte(' ')
			}
		}
		txt := t.T
		if t.K == KW || t.K == FN {
			switch kwmode[i] {
			case 1:
				txt = strings.ToUpper(txt)
			case 2:
				txt = strings.ToUpper(txt[:1]) + txt[1:]
			case 3:
				b := []byte(txt)
				for j := range b {
					if j%2 == 1 {
						b[j] = strings.ToUpper(string(b[j]))[0]
					}
				}
				txt = string(b)
			}
		}
		sb.WriteString(txt)
	}
	if g, ok := gaps[len(toks)]; ok {
		sb.WriteString(g)
	}
	return sb.String()
}

// ---------------------------------------------------------------- grammar

type spec struct {
	Kind  string // select insert update delete
	Cols  int
	Join  int
	Where int
	Tail  int
	Form  int // insert / update / delete form
	InLen int // length of IN lists
	Rows  int // number of VALUES rows
}

func (s spec) String() string {
	return fmt.Sprintf("%s/c%d/j%d/w%d/t%d/f%d/in%d/r%d", s.Kind, s.Cols, s.Join, s.Where, s.Tail, s.Form, s.InLen, s.Rows)
}

type builder struct {
	toks []tok
	nlit int
}

var defaultLits = []string{"1", "'x'", "2", "'y'", "3", "'z'", "4"}

func (b *builder) kw(ws ...string) {
	for _, w := range ws {
		b.toks = append(b.toks, tok{K: KW, T: w})
	}
}
func (b *builder) col(n string)   { b.toks = append(b.toks, tok{K: ID, T: n, Role: "column"}) }
func (b *builder) table(n string) { b.toks = append(b.toks, tok{K: ID, T: n, Role: "table"}) }
func (b *builder) op(o string)    { b.toks = append(b.toks, tok{K: OP, T: o}) }
func (b *builder) asg()           { b.toks = append(b.toks, tok{K: OP, T: "=", Role: "assign"}) }
func (b *builder) p(k int, t string) {
	b.toks = append(b.toks, tok{K: k, T: t})
}
func (b *builder) lit() {
	b.toks = append(b.toks, tok{K: LIT, T: defaultLits[b.nlit%len(defaultLits)]})
	b.nlit++
}
func (b *builder) intlit(v string) { b.toks = append(b.toks, tok{K: LIT, T: v, IntOnly: true}) }
func (b *builder) qcol(t, c string) {
	b.table(t)
	b.p(DOT, ".")
	b.col(c)
}
func (b *builder) inList(n int) {
	b.kw("in")
	b.p(LP, "(")
	for i := 0; i < n; i++ {
		if i > 0 {
			b.p(COMMA, ",")
		}
		b.lit()
	}
	b.p(RP, ")")
}
func (b *builder) where(w, inLen int) {
	switch w {
	case 0:
	case 1:
		b.kw("where")
		b.col("a")
		b.op("=")
		b.lit()
	case 2:
		b.kw("where")
		b.col("a")
		b.op("=")
		b.lit()
		b.kw("and")
		b.col("b")
		b.op("=")
		b.lit()
	case 3:
		b.kw("where")
		b.col("a")
		b.inList(inLen)
	case 4:
		b.kw("where")
		b.col("a")
		b.op(">")
		b.lit()
		b.kw("or")
		b.col("b")
		b.inList(inLen)
	case 5:
		b.kw("where")
		b.col("a")
		b.kw("between")
		b.lit()
		b.kw("and")
		b.lit()
	case 6:
		b.kw("where")
		b.col("b")
		b.kw("like")
		b.lit()
	}
}
func (b *builder) tail(t int) {
	switch t {
	case 1:
		b.kw("order", "by")
		b.col("a")
	case 2:
		b.kw("order", "by")
		b.col("a")
		b.kw("desc", "limit")
		b.intlit("10")
	case 3:
		b.kw("limit")
		b.intlit("10")
	case 4:
		b.kw("limit")
		b.intlit("5")
		b.p(COMMA, ",")
		b.intlit("10")
	}
}
func (b *builder) values(rows int) {
	b.kw("values")
	for r := 0; r < rows; r++ {
		if r > 0 {
			b.p(COMMA, ",")
		}
		b.p(LP, "(")
		b.lit()
		b.p(COMMA, ",")
		b.lit()
		b.p(RP, ")")
	}
}
func (b *builder) colList() {
	b.p(LP, "(")
	b.col("a")
	b.p(COMMA, ",")
	b.col("b")
	b.p(RP, ")")
}

func build(s spec) []tok {
	b := &builder{}
	switch s.Kind {
	case "select":
		b.kw("select")
		switch s.Cols {
		case 0:
			b.col("a")
		case 1:
			b.col("a")
			b.p(COMMA, ",")
			b.col("b")
		case 2:
			b.p(STAR, "*")
		case 3:
			b.p(FN, "count")
			b.p(LP, "(")
			b.p(STAR, "*")
			b.p(RP, ")")
		}
		b.kw("from")
		b.table("t")
		if s.Join == 1 {
			b.kw("join")
			b.table("t2")
			b.kw("on")
			b.qcol("t", "a")
			b.op("=")
			b.qcol("t2", "k")
		}
		b.where(s.Where, s.InLen)
		b.tail(s.Tail)
	case "insert":
		switch s.Form {
		case 0:
			b.kw("insert", "into")
			b.table("t")
			b.colList()
			b.values(s.Rows)
		case 1:
			b.kw("insert", "into")
			b.table("t")
			b.values(s.Rows)
		case 2:
			b.kw("replace", "into")
			b.table("t")
			b.colList()
			b.values(s.Rows)
		case 3:
			b.kw("insert", "into")
			b.table("t")
			b.colList()
			b.values(s.Rows)
			b.kw("on", "duplicate", "key", "update")
			b.col("b")
			b.asg()
			b.lit()
		}
	case "update":
		b.kw("update")
		b.table("t")
		b.kw("set")
		switch s.Form {
		case 0:
			b.col("b")
			b.asg()
			b.lit()
		case 1:
			b.col("b")
			b.asg()
			b.lit()
			b.p(COMMA, ",")
			b.col("c")
			b.asg()
			b.lit()
		case 2:
			b.col("b")
			b.asg()
			b.col("b")
			b.op("+")
			b.lit()
		}
		b.where(s.Where, s.InLen)
		b.tail(s.Tail)
	case "delete":
		b.kw("delete", "from")
		b.table("t")
		b.where(s.Where, s.InLen)
		b.tail(s.Tail)
	// statement kinds beyond DML: a blacklist entry can be any statement
	case "truncate":
		b.kw("truncate", "table")
		b.table("t")
	case "droptable":
		b.kw("drop", "table")
		b.table("t")
	case "alter":
		b.kw("alter", "table")
		b.table("t")
		b.kw("add", "column")
		b.col("c")
		b.kw("int")
	case "create":
		b.kw("create", "table")
		b.table("t")
		b.p(LP, "(")
		b.col("a")
		b.kw("int")
		b.p(RP, ")")
	case "show":
		b.kw("show", "create", "table")
		b.table("t")
	case "setvar":
		b.kw("set")
		b.toks = append(b.toks, tok{K: ID, T: "@x", Role: "uservar"})
		b.asg()
		b.lit()
	case "call":
		b.kw("call")
		b.toks = append(b.toks, tok{K: ID, T: "p", Role: "proc"})
		b.p(LP, "(")
		b.lit()
		b.p(RP, ")")
	}
	return b.toks
}

func hasIn(w int) bool { return w == 3 || w == 4 }

var nonDMLKinds = []string{"truncate", "droptable", "alter", "create", "show", "setvar", "call"}

func isNonDML(kind string) bool {
	for _, k := range nonDMLKinds {
		if k == kind {
			return true
		}
	}
	return false
}

func baseSpecs(thorough bool) []spec {
	var out []spec
	defer func() {}()
	for cols := 0; cols < 4; cols++ {
		for join := 0; join < 2; join++ {
			for w := 0; w <= 6; w++ {
				for t := 0; t <= 4; t++ {
					s := spec{Kind: "select", Cols: cols, Join: join, Where: w, Tail: t}
					if hasIn(w) {
						s.InLen = 2
					}
					out = append(out, s)
				}
			}
		}
	}
	for f := 0; f < 4; f++ {
		for rows := 1; rows <= 2; rows++ {
			out = append(out, spec{Kind: "insert", Form: f, Rows: rows})
		}
	}
	for f := 0; f < 3; f++ {
		for _, w := range []int{0, 1, 3} {
			for _, t := range []int{0, 2, 3} {
				if t == 2 && w == 0 {
					continue
				}
				s := spec{Kind: "update", Form: f, Where: w, Tail: t}
				if hasIn(w) {
					s.InLen = 2
				}
				out = append(out, s)
			}
		}
	}
	for _, w := range []int{0, 1, 2, 3} {
		for _, t := range []int{0, 3} {
			s := spec{Kind: "delete", Where: w, Tail: t}
			if hasIn(w) {
				s.InLen = 2
			}
			out = append(out, s)
		}
	}
	for _, k := range nonDMLKinds {
		out = append(out, spec{Kind: k})
	}
	return out
}

// ---------------------------------------------------------------- variants

var litAlphabet = []string{"0", "1", "-1", "1.5", "1e3", "123456789", "'x'", "''", "'a''b'", "''''", `"a""b"`, `'a\'b'`, `"q"`,
	"'a b'", "'a,b'", "'(x)'", "'x) or (1=1'", "'-- c'", "'/*c*/'", "'?'", "0x1f"}
var intAlphabet = []string{"0", "1", "100"}

func litClass(l string) string {
	if len(l) >= 2 && (l[0] == '\'' || l[0] == '"') {
		inner := l[1 : len(l)-1]
		q := string(l[0])
		switch {
		case strings.Contains(inner, q+q):
			return "string_doubled_quote"
		case strings.Contains(inner, `\`+q):
			return "string_backslash_quote"
		case l[0] == '"':
			return "string_double_quoted"
		case inner == "":
			return "string_empty"
		case strings.ContainsAny(inner, " ,()-/*?="):
			return "string_with_punct"
		}
		return "string"
	}
	switch {
	case strings.HasPrefix(l, "0x"):
		return "hex"
	case strings.HasPrefix(l, "-"):
		return "negative"
	case strings.ContainsAny(l, ".e"):
		return "decimal_or_exp"
	}
	return "int"
}

var wsAlphabet = []string{"  ", "\t", "\n", "\r\n", " \n\t "}
var wsName = map[string]string{"  ": "2sp", "\t": "tab", "\n": "nl", "\r\n": "crlf", " \n\t ": "mixed", " ": "sp", "": "none"}

var commentForms = []struct{ name, text string }{
	{"mlc_spaced", " /* c */ "},
	{"mlc_tight", "/* c */"},
	{"mlc_empty_tight", "/**/"},
	{"mlc_quote_spaced", " /* it's */ "},
	{"mlc_sql_spaced", " /* and c = 1 */ "},
	{"dashdash_line", " -- c\n"},
	{"hash_line", " # c\n"},
}

type variant struct {
	SQL   string
	Knob  string // literal inlen rows ws optspace kwcase comment
	Site  string
	What  string
	Next  string // kind of the token after the changed gap / of the changed token
	Ctx   string // "list": the changed gap belongs to an IN / VALUES list construct, else "plain"
	Class string // equivalent | structural
	// render deltas relative to the base token list (nil for variants that rebuild the list)
	gaps map[int]string
	kw   map[int]int
	lits map[int]string
	pure bool // expressible as deltas (can be combined with another variant)
}

func tokDesc(t tok) string {
	switch t.K {
	case OP:
		return "op:" + t.T
	case LIT:
		if t.IntOnly {
			return "lit:int"
		}
		return "lit"
	}
	return kindName[t.K]
}

// listCtx marks, for every gap index i (gap before token i), whether it lies between an
// IN / VALUES keyword and the closing parenthesis of its (last) list.
func listCtx(toks []tok) []bool {
	out := make([]bool, len(toks)+1)
	for i := 0; i < len(toks); i++ {
		if toks[i].K == KW && (toks[i].T == "in" || toks[i].T == "values") {
			depth, end := 0, i
			for j := i + 1; j < len(toks); j++ {
				if toks[j].K == LP {
					depth++
				} else if toks[j].K == RP {
					depth--
					end = j
				} else if depth == 0 && toks[j].K != COMMA {
					break
				}
			}
			for k := i + 1; k <= end; k++ {
				out[k] = true
			}
		}
	}
	return out
}

func applyLits(toks []tok, lits map[int]string) []tok {
	if len(lits) == 0 {
		return toks
	}
	cp := append([]tok(nil), toks...)
	for i, l := range lits {
		cp[i].T = l
	}
	return cp
}

func contextOfLit(toks []tok, i int) string {
	// nearest keyword to the left that names the clause
	for j := i - 1; j >= 0; j-- {
		if toks[j].K == KW {
			switch toks[j].T {
			case "in", "values", "limit", "between", "like", "set", "where", "update", "and", "or":
				if toks[j].T == "and" || toks[j].T == "or" {
					continue
				}
				return toks[j].T
			}
		}
	}
	return "?"
}

func equivalents(s spec) []variant {
	toks := build(s)
	var out []variant
	inList := listCtx(toks)
	add := func(gaps map[int]string, kw map[int]int, lits map[int]string, knob, site, what, next string) {
		ctx := "plain"
		if len(gaps) == 1 {
			for i := range gaps {
				if inList[i] {
					ctx = "list"
				}
			}
		}
		out = append(out, variant{SQL: render(applyLits(toks, lits), gaps, kw), Knob: knob, Site: site, What: what, Next: next, Ctx: ctx,
			Class: "equivalent", gaps: gaps, kw: kw, lits: lits, pure: true})
	}
	addSQL := func(sql, knob, site, what string) {
		out = append(out, variant{SQL: sql, Knob: knob, Site: site, What: what, Class: "equivalent"})
	}
	nextOf := func(i int) string {
		if i < len(toks) {
			return tokDesc(toks[i])
		}
		return "end"
	}
	// literals: one position at a time, and all positions at once
	for i, t := range toks {
		if t.K != LIT {
			continue
		}
		alpha := litAlphabet
		if t.IntOnly {
			alpha = intAlphabet
		}
		for _, l := range alpha {
			if l == t.T {
				continue
			}
			add(nil, nil, map[int]string{i: l}, "literal", contextOfLit(toks, i), litClass(l), nextOf(i+1))
		}
	}
	for _, l := range litAlphabet {
		lits := map[int]string{}
		for i := range toks {
			if toks[i].K == LIT && !toks[i].IntOnly {
				lits[i] = l
			}
		}
		if len(lits) > 1 {
			add(nil, nil, lits, "literal", "all", litClass(l), "")
		}
	}
	// list lengths
	if s.InLen > 0 {
		for _, n := range []int{1, 3, 5} {
			s2 := s
			s2.InLen = n
			addSQL(render(build(s2), nil, nil), "inlen", "in", strconv.Itoa(n))
		}
	}
	if s.Rows > 0 {
		for _, n := range []int{1, 2, 3} {
			if n == s.Rows {
				continue
			}
			s2 := s
			s2.Rows = n
			addSQL(render(build(s2), nil, nil), "rows", "values", strconv.Itoa(n))
		}
	}
	// whitespace
	all := map[string]map[int]string{}
	for i := 1; i < len(toks); i++ {
		gk := gapKind(toks[i-1], toks[i])
		site := gapSite(toks[i-1], toks[i])
		switch gk {
		case gReq, gOptS:
			for _, w := range wsAlphabet {
				add(map[int]string{i: w}, nil, nil, "ws", site, wsName[w], nextOf(i))
				if all[w] == nil {
					all[w] = map[int]string{}
				}
				all[w][i] = w
			}
			if gk == gOptS {
				add(map[int]string{i: ""}, nil, nil, "optspace", site, "removed", nextOf(i))
			}
		case gOptN:
			add(map[int]string{i: " "}, nil, nil, "optspace", site, "added", nextOf(i))
		}
	}
	for _, w := range wsAlphabet {
		add(all[w], nil, nil, "ws", "all_gaps", wsName[w], "")
	}
	// all optional spaces removed / added at once
	rm, ad := map[int]string{}, map[int]string{}
	for i := 1; i < len(toks); i++ {
		switch gapKind(toks[i-1], toks[i]) {
		case gOptS:
			rm[i] = ""
		case gOptN:
			ad[i] = " "
		}
	}
	if len(rm) > 1 {
		add(rm, nil, nil, "optspace", "all", "removed", "")
	}
	if len(ad) > 1 {
		add(ad, nil, nil, "optspace", "all", "added", "")
	}
	add(map[int]string{0: " "}, nil, nil, "ws", "leading", "sp", nextOf(0))
	add(map[int]string{0: "\n\t"}, nil, nil, "ws", "leading", "mixed", nextOf(0))
	add(map[int]string{len(toks): " "}, nil, nil, "ws", "trailing", "sp", "end")
	add(map[int]string{len(toks): "\n"}, nil, nil, "ws", "trailing", "nl", "end")
	// keyword case
	modeName := [...]string{"", "upper", "title", "alternating"}
	allKw := map[int]map[int]int{1: {}, 2: {}, 3: {}}
	for i, t := range toks {
		if t.K != KW && t.K != FN {
			continue
		}
		for mode := 1; mode <= 3; mode++ {
			if mode == 3 && len(t.T) < 2 {
				continue
			}
			add(nil, map[int]int{i: mode}, nil, "kwcase", t.T, modeName[mode], nextOf(i+1))
			allKw[mode][i] = mode
		}
	}
	for mode := 1; mode <= 3; mode++ {
		add(nil, allKw[mode], nil, "kwcase", "all", modeName[mode], "")
	}
	// comments
	for i := 1; i < len(toks); i++ {
		gk := gapKind(toks[i-1], toks[i])
		if gk == gNone {
			continue
		}
		site := gapSite(toks[i-1], toks[i])
		for _, cf := range commentForms {
			add(map[int]string{i: cf.text}, nil, nil, "comment", site, cf.name, nextOf(i))
		}
	}
	add(map[int]string{0: "/* c */ "}, nil, nil, "comment", "leading", "mlc", nextOf(0))
	add(map[int]string{0: "-- c\n"}, nil, nil, "comment", "leading", "dashdash_line", nextOf(0))
	add(map[int]string{0: "# c\n"}, nil, nil, "comment", "leading", "hash_line", nextOf(0))
	add(map[int]string{0: " # c\n"}, nil, nil, "comment", "leading", "sp_hash_line", nextOf(0))
	add(map[int]string{0: "/* c */"}, nil, nil, "comment", "leading", "mlc_tight", nextOf(0))
	add(map[int]string{0: "/* c */ # c\n"}, nil, nil, "comment", "leading", "mlc_then_hash", nextOf(0))
	add(map[int]string{0: "# c\n/* c */ "}, nil, nil, "comment", "leading", "hash_then_mlc", nextOf(0))
	add(map[int]string{0: "-- c\n# c\n"}, nil, nil, "comment", "leading", "dashdash_then_hash", nextOf(0))
	add(map[int]string{0: "/* c */ -- c\n"}, nil, nil, "comment", "leading", "mlc_then_dashdash", nextOf(0))
	add(map[int]string{len(toks): " /* c */"}, nil, nil, "comment", "trailing", "mlc", "end")
	add(map[int]string{len(toks): " -- c"}, nil, nil, "comment", "trailing", "dashdash", "end")
	add(map[int]string{len(toks): " # c"}, nil, nil, "comment", "trailing", "hash", "end")
	return out
}

// combine merges two delta variants that touch different sites.
func combine(toks []tok, a, b variant) (variant, bool) {
	if !a.pure || !b.pure {
		return variant{}, false
	}
	gaps, kw, lits := map[int]string{}, map[int]int{}, map[int]string{}
	for k, v := range a.gaps {
		gaps[k] = v
	}
	for k, v := range b.gaps {
		if _, dup := gaps[k]; dup {
			return variant{}, false
		}
		gaps[k] = v
	}
	for k, v := range a.kw {
		kw[k] = v
	}
	for k, v := range b.kw {
		if _, dup := kw[k]; dup {
			return variant{}, false
		}
		kw[k] = v
	}
	for k, v := range a.lits {
		lits[k] = v
	}
	for k, v := range b.lits {
		if _, dup := lits[k]; dup {
			return variant{}, false
		}
		lits[k] = v
	}
	return variant{SQL: render(applyLits(toks, lits), gaps, kw), Knob: "pair:" + a.Knob + "+" + b.Knob,
		Site: a.Site + "+" + b.Site, What: a.What + "+" + b.What, Next: a.Next + "+" + b.Next, Class: "equivalent"}, true
}

var otherOps = map[string][]string{
	"=": {"<", ">", "<=", ">=", "!=", "<>", "<=>"},
	">": {"<", "=", ">=", "<=", "!="},
	"+": {"-", "*", "/"},
}

func structurals(s spec, toks []tok) []variant {
	var out []variant
	add := func(sql, knob, site, what string) {
		out = append(out, variant{SQL: sql, Knob: knob, Site: site, What: what, Class: "structural"})
	}
	for i, t := range toks {
		switch {
		case t.K == ID && t.Role == "table" && (i+1 >= len(toks) || toks[i+1].K != DOT):
			for _, n := range []string{"t3", "u", "tt"} {
				cp := append([]tok(nil), toks...)
				cp[i].T = n
				add(render(cp, nil, nil), "other_table", t.T, n)
			}
		case t.K == ID && t.Role == "column":
			for _, n := range []string{"c2", "d", "aa"} {
				cp := append([]tok(nil), toks...)
				cp[i].T = n
				add(render(cp, nil, nil), "other_column", t.T, n)
			}
		case t.K == OP && t.Role != "assign":
			for _, o := range otherOps[t.T] {
				cp := append([]tok(nil), toks...)
				cp[i].T = o
				add(render(cp, nil, nil), "other_operator", t.T, o)
			}
		case t.K == KW && (t.T == "and" || t.T == "or") && (i < 2 || toks[i-2].T != "between"):
			cp := append([]tok(nil), toks...)
			if t.T == "and" {
				cp[i].T = "or"
			} else {
				cp[i].T = "and"
			}
			add(render(cp, nil, nil), "and_or", t.T, cp[i].T)
		case t.K == KW && t.T == "in":
			cp := append([]tok(nil), toks[:i]...)
			cp = append(cp, tok{K: KW, T: "not"})
			cp = append(cp, toks[i:]...)
			add(render(cp, nil, nil), "not_in", "in", "not in")
			// IN list -> subquery
			j := i
			for toks[j].K != RP {
				j++
			}
			sub := append([]tok(nil), toks[:i+2]...)
			sub = append(sub, tok{K: KW, T: "select"}, tok{K: ID, T: "k", Role: "column"}, tok{K: KW, T: "from"}, tok{K: ID, T: "t2", Role: "table"})
			sub = append(sub, toks[j:]...)
			add(render(sub, nil, nil), "in_subquery", "in", "select k from t2")
		case t.K == KW && t.T == "like":
			cp := append([]tok(nil), toks[:i]...)
			cp = append(cp, tok{K: KW, T: "not"})
			cp = append(cp, toks[i:]...)
			add(render(cp, nil, nil), "not_like", "like", "not like")
		case t.K == KW && t.T == "select" && i == 0:
			cp := append([]tok(nil), toks[:1]...)
			cp = append(cp, tok{K: KW, T: "distinct"})
			cp = append(cp, toks[1:]...)
			add(render(cp, nil, nil), "distinct", "select", "distinct")
		case t.K == KW && t.T == "desc":
			cp := append([]tok(nil), toks[:i]...)
			cp = append(cp, toks[i+1:]...)
			add(render(cp, nil, nil), "drop_desc", "order by", "")
		}
	}
	// other user variable / procedure
	for i, t := range toks {
		if t.K == ID && (t.Role == "uservar" || t.Role == "proc") {
			cp := append([]tok(nil), toks...)
			cp[i].T = t.T + "2"
			add(render(cp, nil, nil), "other_"+t.Role, t.T, cp[i].T)
		}
	}
	// added predicate
	if s.Kind != "insert" && !isNonDML(s.Kind) {
		extra := []tok{{K: ID, T: "c", Role: "column"}, {K: OP, T: "="}, {K: LIT, T: "1"}}
		// insert position: before order/limit, else at end
		pos := len(toks)
		for i, t := range toks {
			if t.K == KW && (t.T == "order" || t.T == "limit") {
				pos = i
				break
			}
		}
		hasWhere := false
		for _, t := range toks {
			if t.K == KW && t.T == "where" {
				hasWhere = true
			}
		}
		for _, conj := range []string{"and", "or"} {
			if !hasWhere && conj == "or" {
				continue
			}
			cp := append([]tok(nil), toks[:pos]...)
			if hasWhere {
				cp = append(cp, tok{K: KW, T: conj})
			} else {
				cp = append(cp, tok{K: KW, T: "where"})
			}
			cp = append(cp, extra...)
			cp = append(cp, toks[pos:]...)
			add(render(cp, nil, nil), "added_predicate", conj, "c = 1")
		}
	}
	if s.Kind == "select" {
		cp := append([]tok(nil), toks...)
		cp = append(cp, tok{K: KW, T: "for"}, tok{K: KW, T: "update"})
		add(render(cp, nil, nil), "for_update", "tail", "for update")
		if s.Tail == 1 {
			cp := append([]tok(nil), toks...)
			cp = append(cp, tok{K: KW, T: "desc"})
			add(render(cp, nil, nil), "add_desc", "order by", "desc")
		}
	}
	return out
}

// ---------------------------------------------------------------- observation

type rig struct {
	ns *server.Namespace
}

func newRig(black []string) *rig {
	ns, err := server.NewNamespace(&models.Namespace{
		Name:         "ns36",
		BlackSQL:     black,
		Slices:       []*models.Slice{{Name: "s0"}},
		DefaultSlice: "s0",
	}, "dc0")
	if err != nil {
		ev.Fatalf("NewNamespace: %v", err)
	}
	return &rig{ns: ns}
}

func (g *rig) allowed(sql string) bool {
	return g.ns.IsSQLAllowed(util.NewRequestContext(), sql)
}

type kase struct {
	Base    string `json:"base"`
	Variant string `json:"variant"`
	Class   string `json:"class"`
	Knob    string `json:"knob"`
	Site    string `json:"site"`
	What    string `json:"what"`
	Next    string `json:"next"`
	Ctx     string `json:"ctx"`
	Kind    string `json:"kind"`
	Path    string `json:"path,omitempty"` // "" = direct Namespace.IsSQLAllowed; "query" / "multi" = COM_QUERY through a real session
	// Entry is the configured black_sql text when it is not Base itself but another spelling of
	// the same statement (EntryKind names the spelling); "" = the entry is Base.
	Entry     string `json:"entry,omitempty"`
	EntryKind string `json:"entry_kind,omitempty"`
}

func (k kase) entryText() string {
	if k.Entry != "" {
		return k.Entry
	}
	return k.Base
}

func (k kase) entryKind() string {
	if k.EntryKind != "" {
		return k.EntryKind
	}
	return "default"
}

type spelling struct{ name, text string }

// entrySpellings: other members of the base's equivalence class used as the CONFIGURED entry.
func entrySpellings(toks []tok, base string) []spelling {
	var out []spelling
	strs, others := map[int]string{}, map[int]string{}
	firstNum := -1
	for i, t := range toks {
		if t.K != LIT || t.IntOnly {
			continue
		}
		if strings.HasPrefix(t.T, "'") {
			strs[i] = "'a;b'"
			others[i] = "'zz'"
		} else {
			if firstNum < 0 {
				firstNum = i
			}
			others[i] = "77"
		}
	}
	if len(strs) > 0 {
		out = append(out, spelling{"strings_semicolon", render(applyLits(toks, strs), nil, nil)})
	}
	if firstNum >= 0 {
		out = append(out, spelling{"num_to_string_semicolon", render(applyLits(toks, map[int]string{firstNum: "'p;q'"}), nil, nil)})
	}
	if len(others) > 0 {
		out = append(out, spelling{"other_literals", render(applyLits(toks, others), nil, nil)})
	}
	out = append(out, spelling{"leading_comment_semicolon", "/* t; u */ " + base})
	out = append(out, spelling{"comment_semicolon_after_first_keyword", render(toks, map[int]string{1: " /* t; u */ "}, nil)})
	out = append(out, spelling{"trailing_semicolon", base + ";"})
	up := map[int]int{}
	for i, t := range toks {
		if t.K == KW || t.K == FN {
			up[i] = 1
		}
	}
	out = append(out, spelling{"upper_keywords", render(toks, nil, up)})
	return out
}

// entryTargets picks, from the variants that are rejected under the default entry, a handful
// per knob: the first of every knob, and for literals the first of four literal classes.
func entryTargets(passed []variant) []variant {
	var out []variant
	seen := map[string]bool{}
	for _, v := range passed {
		key := v.Knob
		if v.Knob == "literal" {
			switch v.What {
			case "string", "negative", "string_with_punct", "decimal_or_exp":
				key = v.Knob + "|" + v.What
			default:
				continue
			}
		}
		if v.Knob == "comment" && v.Site != "leading" {
			continue
		}
		if v.Knob == "kwcase" && v.Site != "all" {
			continue
		}
		if !seen[key] {
			seen[key] = true
			out = append(out, v)
		}
	}
	return out
}

func mustParse(p *parser.Parser, sql, what string) {
	if strings.Contains(strings.ToLower(sql), "call") && strings.Contains(sql, "p") && !strings.Contains(strings.ToLower(sql), "from") {
		return // CALL is not in the grammar of Gaea's parser; the proxy still receives such statements
	}
	if _, err := p.ParseOneStmt(sql, "", ""); err != nil {
		ev.Fatalf("harness generated SQL that Gaea's parser rejects (%s): %q: %v", what, sql, err)
	}
}

var (
	dumpMu sync.Mutex
	dump   = map[string]int{}
	dumpEx = map[string]string{}
)

func judge(r *ev.Run, g *rig, k kase) bool {
	got := g.allowed(k.Variant)
	want := k.Class == "structural"
	if got == want {
		return true
	}
	verb := "is NOT rejected"
	if !want {
		verb = "is NOT rejected"
	} else {
		verb = "IS rejected"
	}
	if os.Getenv("C36_DUMP") != "" {
		dumpMu.Lock()
		key := "entry=" + k.entryKind() + " | " + k.Class + " | " + k.Knob + " | " + k.Site + " | " + k.What + " | next=" + k.Next + " | ctx=" + k.Ctx
		dump[key]++
		if _, ok := dumpEx[key]; !ok {
			dumpEx[key] = fmt.Sprintf("%q -> %q   [%s] vs [%s]", k.Base, k.Variant, mysql.GetFingerprint(k.Base), mysql.GetFingerprint(k.Variant))
		}
		dumpMu.Unlock()
	}
	r.Violation(ev.Witness{
		Summary: fmt.Sprintf("blacklist entry (%s) %q: %s variant (%s %s %s) %q %s; fingerprints %q vs %q",
			k.entryKind(), k.entryText(), k.Class, k.Knob, k.Site, k.What, k.Variant, verb, mysql.GetFingerprint(k.entryText()), mysql.GetFingerprint(k.Variant)),
		Features: map[string]string{"class": k.Class, "knob": k.Knob, "site": k.Site, "what": k.What, "next": k.Next, "ctx": k.Ctx, "stmt": k.Kind, "path": "direct", "entry": k.entryKind()},
		Case:     k,
	})
	return false
}

func main() {
	gx.Quiet()
	r := ev.Start("C36", "exploration")
	var k kase
	if r.ReplayCase(&k) {
		g := newRig([]string{k.entryText()})
		if k.Path != "" {
			replayQuery(r, g, k)
		} else {
			judge(r, g, k)
		}
		r.Set("evaluations", 1)
		r.Finish()
	}

	specs := baseSpecs(r.Thorough())
	baseSQL := make([]string, len(specs))
	seen := map[string]int{}
	for i, s := range specs {
		baseSQL[i] = render(build(s), nil, nil)
		if j, dup := seen[baseSQL[i]]; dup {
			ev.Fatalf("grammar produces the same statement twice: %v and %v: %s", specs[j], s, baseSQL[i])
		}
		seen[baseSQL[i]] = i
	}

	enum.Parallel(len(specs), r.TimeUp, func(i int) {
		s := specs[i]
		p := parser.New()
		toks := build(s)
		base := baseSQL[i]
		mustParse(p, base, "base")
		g := newRig([]string{base})
		empty := newRig(nil)
		n := int64(0)
		// the blacklisted statement itself
		n++
		if g.allowed(base) {
			r.Violation(ev.Witness{Summary: "blacklisted statement itself is allowed: " + base,
				Features: map[string]string{"class": "identity", "knob": "none", "site": "", "what": "", "next": "", "stmt": s.Kind, "path": "direct", "entry": "default"},
				Case:     kase{Base: base, Variant: base, Class: "equivalent", Kind: s.Kind}})
		}
		var passed []variant
		eqs := equivalents(s)
		for _, v := range eqs {
			if v.SQL == base {
				continue
			}
			mustParse(p, v.SQL, v.Knob+"/"+v.Site+"/"+v.What)
			if !empty.allowed(v.SQL) {
				ev.Fatalf("namespace without blacklist rejects %q", v.SQL)
			}
			n++
			kk := kase{Base: base, Variant: v.SQL, Class: v.Class, Knob: v.Knob, Site: v.Site, What: v.What, Next: v.Next, Ctx: v.Ctx, Kind: s.Kind}
			if judge(r, g, kk) {
				r.Distinct("nontrivial", "rej|"+base+"|"+v.SQL)
				r.Distinct("knobs_rejected", v.Knob)
				passed = append(passed, v)
				if (i*31+int(n))%4001 == 7 {
					r.Sample(kk)
				}
			}
		}
		sts := structurals(s, toks)
		for _, v := range sts {
			mustParse(p, v.SQL, v.Knob+"/"+v.Site+"/"+v.What)
			n++
			kk := kase{Base: base, Variant: v.SQL, Class: v.Class, Knob: v.Knob, Site: v.Site, What: v.What, Next: v.Next, Ctx: v.Ctx, Kind: s.Kind}
			if judge(r, g, kk) {
				r.Distinct("nontrivial", "alw|"+base+"|"+v.SQL)
				r.Distinct("mutants_allowed", v.Knob)
				if (i*31+int(n))%1501 == 7 {
					r.Sample(kk)
				}
			}
		}
		// every other base of the grammar is a structurally different statement
		for j, other := range baseSQL {
			if j == i {
				continue
			}
			// same statement up to IN-length / row count is an equivalent, not a mutant
			a, b := specs[i], specs[j]
			a.InLen, a.Rows, b.InLen, b.Rows = 0, 0, 0, 0
			if a == b {
				continue
			}
			n++
			judge(r, g, kase{Base: base, Variant: other, Class: "structural", Knob: "other_base", Site: specs[j].Kind, What: specs[j].String(), Kind: s.Kind})
		}
		// thorough: every pair of individually passing single-knob variants (different sites)
		if r.Thorough() {
			pairs := int64(0)
			for x := 0; x < len(passed) && !r.TimeUp(); x++ {
				for y := x + 1; y < len(passed); y++ {
					pv, ok := combine(toks, passed[x], passed[y])
					if !ok || pv.SQL == base {
						continue
					}
					pairs++
					judge(r, g, kase{Base: base, Variant: pv.SQL, Class: "equivalent", Knob: pv.Knob, Site: pv.Site, What: pv.What, Next: pv.Next, Kind: s.Kind})
				}
			}
			n += pairs
			r.Add("pair_variants", pairs)
		}
		// second observation: the same decisions as the client experiences them (COM_QUERY
		// through Session.Run -> handleQuery -> doQuery / doMultiStmts -> checkSQLAllowed)
		other := baseSQL[(i+len(baseSQL)/2)%len(baseSQL)]
		otherSpec := specs[(i+len(baseSQL)/2)%len(baseSQL)]
		// entry spellings: the configured entry may be ANY member of the equivalence class
		spells := entrySpellings(toks, base)
		entryRigs := map[string]*rig{}
		var okStructurals []variant
		for _, v := range sts {
			if g.allowed(v.SQL) {
				okStructurals = append(okStructurals, v)
			}
		}
		targets := entryTargets(passed)
		for _, sp := range spells {
			mustParse(p, strings.TrimRight(sp.text, ";"), "entry spelling "+sp.name)
			gE := newRig([]string{sp.text})
			entryRigs[sp.name] = gE
			cases := []kase{{Variant: base, Class: "equivalent", Knob: "identity"}}
			if e := strings.TrimRight(sp.text, ";"); e != base {
				cases = append(cases, kase{Variant: e, Class: "equivalent", Knob: "entry_text_itself"})
			}
			for _, v := range targets {
				cases = append(cases, kase{Variant: v.SQL, Class: v.Class, Knob: v.Knob, Site: v.Site, What: v.What, Next: v.Next, Ctx: v.Ctx})
			}
			for _, v := range okStructurals {
				cases = append(cases, kase{Variant: v.SQL, Class: v.Class, Knob: v.Knob, Site: v.Site, What: v.What})
			}
			a, b := s, otherSpec
			a.InLen, a.Rows, b.InLen, b.Rows = 0, 0, 0, 0
			if a != b {
				cases = append(cases, kase{Variant: other, Class: "structural", Knob: "other_base", Site: otherSpec.Kind, What: otherSpec.String()})
			}
			for _, kk := range cases {
				kk.Base, kk.Kind, kk.Entry, kk.EntryKind = base, s.Kind, sp.text, sp.name
				n++
				r.Add("entry_spelling_evaluations", 1)
				if judge(r, gE, kk) {
					r.Distinct("nontrivial", "e|"+sp.text+"|"+kk.Variant)
					r.Distinct("entry_spellings", sp.name)
				}
			}
		}
		n += queryPath(r, g, s, toks, base, eqs, sts, other, otherSpec, spells, entryRigs, okStructurals)
		r.Add("evaluations", n)
		r.Add("bases", 1)
		r.Distinct("fingerprints", mysql.GetFingerprint(base))
	})
	if r.TimeUp() {
		r.Capped("time budget")
	}
	if os.Getenv("C36_DUMP") != "" {
		keys := []string{}
		for k := range dump {
			keys = append(keys, k)
		}
		sort.Strings(keys)
		for _, k := range keys {
			fmt.Fprintf(os.Stderr, "%6d  %s\n        %s\n", dump[k], k, dumpEx[k])
		}
	}
	r.Set("universe_bases", len(specs))
	kn := []string{}
	for _, c := range commentForms {
		kn = append(kn, c.name)
	}
	sort.Strings(kn)
	r.Set("comment_forms", kn)
	r.Set("literal_alphabet", litAlphabet)
	r.Set("rule", "every base statement of the token grammar (SELECT cols x join x 7 WHERE shapes x 5 tails; INSERT/REPLACE 4 forms x 1-2 rows; UPDATE 3 forms; DELETE; and 7 kinds beyond DML: truncate table, drop table, alter table add column, create table, show create table, set @x = L, call p (L)) is black-listed alone; evaluated: every single-knob equivalent variant (each literal position x literal alphabet, all literals at once, IN length 1/3/5, VALUES rows 1-3, each whitespace gap x 5 whitespace strings and all gaps at once, each optional gap toggled and all at once, leading/trailing whitespace, each keyword x 3 casings and all at once, 7 comment forms at every gap, leading/trailing comments) and every structural mutant (token-level mutants and every other base). Second observation (query path): for every base a structured subset (all comment / whitespace forms before the first keyword, between the first keyword and the next token, after the last token; re-casing of the first and of all keywords; one representative of every other knob class; one structural mutant per kind; another base; multi-statement-capable session: base alone, with ';', after '# c\\n', inside two-statement packets) is sent as COM_QUERY through a real Session of a namespace that black-lists the base: equivalent => ERR 'sql in blacklist' and nothing on a backend, mutant => executed (query_path_evaluations). Entry spellings: besides the base itself, the blacklist is configured with other spellings of the base (string literals 'a;b'; a number replaced by 'p;q'; other literals; leading comment /* t; u */; the same comment after the first keyword; trailing ';'; upper-cased keywords) and must reject the base, the entry text and a handful of equivalents that are rejected under the default entry (first of every knob, four literal classes) and allow every structural mutant that is allowed under the default entry (entry_spelling_evaluations; four of the spellings also on the query path). distinct_nontrivial = distinct (base, variant text != base) pairs on which the blacklist gave the demanded answer (rejected through a different text / allowed although similar), direct and query path counted separately.")
	r.Assume("identifier case is not varied; literal NULL is not used; /*! */ and /*+ */ are not comments")
	r.Assume("query path: backends are recording fakes that accept every statement; 'executed' means a statement reached a fake backend")
	r.Assume("every generated statement is accepted by Gaea's own SQL parser (checked at run time, engine error otherwise)")
	r.Finish()
}
