//go:build verif

package server

// Copy of checks/c21/inject/proxy/server/export.go for the C36 query-path rig (qrig).
// Constructors for the C21/C22 session rig (injected by build overlay; not part of Gaea).
// Nothing here decides anything about a statement: the functions only assemble the real
// Manager / Namespace / Server / Session objects the way CreateManager, NewServer, newSession
// and onConn do, minus sockets, log files, health-check goroutines and metric tickers.

import (
	"fmt"
	"net"
	"sync/atomic"
	"time"

	"github.com/XiaoMi/Gaea/log"
	"github.com/XiaoMi/Gaea/models"
	"github.com/XiaoMi/Gaea/mysql"
	"github.com/XiaoMi/Gaea/util"
	"github.com/XiaoMi/Gaea/util/sync2"
)

// VerifNewManager = CreateManager without namespace.Init() (no health-check goroutines),
// without startConnectPoolMetricsTask, and with the general SQL logger replaced by gl.
func VerifNewManager(cfg *models.Proxy, nss []*models.Namespace, gl log.Logger) (*Manager, error) {
	m := NewManager()
	sm, err := CreateStatisticManager(cfg, m)
	if err != nil {
		return nil, err
	}
	if sm.generalLogger != nil {
		sm.generalLogger.Close()
	}
	sm.generalLogger = gl
	m.statistics = sm

	current, _, _ := m.switchIndex.Get()
	nsMgr := NewNamespaceManager()
	nsMgr.serverIDC = cfg.ServerIdc
	cfgs := make(map[string]*models.Namespace, len(nss))
	for _, c := range nss {
		ns, err := NewNamespace(c, cfg.ServerIdc)
		if err != nil {
			return nil, fmt.Errorf("namespace %s: %v", c.Name, err)
		}
		nsMgr.namespaces[ns.name] = ns
		sm.SQLResponsePercentile[ns.name] = NewSQLResponse(ns.name)
		cfgs[c.Name] = c
	}
	m.namespaces[current] = nsMgr
	um, err := CreateUserManager(cfgs)
	if err != nil {
		return nil, err
	}
	m.users[current] = um
	return m, nil
}

// VerifNewServer = NewServer without listener, admin server and a started time wheel.
// The time wheel has one bucket and is never started: Session.Run only enqueues into it.
func VerifNewServer(cfg *models.Proxy, m *Manager) (*Server, error) {
	s := new(Server)
	s.EncryptKey = cfg.EncryptKey
	s.ServerConfig = cfg
	s.manager = m
	s.ServerVersion = util.CompactServerVersion(cfg.ServerVersion)
	s.ServerVersionCompareStatus = util.NewVersionCompareStatus(cfg.ServerVersion)
	s.AuthPlugin = cfg.AuthPlugin
	s.closed = sync2.NewAtomicBool(false)
	s.sessionTimeout = time.Hour
	tw, err := util.NewTimeWheel(timeWheelUnit, 1)
	if err != nil {
		return nil, err
	}
	s.tw = tw
	return s, nil
}

// VerifNewSession = newSession (without the *net.TCPConn specifics) followed by the real
// handleHandshakeResponse for (user, password, db, collation) and the post-handshake
// assignments of Server.onConn. capability is what readHandshakeResponse would have stored.
func VerifNewSession(s *Server, co net.Conn, user, password, db string, capability uint32) (*Session, error) {
	cc := new(Session)
	cc.c = NewClientConn(mysql.NewConn(co), s.manager)
	cc.proxy = s
	cc.manager = s.manager
	cc.c.SetConnectionID(atomic.AddUint32(&baseConnID, 1))
	cc.c.proxy = s
	cc.executor = newSessionExecutor(s.manager)
	cc.executor.clientAddr = co.RemoteAddr().String()
	cc.closed.Store(false)
	cc.executor.session = cc

	cc.c.capability = capability
	info := HandshakeResponseInfo{
		CollationID:  mysql.CollationID(33), // utf8_general_ci
		User:         user,
		AuthResponse: mysql.CalcPassword(cc.c.salt, []byte(password)),
		Salt:         cc.c.salt,
		Database:     db,
		AuthPlugin:   mysql.MysqlNativePassword,
	}
	if err := cc.handleHandshakeResponse(info); err != nil {
		return nil, err
	}
	if cc.getNamespace() == nil {
		return nil, fmt.Errorf("no namespace for user %s", user)
	}
	// Server.onConn after a successful handshake:
	cc.executor.keepSession = cc.getNamespace().setForKeepSession
	cc.executor.userPriv = cc.getNamespace().userProperties[cc.executor.user].RWFlag
	cc.executor.userType = cc.getNamespace().userProperties[cc.executor.user].OtherProperty
	return cc, nil
}

// VerifRun runs the real command loop of the session until the client side is closed.
func VerifRun(cc *Session) { cc.Run() }

// Read-only accessors used to describe the configuration in the evidence.
func VerifNamespaceOf(cc *Session) *Namespace                  { return cc.getNamespace() }
func VerifSupportMultiQuery(n *Namespace) bool                 { return n.supportMultiQuery }
func VerifInTransaction(cc *Session) bool                      { return cc.executor.isInTransaction() }
func VerifManagerNamespace(m *Manager, name string) *Namespace { return m.GetNamespace(name) }

// VerifSetBlackSQL installs a blacklist the way NewNamespace does (real parseBlackSqls).
func VerifSetBlackSQL(n *Namespace, sqls []string) { n.sqls = parseBlackSqls(sqls) }
