#!/bin/bash
# usage: tools/seedrun.sh  — run every seeded change against the check of its property
# (through the overlay, /repo untouched) and write seeded/RESULTS.json
cd "$(dirname "$(readlink -f "$0")")/.." || exit 2
python3 - <<'P'
import json, glob, subprocess, os
res=[]
import sys
flt=os.environ.get('SEED_FILTER','')
old={r['name']:r for r in (json.load(open('seeded/RESULTS.json')) if os.path.exists('seeded/RESULTS.json') else [])}
for d in sorted(glob.glob('seeded/*/')):
    if flt and flt not in d:
        nm=os.path.basename(d.rstrip('/'))
        if nm in old: res.append(old[nm])
        continue
    name=os.path.basename(d.rstrip('/'))
    meta=json.load(open(d+'meta.json'))
    pid=meta['property']
    extra=meta.get('also_checks',[])
    caught=[]; wit=''
    for chk in [pid]+extra:
        patch=d+('patch.rebased.diff' if os.path.exists(d+'patch.rebased.diff') else 'patch.diff')
        p=subprocess.run(['./check',chk,'quick','--mutant',patch],capture_output=True,text=True)
        if p.returncode==1 and 'VIOLATION property='+chk in p.stdout:
            caught.append(chk)
            if not wit:
                for l in p.stdout.splitlines():
                    if l.strip().startswith('witness:'): wit=l.strip()[9:]; break
        elif p.returncode==2:
            caught.append(chk+'(engine-error: '+(p.stdout.strip().splitlines() or ['?'])[-1][:80]+')')
    res.append({'name':name,'property':pid,'needs':meta.get('needs',''),'caught_by':', '.join(caught) or 'MISSED','witness':wit})
    print(name,pid,'->',res[-1]['caught_by'])
json.dump(res,open('seeded/RESULTS.json','w'),indent=1)
P
