#!/bin/bash
# usage: tools/seedrun.sh  — run every seeded change against the check of its property
# (through the overlay, /repo untouched) and write seeded/RESULTS.json
# env: SEED_FILTER=<regex on the seed name> (others keep their previous result), SEED_JOBS=<n> parallel runs (default 3)
cd "$(dirname "$(readlink -f "$0")")/.." || exit 2
python3 - <<'P'
import json, glob, subprocess, os, re
from concurrent.futures import ThreadPoolExecutor
flt=os.environ.get('SEED_FILTER','')
jobs=int(os.environ.get('SEED_JOBS','3'))
old={r['name']:r for r in (json.load(open('seeded/RESULTS.json')) if os.path.exists('seeded/RESULTS.json') else [])}
def run(d):
    name=os.path.basename(d.rstrip('/'))
    if flt and not re.search(flt,name):
        return old.get(name)
    meta=json.load(open(d+'meta.json'))
    pid=meta['property']
    extra=meta.get('also_checks',[])
    caught=[]; wit=''
    for chk in [pid]+extra:
        patch=d+('patch.rebased.diff' if os.path.exists(d+'patch.rebased.diff') else 'patch.diff')
        p=subprocess.run(['./check',chk,'quick','--mutant',patch],capture_output=True,text=True)
        if p.returncode==1 and 'VIOLATION property='+chk in p.stdout:
            caught.append(chk)
            if not wit:
                for l in p.stdout.splitlines():
                    if l.strip().startswith('witness:'): wit=l.strip()[9:]; break
        elif p.returncode==2:
            caught.append(chk+'(engine-error: '+(p.stdout.strip().splitlines() or ['?'])[-1][:80]+')')
    r={'name':name,'property':pid,'needs':meta.get('needs',''),'caught_by':', '.join(caught) or 'MISSED','witness':wit}
    print(name,pid,'->',r['caught_by'],flush=True)
    return r
with ThreadPoolExecutor(jobs) as ex:
    res=[r for r in ex.map(run,sorted(glob.glob('seeded/*/'))) if r]
json.dump(res,open('seeded/RESULTS.json','w'),indent=1)
P
