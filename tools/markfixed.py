#!/usr/bin/env python3
"""usage: tools/markfixed.py <finding-id> <commit>  — move a finding of checks/*/findings.json to its "fixed" list."""
import json, glob, sys
fid, commit = sys.argv[1], sys.argv[2]
for p in glob.glob('/verif/checks/c*/findings.json'):
    d = json.load(open(p)); keep = []
    hit = False
    for f in d.get('findings', []):
        if f['id'] == fid:
            d.setdefault('fixed', []).append({'property': f['property'], 'commit': commit, 'what': f['id'] + ': ' + f['what']}); hit = True
        else: keep.append(f)
    if hit:
        d['findings'] = keep; json.dump(d, open(p, 'w'), indent=1); print('moved', fid, 'in', p); sys.exit(0)
print('NOT FOUND', fid); sys.exit(1)
