#!/usr/bin/env python3
"""Regenerate the generated part of DESIGN.md (between the GENERATED markers): per-property
as-built table from manifest fragments, evidence, findings and mutants; list of fix commits
and known findings; seeded-change results (seeded/RESULTS.json)."""
import json, glob, os, re
root='/verif'
props=[json.loads(l) for l in open(f'{root}/properties.jsonl')]
ready=set(open(f'{root}/tools/ready.txt').read().split())
rows=[]; fixed=[]; known=[]
for p in props:
    pid=p['id']; cid=pid.lower(); d=f'{root}/checks/{cid}'
    if not os.path.exists(f'{d}/manifest.json') or pid not in ready:
        rows.append(f'| {pid} | — | not claimed | | | | |'); continue
    m=json.load(open(f'{d}/manifest.json'))
    ev={}
    if os.path.exists(f'{root}/evidence/{pid}.json'): ev=json.load(open(f'{root}/evidence/{pid}.json'))
    c=ev.get('coverage',{})
    if ev.get('level')=='model_checking' and 'states' in c:
        cov=f"states {c.get('states'):,}, transitions {c.get('transitions'):,}"
    else:
        cov=f"evaluations {c.get('evaluations',0):,}, distinct non-trivial {c.get('distinct_nontrivial',0):,}"
    nm=len(glob.glob(f'{d}/mutants/*.diff'))
    f={'findings':[],'fixed':[]}
    if os.path.exists(f'{d}/findings.json'): f=json.load(open(f'{d}/findings.json'))
    for x in f.get('findings',[]): known.append((pid,x['id'],x['what']))
    for x in f.get('fixed',[]): fixed.append((pid,x['commit'],x['what']))
    rows.append(f"| {pid} | {m['engine']} / {m['level']} | {cov} | {c.get('exhaustive')} | {ev.get('wall_s',0):.0f} s | {nm} | {len(f.get('findings',[]))} known, {len(f.get('fixed',[]))} fixed |")
out=['<!-- GENERATED:BEGIN (tools/gendesign.py) -->','',
 '### As-built summary (quick tier, from the committed evidence files)','',
 '| id | engine / level | coverage of the quick run | exhaustive | wall | mutants (all detected by tools/selftest.sh) | findings |','|---|---|---|---|---|---|---|']+rows+['']
out+=['### Repairs committed to /repo (`fix:` commits), by property','']
seen=set()
for pid,c,w in fixed:
    out.append(f'* {pid} `{c}` — {w[:300]}')
out+=['','### Known findings (genuine defects recorded, not repaired) — signatures in `checks/cNN/findings.json`','']
for pid,i,w in known:
    out.append(f'* {pid} `{i}` — {w[:400]}')
rp=f'{root}/seeded/RESULTS.json'
if os.path.exists(rp):
    out+=['','### Seeded property-breaking changes (written by independent sub-agents) and the checks that catch them','',
          '| seeded change | property | what it needs to manifest | caught by | witness (first line) |','|---|---|---|---|---|']
    for r in json.load(open(rp)):
        out.append(f"| {r['name']} | {r['property']} | {r['needs'][:160]} | {r['caught_by']} | {r['witness'][:160]} |")
out+=['','<!-- GENERATED:END -->']
s=open(f'{root}/DESIGN.md').read()
blk='\n'.join(out)
if '<!-- GENERATED:BEGIN' in s:
    s=re.sub(r'<!-- GENERATED:BEGIN.*?<!-- GENERATED:END -->',lambda m:blk,s,flags=re.S)
else:
    s=s.replace('## 6. Tools considered',blk+'\n\n## 6. Tools considered')
open(f'{root}/DESIGN.md','w').write(s)
print('rows',len(rows),'fixed',len(fixed),'known',len(known))
