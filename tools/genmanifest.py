#!/usr/bin/env python3
"""Regenerate /verif/MANIFEST.json from checks/cNN/manifest.json fragments.

A fragment holds: level (category), level_text, level_note, technique, engine, design_ref.
Properties without a fragment are listed under not_applicable with the reason given in
tools/not_applicable.json (or 'check not built yet')."""
import json, os, sys
root = '/verif'
props = [json.loads(l) for l in open(f'{root}/properties.jsonl')]
na_reasons = {}
p = f'{root}/tools/not_applicable.json'
if os.path.exists(p):
    na_reasons = json.load(open(p))
checks, na = [], []
ready = set(open(f'{root}/tools/ready.txt').read().split())
for pr in props:
    pid = pr['id']
    frag = f'{root}/checks/{pid.lower()}/manifest.json'
    if os.path.exists(frag) and pid in ready:
        f = json.load(open(frag))
        checks.append({
            'property_id': pid,
            'quick_cmd': f'./check {pid} quick',
            'thorough_cmd': f'./check {pid} thorough',
            'evidence_file': f'/verif/evidence/{pid}.json',
            'replay_cmd_template': f'./check {pid} --replay {{path}}',
            'engine': f.get('engine', 'enum'),
            'level_claimed': {'category': f['level'], 'text': f['level_text'], 'design_ref': f.get('design_ref', f'DESIGN.md §4 {pid}')},
            'level_note': f['level_note'],
            'technique': f['technique'],
        })
    else:
        na.append({'property_id': pid, 'reason': na_reasons.get(pid, 'check not built yet in this round (planned, see DESIGN.md §4); not claimed until it runs clean on the unchanged tree')})
m = {
    'version': 1,
    'setup_cmd': './setup.sh',
    'hooks': {
        'guard': 'verif',
        'enable': 'go build -tags verif -overlay .build/<check>/overlay.json (overlay generated per check by engine/mkoverlay from /repo\'s working tree; no hook code is committed in /repo)',
        'baseline_off_cmd': json.load(open('/root/.vp/BASELINE.json'))['cmd'],
        'source_commits': [],
        'add_only': True,
    },
    'engines': [
        {'name': 'vsched', 'path': 'engine/shim/vsched', 'kind_free_text': 'cooperative scheduler + stateless preemption-bounded DFS over real Gaea code (sync/atomic/channel/go rewritten by overlay), in-explorer happens-before race detection; engine/vx shards it over worker processes', 'serves_properties': []},
        {'name': 'xstate', 'path': 'engine/xstate', 'kind_free_text': 'explicit-state BFS over operation/fault histories; successor = replay on fresh real objects + one event; canonical-state dedup', 'serves_properties': []},
        {'name': 'enum', 'path': 'engine/enum', 'kind_free_text': 'bounded-exhaustive input/configuration enumeration against a reference model', 'serves_properties': []},
    ],
    'checks': checks,
    'not_applicable': na,
    'notes': 'All instrumentation is injected at build time by a generated overlay under build tag verif; /repo carries no hook commits. Genuine-defect repairs are separate fix: commits recorded in known_findings.json.',
}
for e in m['engines']:
    e['serves_properties'] = [c['property_id'] for c in checks if c['engine'] == e['name']]
json.dump(m, open(f'{root}/MANIFEST.json', 'w'), indent=1)
print(f'{len(checks)} checks, {len(na)} not_applicable')
