#!/bin/bash
# usage: tools/confirmseed.sh <worktree> <name>   e.g. tools/confirmseed.sh /tmp/seed-c09 c09-1
# Confirms a seeded change independently: demo fails with the patch, passes without it, the
# touched packages' existing tests still pass with it; then stores it under /verif/seeded/<name>/.
set -u
WT=$1; NAME=$2
export GOFLAGS=-mod=mod GOPROXY=off GOSUMDB=off GOTOOLCHAIN=local
cd "$WT" || exit 2
[ -f SEED/patch.diff ] && [ -f SEED/meta.json ] || { echo "no SEED/patch.diff or meta.json"; exit 2; }
demo_path=$(jq -r .demo_path SEED/meta.json | awk "{print \$1}"); demo_cmd=$(jq -r .demo_cmd SEED/meta.json)
demo_src=$(ls SEED/*_test.go SEED/*.go 2>/dev/null | head -1)
git checkout -q -- . ; git clean -fdq -e SEED -e SEED_TASK.md
git apply SEED/patch.diff || { echo "patch does not apply"; exit 2; }
pkgs=$(git diff --name-only | grep '\.go$' | xargs -n1 dirname | sort -u | sed 's#^#./#')
echo "== existing tests with the change: $pkgs"
go build ./... || { echo "RESULT: does not compile"; exit 1; }
python3 /verif/tools/baselinecheck.py "$WT" $pkgs > /tmp/confirm-$NAME-existing.log 2>&1; base=$?; tail -6 /tmp/confirm-$NAME-existing.log
cp "$demo_src" "$demo_path"
echo "== demo WITH change (must fail): $demo_cmd"
( eval "$demo_cmd" ) > /tmp/confirm-$NAME-with.log 2>&1; with=$?
tail -5 /tmp/confirm-$NAME-with.log
git apply -R SEED/patch.diff
echo "== demo WITHOUT change (must pass)"
( eval "$demo_cmd" ) > /tmp/confirm-$NAME-without.log 2>&1; without=$?
tail -3 /tmp/confirm-$NAME-without.log
rm -f "$demo_path"
echo "with=$with without=$without"
echo "baseline_stable_tests_rc=$base"
if [ $with -ne 0 ] && [ $without -eq 0 ] && [ $base -eq 0 ]; then
  D=/verif/seeded/$NAME; mkdir -p "$D"
  cp SEED/patch.diff SEED/meta.json "$demo_src" "$D/"
  echo "CONFIRMED -> $D"
else
  echo "NOT CONFIRMED"
fi
rm -f /tmp/confirm-$NAME-*.log
