#!/bin/bash
# usage: tools/runall.sh [quick|thorough] [ids...] — run checks (default: all in ready.txt),
# validate evidence against the schema, print one line per check.
cd "$(dirname "$(readlink -f "$0")")/.." || exit 2
tier=${1:-quick}; shift
ids=${*:-$(cat tools/ready.txt)}
rc=0
for ID in $ids; do
  s=$(date +%s)
  out=$(./check "$ID" "$tier" 2>&1); code=$?
  e=$(( $(date +%s) - s ))
  val=$(python3-vt - "$ID" <<'P' 2>&1
import json,jsonschema,sys
try:
    jsonschema.validate(json.load(open(f'evidence/{sys.argv[1]}.json')),json.load(open('/root/.vp/EVIDENCE.schema.json'))); print('evidence-ok')
except Exception as ex: print('EVIDENCE-INVALID', str(ex)[:100])
P
)
  kf=$(echo "$out" | grep -c '^KNOWN-FINDING')
  echo "$ID exit=$code wall=${e}s known=$kf $val"
  [ $code -ne 0 ] && { echo "$out" | tail -5; rc=1; }
done
exit $rc
