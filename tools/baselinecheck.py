#!/usr/bin/env python3
"""usage: tools/baselinecheck.py <repo dir> <pkg>...   e.g. tools/baselinecheck.py /repo ./util/ ./backend/
Runs `go test -json -vet=off -count=1` for the packages and reports every test of
BASELINE.json's stable_pass list (for those packages) that did not pass."""
import json, subprocess, sys, os
repo = sys.argv[1]; pkgs = sys.argv[2:]
env = dict(os.environ, GOFLAGS='-mod=mod', GOPROXY='off', GOSUMDB='off', GOTOOLCHAIN='local')
p = subprocess.run(['go', 'test', '-json', '-vet=off', '-count=1', '-timeout', '25m'] + pkgs, cwd=repo, env=env, capture_output=True, text=True)
passed = set(); seenpkg = set()
for l in p.stdout.splitlines():
    try: e = json.loads(l)
    except Exception: continue
    if e.get('Package'): seenpkg.add(e['Package'])
    if e.get('Action') == 'pass' and e.get('Test'):
        passed.add(e['Package'] + '::' + e['Test'])
stable = [t for t in json.load(open('/root/.vp/BASELINE.json'))['stable_pass'] if t.split('::')[0] in seenpkg]
missing = [t for t in stable if t not in passed]
print(f'packages={len(seenpkg)} stable_in_scope={len(stable)} passed_now={len(passed)} stable_not_passing={len(missing)}')
for t in missing[:40]: print('  NOT PASSING:', t)
sys.exit(1 if missing else 0)
