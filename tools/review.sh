#!/bin/bash
# usage: tools/review.sh <ID>... — quick check twice + evidence validation + selftest; one summary block per id
cd "$(dirname "$(readlink -f "$0")")/.." || exit 2
for ID in "$@"; do
  o1=$(./check $ID quick 2>&1); c1=$?
  o2=$(./check $ID quick 2>&1); c2=$?
  val=$(python3-vt -c "
import json,jsonschema,sys
try:
    e=json.load(open('evidence/$ID.json')); jsonschema.validate(e,json.load(open('/root/.vp/EVIDENCE.schema.json'))); c=e['coverage']; print('ev-ok level=%s exh=%s wall=%.0fs dn=%s'%(e['level'],c.get('exhaustive'),e['wall_s'],c.get('distinct_nontrivial',c.get('states'))))
except Exception as ex: print('EVIDENCE-INVALID',str(ex)[:120])" 2>&1)
  st=$(tools/selftest.sh $ID 2>&1 | grep -E "^(DETECTED|MISSED|no mutants)" | awk '{print $1}' | sort | uniq -c | tr '\n' ' ')
  kf=$(echo "$o1" | grep -c '^KNOWN-FINDING')
  echo "$ID run1=$c1 run2=$c2 known=$kf $val | mutants: $st"
  [ $c1 -ne 0 ] && echo "$o1" | grep -v "^KNOWN" | tail -4
done
