#!/bin/bash
# usage: tools/selftest.sh <ID> — run the quick check against every deliberate
# property-breaking change in checks/<id>/mutants/*.diff (applied to copies through the
# overlay, /repo untouched) and expect exit 1 with a VIOLATION line each time.
cd "$(dirname "$(readlink -f "$0")")/.." || exit 2
ID=$(echo "$1" | tr 'a-z' 'A-Z'); id=$(echo "$1" | tr 'A-Z' 'a-z')
rc=0
for m in checks/$id/mutants/*.diff; do
  [ -f "$m" ] || { echo "no mutants for $ID"; exit 0; }
  out=$(./check "$ID" quick --mutant "$m" 2>&1); code=$?
  if [ $code -eq 1 ] && echo "$out" | grep -q "^VIOLATION property=$ID"; then
    echo "DETECTED  $m"
  else
    echo "MISSED($code) $m"; echo "$out" | tail -5; rc=1
  fi
done
exit $rc
