#!/usr/bin/env python3
"""Merge checks/cNN/findings.json fragments into /verif/known_findings.json (atomic write).
Fragment format: {"findings":[{"property","id","what","match":{feature: regex}}], "fixed":[{"property","commit","what"}]}"""
import json, glob, os, tempfile
root = '/verif'
out = {'findings': [], 'fixed': []}
for f in sorted(glob.glob(f'{root}/checks/c*/findings.json')):
    d = json.load(open(f))
    out['findings'] += d.get('findings', [])
    out['fixed'] += d.get('fixed', [])
fd, tmp = tempfile.mkstemp(dir=root)
with os.fdopen(fd, 'w') as fh:
    json.dump(out, fh, indent=1); fh.write('\n')
os.chmod(tmp, 0o644)
os.rename(tmp, f'{root}/known_findings.json')
print(len(out['findings']), 'findings,', len(out['fixed']), 'fixed')
