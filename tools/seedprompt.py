#!/usr/bin/env python3
"""Print the prompt for a seeding sub-agent: property text + its scratch worktree only."""
import json, sys
pid = sys.argv[1].upper(); wt = sys.argv[2]
avoid = ''
import glob, os
prev = []
for d in sorted(glob.glob('/verif/seeded/' + pid.lower() + '-*/meta.json')):
    m = json.load(open(d))
    prev.append('- files ' + ', '.join(m.get('files_changed', [])) + ': ' + str(m.get('summary', ''))[:300])
if prev:
    avoid = ('\nOther people have already produced the following changes for this property; yours must use a DIFFERENT mechanism and preferably a different code site (do not re-introduce or vary these):\n' + '\n'.join(prev) + '\n')
for l in open('/verif/properties.jsonl'):
    p = json.loads(l)
    if p['id'] == pid: break
print(f"""You are helping to evaluate verification tooling by producing a realistic *property-breaking change* to the Go project XiaoMi/Gaea (a MySQL-protocol database proxy). You work ONLY inside your own scratch git worktree of the project at {wt} (a checkout of the current HEAD). Do not read or write anything under /verif or /repo, and do not look at other directories under /tmp.

The property that your change must break:

  Title: {p['title']}
  Statement: {p['statement']}
  Quantified over: {p['quantifier']['text']}
  Code it is anchored in: {', '.join(p['anchors']['files'])}

{avoid}
Task: make ONE small source change (a few lines, in non-test .go files) in {wt} that a developer could plausibly make by mistake or as a well-meant refactoring/optimisation, such that
  1. the project still compiles, and the EXISTING tests of the packages you touched (and their direct dependents among backend, proxy/..., mysql, util, models, cc) still pass;
  2. the property above is violated by the changed code, but NOT in a way ordinary use would expose at once: the violation must need something specific to manifest — a particular interleaving, a fault or error at a particular point, a multi-step sequence of operations, an unusual/boundary input, or two cooperating code sites that each look fine alone;
  3. the unchanged code does NOT show that violation.
Do not edit or delete existing tests. Do not add build tags. Do not make the change depend on environment variables, time of day or randomness.

Deliver, inside {wt}/SEED/ :
  - patch.diff : `git diff` of your source change (paths relative to the repo root, applies with `git apply`), NOT including the demonstration.
  - a demonstration: a Go test file (put a copy in SEED/ and say in meta.json where in the tree it has to be placed to run, e.g. util/seed_demo_test.go) or a small Go program, which FAILS with your change applied and PASSES on the unchanged code. It must be deterministic (if it needs an interleaving, force it with explicit synchronisation or hooks in the test, not sleeps-and-hope; loops that retry many times are acceptable only if each run is conclusive).
  - meta.json : {{"property": "{pid}", "summary": one sentence, "needs": what specific condition is needed to manifest, "files_changed": [...], "demo_path": where the demo must be placed, "demo_cmd": the exact go test command, "existing_tests_cmd": the go test command(s) you ran to confirm existing tests still pass, "existing_tests_result": "pass"}}

Environment: no network. For every shell call that runs go: `export GOFLAGS=-mod=mod GOPROXY=off GOSUMDB=off GOTOOLCHAIN=local`. Use `go test -vet=off -count=1 ./pkg/...`. NEVER use `git stash` (the stash is shared between worktrees and other people use it): to revert and re-apply your change use `git apply -R SEED/patch.diff` and `git apply SEED/patch.diff`. Run the demonstration both with your change (must fail) and with the source change reverted (must pass), then re-apply the change so the worktree ends with the change applied and SEED/ filled. Keep build output out of the worktree. Some existing tests are slow (tens of seconds); a few need no external services — if a test in a touched package fails identically WITHOUT your change, note it in meta.json and ignore it.

Your final message: the summary, what is needed to manifest, and the commands you ran with their results (short).""")
