//go:build verif

package vsched

import (
	"fmt"
	"os"
	"strconv"
	"strings"
	"time"
)

// Explorer is the stateless, deviation-bounded depth-first search over schedules and
// environment answers. Body is run once per execution (it must build fresh objects);
// Check is called after every execution with its record.
type Explorer struct {
	Bound    int // maximum total cost (preemptions + costly environment deviations)
	MaxSteps int
	Before   func() // run before each execution, outside the scheduler (fresh objects)
	Body     func()
	Check    func(x *Exec)
	// StateKey, if set, is called after every execution ... (reserved)
	Deadline time.Time
	MaxExecs int64

	// Shard k of n: only the root's alternatives with index%n==k are explored (the root
	// execution itself is run by every shard but only checked by shard 0).
	ShardK, ShardN int

	Stats Stats
}

type Stats struct {
	Execs       int64
	Points      int64 // choice points met (N>1)
	Transitions int64 // scheduling steps executed
	MaxDepth    int
	Deadlocks   int64
	Horizons    int64
	Capped      bool
	Diverged    string
	BoundDone   int // highest bound completed
}

// choicePoints extracts the decisions with more than one alternative.
func choicePoints(x *Exec) []PointRec {
	var ps []PointRec
	for _, p := range x.Points {
		if p.N > 1 {
			ps = append(ps, p)
		}
	}
	return ps
}

// ShardFromEnv reads VSCHED_SHARD=k/n.
func (e *Explorer) ShardFromEnv() {
	v := os.Getenv("VSCHED_SHARD")
	if v == "" {
		return
	}
	parts := strings.Split(v, "/")
	if len(parts) == 2 {
		e.ShardK, _ = strconv.Atoi(parts[0])
		e.ShardN, _ = strconv.Atoi(parts[1])
	}
}

// Explore runs the search with the configured bound. It returns false if a cap was hit.
func (e *Explorer) Explore() bool {
	e.explore(nil, 0, true)
	if !e.Stats.Capped && e.Stats.Diverged == "" {
		e.Stats.BoundDone = e.Bound
	}
	return !e.Stats.Capped
}

func (e *Explorer) over() bool {
	if e.Stats.Capped {
		return true
	}
	if e.MaxExecs > 0 && e.Stats.Execs >= e.MaxExecs {
		e.Stats.Capped = true
		return true
	}
	if !e.Deadline.IsZero() && e.Stats.Execs%64 == 0 && time.Now().After(e.Deadline) {
		e.Stats.Capped = true
		return true
	}
	return false
}

func (e *Explorer) explore(prefix []int, prefixCost int, root bool) {
	if e.over() || e.Stats.Diverged != "" {
		return
	}
	if e.Before != nil {
		e.Before()
	}
	x := Run(Options{Prefix: prefix, MaxSteps: e.MaxSteps}, e.Body)
	e.Stats.Execs++
	e.Stats.Transitions += int64(x.Steps)
	if x.Diverged != "" {
		e.Stats.Diverged = fmt.Sprintf("prefix %v: %s", prefix, x.Diverged)
		return
	}
	if x.Deadlock {
		e.Stats.Deadlocks++
	}
	if x.Horizon {
		e.Stats.Horizons++
	}
	cps := choicePoints(x)
	if len(cps) > e.Stats.MaxDepth {
		e.Stats.MaxDepth = len(cps)
	}
	if !(root && e.ShardN > 1 && e.ShardK != 0) {
		e.Check(x)
	}
	cost := prefixCost
	alt := 0
	for i := len(prefix); i < len(cps); i++ {
		p := cps[i]
		e.Stats.Points++
		if cost+p.Cost <= e.Bound {
			for a := 1; a < p.N; a++ {
				alt++
				if root && e.ShardN > 1 && alt%e.ShardN != e.ShardK {
					continue
				}
				np := make([]int, i+1)
				copy(np, x.Choices[:i])
				np[i] = a
				e.explore(np, cost+p.Cost, false)
				if e.over() {
					return
				}
			}
		}
		// the default continuation took alternative 0 here: free
	}
}

// Replay runs one recorded schedule and returns its record (with tracing).
func Replay(choices []int, maxSteps int, body func()) *Exec {
	return Run(Options{Prefix: choices, MaxSteps: maxSteps, Trace: true}, body)
}
