//go:build verif

// Package vsched is a cooperative scheduler for systematic exploration of thread
// interleavings of real Gaea code. It is added to the Gaea module by a build overlay
// (import path github.com/XiaoMi/Gaea/verifshim/vsched); Gaea source files rewritten by
// mkoverlay call into it instead of sync / sync/atomic / channel primitives.
//
// Exactly one harness thread runs at a time. Every hooked operation is a scheduling
// point: the thread publishes the operation it is about to do (with an enabledness
// predicate) and the scheduler picks which enabled thread continues. When no scheduler is
// armed every hook degrades to the real primitive.
//
// Language level is go1.16 (Gaea's go.mod), so no generics here.
package vsched

import (
	"fmt"
	"reflect"
	"runtime"
	"sort"
	"strings"
	"sync"
	"unsafe"
)

// ---------------------------------------------------------------------------------------
// data

type VC map[int]int

func (v VC) copy() VC {
	c := make(VC, len(v))
	for k, x := range v {
		c[k] = x
	}
	return c
}

func (v VC) join(o VC) {
	for k, x := range o {
		if x > v[k] {
			v[k] = x
		}
	}
}

type pendingOp struct {
	kind    string
	obj     string
	enabled func() bool
}

type Thread struct {
	id      int
	name    string
	wake    chan struct{}
	pending *pendingOp
	done    bool
	started bool
	vc      VC
	exited  chan struct{}
}

// PointRec is one recorded decision.
type PointRec struct {
	N          int    // number of alternatives
	Chosen     int    // index taken
	CurEnabled bool   // the running thread was still enabled (so Chosen>0 is a preemption)
	Env        bool   // environment choice (Choose), not a thread switch
	Cost       int    // cost of taking a non-default alternative here
	Tid        int    // thread chosen (thread points) / thread asking (env points)
	Kind       string // operation kind of the thread that continues
	Obj        string
}

type Race struct {
	Label string
	A, B  string
}

type shadow struct {
	keep       interface{} // the pointer itself: keeps the object alive so that its address cannot be reused within the execution
	wTid, wClk int
	wSite      string
	rClk       map[int]int
	rSite      map[int]string
}

// Exec is the observable record of one execution.
type Exec struct {
	Points    []PointRec
	Choices   []int // choice indices at points with N>1 (the replayable schedule)
	Steps     int
	Deadlock  bool
	Blocked   []string // pending ops of blocked threads at deadlock
	Horizon   bool
	Panic     interface{}
	PanicWho  string
	PanicAt   string
	Races     []Race
	Diverged  string // non-empty: replay of the prefix did not fit (engine error)
	Log       []string
	Preempted int
}

type Sched struct {
	threads  []*Thread
	cur      *Thread
	prefix   []int
	nchoice  int
	x        *Exec
	maxSteps int
	aborted  bool
	finished chan struct{}
	finOnce  sync.Once
	objNames map[uintptr]string
	objSeq   map[string]int
	chanVC   map[uintptr]VC
	atomVC   map[uintptr]VC
	keepAlive []interface{} // objects whose addresses key the maps above (no address reuse within an execution)
	shadows  map[uintptr]*shadow
	raceSeen map[string]bool
	closed   map[uintptr]bool
	Trace    bool
	nthreads int
}

var cur *Sched

// Armed reports whether a scheduler is controlling the current execution.
func Armed() bool { return cur != nil && !cur.aborted }

// active returns the scheduler if armed.
func active() *Sched {
	s := cur
	if s == nil || s.aborted {
		return nil
	}
	return s
}

// ---------------------------------------------------------------------------------------
// running one execution

// Options of one execution.
type Options struct {
	Prefix   []int
	MaxSteps int
	Trace    bool
}

// Run executes body as thread 0 under a fresh scheduler, following the choice prefix and
// taking alternative 0 afterwards, and returns the record of the execution.
func Run(opt Options, body func()) *Exec {
	if cur != nil {
		panic("vsched: nested Run")
	}
	s := &Sched{prefix: opt.Prefix, maxSteps: opt.MaxSteps, x: &Exec{}, finished: make(chan struct{}),
		objNames: map[uintptr]string{}, objSeq: map[string]int{}, chanVC: map[uintptr]VC{}, atomVC: map[uintptr]VC{},
		shadows: map[uintptr]*shadow{}, raceSeen: map[string]bool{}, closed: map[uintptr]bool{}, Trace: opt.Trace}
	if s.maxSteps == 0 {
		s.maxSteps = 20000
	}
	cur = s
	t0 := s.newThread("main", nil)
	s.cur = t0
	t0.started = true
	go s.threadMain(t0, body)
	<-s.finished
	// let aborted threads unwind
	for _, t := range s.threads {
		<-t.exited
	}
	cur = nil
	return s.x
}

func (s *Sched) newThread(name string, parent *Thread) *Thread {
	t := &Thread{id: len(s.threads), name: name, wake: make(chan struct{}, 1), vc: VC{}, exited: make(chan struct{})}
	if parent != nil {
		t.vc = parent.vc.copy()
		parent.vc[parent.id]++
	}
	t.vc[t.id] = 1
	s.threads = append(s.threads, t)
	return t
}

func (s *Sched) threadMain(t *Thread, body func()) {
	defer close(t.exited)
	defer func() {
		if e := recover(); e != nil {
			if !s.aborted {
				s.x.Panic = e
				s.x.PanicWho = t.name
				s.x.PanicAt = stackSummary()
				s.abort()
			}
			return
		}
	}()
	body()
	if s.aborted {
		return
	}
	t.done = true
	s.handoff(t)
}

func stackSummary() string {
	buf := make([]byte, 8192)
	n := runtime.Stack(buf, false)
	lines := strings.Split(string(buf[:n]), "\n")
	var out []string
	for _, l := range lines {
		l = strings.TrimSpace(l)
		if strings.Contains(l, "/repo/") && !strings.Contains(l, "verifshim") {
			if i := strings.Index(l, " +0x"); i > 0 {
				l = l[:i]
			}
			out = append(out, strings.TrimPrefix(l, "/repo/"))
			if len(out) >= 6 {
				break
			}
		}
	}
	return strings.Join(out, " < ")
}

func (s *Sched) abort() {
	if s.aborted {
		return
	}
	s.aborted = true
	for _, t := range s.threads {
		select {
		case t.wake <- struct{}{}:
		default:
		}
	}
	s.finOnce.Do(func() { close(s.finished) })
}

// handoff is called by a thread that finished: pick somebody else.
func (s *Sched) handoff(t *Thread) {
	next := s.choose(t)
	if s.aborted {
		return
	}
	if next == nil {
		all := true
		for _, o := range s.threads {
			if !o.done {
				all = false
			}
		}
		if !all {
			s.deadlock()
			return
		}
		s.finOnce.Do(func() { close(s.finished) })
		return
	}
	s.cur = next
	next.wake <- struct{}{}
}

func (s *Sched) deadlock() {
	s.x.Deadlock = true
	for _, o := range s.threads {
		if !o.done && o.pending != nil {
			s.x.Blocked = append(s.x.Blocked, fmt.Sprintf("%s:%s(%s)", o.name, o.pending.kind, o.pending.obj))
		}
	}
	s.abort()
}

// choose computes the enabled set in canonical order (running thread first if enabled,
// then ascending ids) and decides.
func (s *Sched) choose(t *Thread) *Thread {
	var en []*Thread
	curEnabled := false
	yielding := !t.done && t.pending != nil && t.pending.kind == "yield"
	if !yielding && !t.done && t.pending != nil && t.pending.enabled() {
		en = append(en, t)
		curEnabled = true
	}
	for _, o := range s.threads {
		if o == t || o.done || o.pending == nil {
			continue
		}
		if o.pending.enabled() {
			en = append(en, o)
		}
	}
	if yielding {
		// a yielding thread goes last and giving way costs nothing
		en = append(en, t)
	}
	if len(en) == 0 {
		return nil
	}
	idx := 0
	if len(en) > 1 {
		if s.nchoice < len(s.prefix) {
			idx = s.prefix[s.nchoice]
			if idx < 0 || idx >= len(en) {
				s.x.Diverged = fmt.Sprintf("choice %d: prefix asks for alternative %d of %d", s.nchoice, idx, len(en))
				s.abort()
				return nil
			}
		}
		s.nchoice++
		s.x.Choices = append(s.x.Choices, idx)
	}
	n := en[idx]
	cost := 0
	if curEnabled {
		cost = 1
	}
	if curEnabled && idx > 0 {
		s.x.Preempted++
	}
	s.x.Points = append(s.x.Points, PointRec{N: len(en), Chosen: idx, CurEnabled: curEnabled, Cost: cost, Tid: n.id, Kind: n.pending.kind, Obj: n.pending.obj})
	if s.Trace {
		s.x.Log = append(s.x.Log, fmt.Sprintf("%s:%s(%s)", n.name, n.pending.kind, n.pending.obj))
	}
	return n
}

var always = func() bool { return true }

// point is the scheduling point proper.
func (s *Sched) point(kind, obj string, enabled func() bool) {
	t := s.cur
	if enabled == nil {
		enabled = always
	}
	t.pending = &pendingOp{kind: kind, obj: obj, enabled: enabled}
	s.x.Steps++
	if s.x.Steps > s.maxSteps {
		s.x.Horizon = true
		s.abort()
		runtime.Goexit()
	}
	next := s.choose(t)
	if s.aborted {
		runtime.Goexit()
	}
	if next == nil {
		s.deadlock()
		runtime.Goexit()
	}
	if next != t {
		s.cur = next
		next.wake <- struct{}{}
		<-t.wake
		if s.aborted {
			runtime.Goexit()
		}
	}
	t.pending = nil
}

// ---------------------------------------------------------------------------------------
// API used by shims and rewritten code

// Point is a scheduling point for an always-enabled operation.
func Point(kind string, obj interface{}) {
	if s := active(); s != nil {
		s.point(kind, s.name(obj), nil)
	}
}

// PointIf is a scheduling point for an operation that can only proceed when enabled().
func PointIf(kind string, obj interface{}, enabled func() bool) {
	if s := active(); s != nil {
		s.point(kind, s.name(obj), enabled)
	}
}

// Yield marks a spin/poll loop iteration: the caller stays enabled but alternative 0 goes
// to another thread if one is enabled (so that polling loops do not starve the rest).
func Yield() {
	if s := active(); s != nil {
		s.point("yield", "", nil)
	}
}

// Go spawns f as a scheduled thread (or a plain goroutine when unarmed).
func Go(f func()) {
	s := active()
	if s == nil {
		go f()
		return
	}
	s.nthreads++
	t := s.newThread(fmt.Sprintf("g%d", len(s.threads)), s.cur)
	t.pending = &pendingOp{kind: "start", obj: t.name, enabled: always}
	go func() {
		<-t.wake
		if s.aborted {
			close(t.exited)
			return
		}
		t.pending = nil
		t.started = true
		s.threadMain(t, f)
	}()
}

// GoNamed is Go with a thread name chosen by the harness.
func GoNamed(name string, f func()) {
	s := active()
	if s == nil {
		go f()
		return
	}
	t := s.newThread(name, s.cur)
	t.pending = &pendingOp{kind: "start", obj: name, enabled: always}
	go func() {
		<-t.wake
		if s.aborted {
			close(t.exited)
			return
		}
		t.pending = nil
		t.started = true
		s.threadMain(t, f)
	}()
}

// ThreadName returns the name of the running thread ("" when unarmed).
func ThreadName() string {
	if s := active(); s != nil {
		return s.cur.name
	}
	return ""
}

// ThreadID returns the id of the running thread (-1 when unarmed).
func ThreadID() int {
	if s := active(); s != nil {
		return s.cur.id
	}
	return -1
}

// WaitOthers blocks the caller until every other thread has finished.
func WaitOthers() {
	s := active()
	if s == nil {
		return
	}
	me := s.cur
	s.point("join", "all", func() bool {
		for _, o := range s.threads {
			if o != me && !o.done {
				return false
			}
		}
		return true
	})
	for _, o := range s.threads {
		if o != me {
			me.vc.join(o.vc)
		}
	}
}

// Choose is an environment choice with n alternatives; a non-zero answer costs cost
// deviations from the budget of the explorer.
func Choose(n int, cost int, what string) int {
	s := active()
	if s == nil || n <= 1 {
		return 0
	}
	idx := 0
	if s.nchoice < len(s.prefix) {
		idx = s.prefix[s.nchoice]
		if idx < 0 || idx >= n {
			s.x.Diverged = fmt.Sprintf("choice %d (%s): prefix asks for alternative %d of %d", s.nchoice, what, idx, n)
			s.abort()
			runtime.Goexit()
		}
	}
	s.nchoice++
	s.x.Choices = append(s.x.Choices, idx)
	s.x.Points = append(s.x.Points, PointRec{N: n, Chosen: idx, Env: true, Cost: cost, Tid: s.cur.id, Kind: "env", Obj: what})
	if s.Trace {
		s.x.Log = append(s.x.Log, fmt.Sprintf("%s:env(%s)=%d", s.cur.name, what, idx))
	}
	return idx
}

// Logf appends to the execution log (only kept when tracing).
func Logf(format string, a ...interface{}) {
	if s := active(); s != nil && s.Trace {
		s.x.Log = append(s.x.Log, s.cur.name+": "+fmt.Sprintf(format, a...))
	}
}

// name gives stable small names to objects (by order of first use within the execution).
func (s *Sched) name(obj interface{}) string {
	if obj == nil {
		return ""
	}
	if str, ok := obj.(string); ok {
		return str
	}
	p := ptrOf(obj)
	if p == 0 {
		return fmt.Sprintf("%T", obj)
	}
	if n, ok := s.objNames[p]; ok {
		return n
	}
	ty := fmt.Sprintf("%T", obj)
	if i := strings.LastIndex(ty, "."); i >= 0 {
		ty = ty[i+1:]
	}
	s.objSeq[ty]++
	n := fmt.Sprintf("%s#%d", ty, s.objSeq[ty])
	s.objNames[p] = n
	s.keepAlive = append(s.keepAlive, obj)
	return n
}

func ptrOf(obj interface{}) uintptr {
	v := reflect.ValueOf(obj)
	switch v.Kind() {
	case reflect.Ptr, reflect.Chan, reflect.UnsafePointer, reflect.Map, reflect.Func:
		return v.Pointer()
	}
	return 0
}

// ---------------------------------------------------------------------------------------
// happens-before bookkeeping (used by vsync / vatomic and by channel hooks)

// Acquire joins the clock stored for a synchronisation object into the running thread.
func Acquire(vc *VC) {
	if s := active(); s != nil && *vc != nil {
		s.cur.vc.join(*vc)
	}
}

// Release stores the running thread's clock into a synchronisation object.
func Release(vc *VC) {
	if s := active(); s != nil {
		t := s.cur
		if *vc == nil {
			*vc = t.vc.copy()
		} else {
			(*vc).join(t.vc)
		}
		t.vc[t.id]++
	}
}

// AtomicOp is called by vatomic before every atomic operation on addr.
func AtomicOp(kind string, addr unsafe.Pointer) {
	s := active()
	if s == nil {
		return
	}
	p := uintptr(addr)
	s.point(kind, s.nameAddr("atomic", p), nil)
	vc := s.atomVC[p]
	if vc == nil {
		vc = VC{}
		s.atomVC[p] = vc
		s.keepAlive = append(s.keepAlive, addr)
	}
	t := s.cur
	t.vc.join(vc)
	vc.join(t.vc)
	t.vc[t.id]++
}

func (s *Sched) nameAddr(kind string, p uintptr) string {
	if n, ok := s.objNames[p]; ok {
		return n
	}
	s.objSeq[kind]++
	n := fmt.Sprintf("%s#%d", kind, s.objSeq[kind])
	s.objNames[p] = n
	return n
}

// Read / Write are instrumented accesses to shared plain memory: scheduling points and
// inputs of the happens-before race detector.
func Read(addr interface{}, label string)  { access(addr, label, false) }
func Write(addr interface{}, label string) { access(addr, label, true) }

func access(addr interface{}, label string, write bool) {
	s := active()
	if s == nil {
		return
	}
	p := ptrOf(addr)
	kind := "read"
	if write {
		kind = "write"
	}
	s.point(kind, label, nil)
	t := s.cur
	_, file, line, _ := runtime.Caller(2)
	site := fmt.Sprintf("%s %s:%d", kind, strings.TrimPrefix(file, "/repo/"), line)
	sh := s.shadows[p]
	if sh == nil {
		sh = &shadow{keep: addr, wTid: -1, rClk: map[int]int{}, rSite: map[int]string{}}
		s.shadows[p] = sh
	}
	if sh.wTid >= 0 && sh.wTid != t.id && sh.wClk > t.vc[sh.wTid] {
		s.race(label, sh.wSite, site)
	}
	if write {
		for tid, clk := range sh.rClk {
			if tid != t.id && clk > t.vc[tid] {
				s.race(label, sh.rSite[tid], site)
			}
		}
		sh.wTid, sh.wClk, sh.wSite = t.id, t.vc[t.id], site
		sh.rClk = map[int]int{}
		sh.rSite = map[int]string{}
	} else {
		sh.rClk[t.id] = t.vc[t.id]
		sh.rSite[t.id] = site
	}
}

func (s *Sched) race(label, a, b string) {
	pair := []string{a, b}
	sort.Strings(pair)
	k := label + "|" + pair[0] + "|" + pair[1]
	if s.raceSeen[k] {
		return
	}
	s.raceSeen[k] = true
	s.x.Races = append(s.x.Races, Race{Label: label, A: pair[0], B: pair[1]})
}

// ---------------------------------------------------------------------------------------
// channels (hooks inserted by mkoverlay before the real operation)

func chanVal(ch interface{}) (reflect.Value, bool) {
	v := reflect.ValueOf(ch)
	if v.Kind() != reflect.Chan || v.IsNil() {
		return v, false
	}
	return v, true
}

func (s *Sched) recvReady(v reflect.Value) bool {
	if v.Len() > 0 {
		return true
	}
	if s.closed[v.Pointer()] {
		return true
	}
	if v.Type().ChanDir()&reflect.RecvDir == 0 {
		return false
	}
	// empty: a non-blocking receive can only succeed if the channel is closed (no sender
	// can be in flight: every other thread is parked at a scheduling point)
	chosen, _, recvOK := reflect.Select([]reflect.SelectCase{{Dir: reflect.SelectRecv, Chan: v}, {Dir: reflect.SelectDefault}})
	if chosen == 0 {
		if recvOK {
			panic("vsched: probe consumed a value from an empty channel (unhooked sender?)")
		}
		s.closed[v.Pointer()] = true
		return true
	}
	return false
}

func (s *Sched) sendReady(v reflect.Value) bool {
	if s.closed[v.Pointer()] {
		return true // proceeds (and panics, as the real operation does)
	}
	return v.Len() < v.Cap()
}

func (s *Sched) chanHB(v reflect.Value) {
	p := v.Pointer()
	vc := s.chanVC[p]
	if vc == nil {
		vc = VC{}
		s.chanVC[p] = vc
		s.keepAlive = append(s.keepAlive, v.Interface())
	}
	t := s.cur
	t.vc.join(vc)
	vc.join(t.vc)
	t.vc[t.id]++
}

// Send is placed before `ch <- v`.
func Send(ch interface{}) {
	s := active()
	if s == nil {
		return
	}
	v, ok := chanVal(ch)
	if !ok {
		s.point("send", "nilchan", func() bool { return false })
		return
	}
	if v.Cap() == 0 {
		panic("vsched: send on unbuffered channel is not supported under the scheduler")
	}
	s.point("send", s.name(ch), func() bool { return s.sendReady(v) })
	s.chanHB(v)
}

// Recv is placed before a statement containing `<-ch`.
func Recv(ch interface{}) {
	s := active()
	if s == nil {
		return
	}
	v, ok := chanVal(ch)
	if !ok {
		s.point("recv", "nilchan", func() bool { return false })
		return
	}
	s.point("recv", s.name(ch), func() bool { return s.recvReady(v) })
	s.chanHB(v)
}

// Case describes one communication clause of a select statement.
type Case struct {
	Send bool
	Ch   interface{}
}

// Select is placed before a select statement.
func Select(hasDefault bool, cases ...Case) {
	s := active()
	if s == nil {
		return
	}
	type cv struct {
		send bool
		v    reflect.Value
	}
	var cs []cv
	var names []string
	for _, c := range cases {
		v, ok := chanVal(c.Ch)
		if !ok {
			continue
		}
		if c.Send && v.Cap() == 0 {
			panic("vsched: select send on unbuffered channel is not supported under the scheduler")
		}
		cs = append(cs, cv{c.Send, v})
		names = append(names, s.name(c.Ch))
	}
	s.point("select", strings.Join(names, ","), func() bool {
		if hasDefault {
			return true
		}
		for _, c := range cs {
			if c.send && s.sendReady(c.v) {
				return true
			}
			if !c.send && s.recvReady(c.v) {
				return true
			}
		}
		return false
	})
	for _, c := range cs {
		s.chanHB(c.v)
	}
}

// SelectIdx replaces a select statement under the scheduler: it blocks until a case is
// ready (or returns -1 for default when none is), lets the explorer choose among several
// ready cases (cost 0), and returns the index of the chosen case (in source order, default
// excluded). The caller then performs that communication as a plain statement, which cannot
// block because only the running thread changes channel state.
func SelectIdx(hasDefault bool, cases ...Case) int {
	s := active()
	if s == nil {
		panic("vsched: SelectIdx called without an armed scheduler")
	}
	type cv struct {
		send bool
		v    reflect.Value
		ok   bool
	}
	cs := make([]cv, len(cases))
	var names []string
	for i, c := range cases {
		v, ok := chanVal(c.Ch)
		if ok && c.Send && v.Cap() == 0 {
			panic("vsched: select send on unbuffered channel is not supported under the scheduler")
		}
		cs[i] = cv{c.Send, v, ok}
		if ok {
			names = append(names, s.name(c.Ch))
		}
	}
	ready := func() []int {
		var r []int
		for i, c := range cs {
			if !c.ok {
				continue
			}
			if (c.send && s.sendReady(c.v)) || (!c.send && s.recvReady(c.v)) {
				r = append(r, i)
			}
		}
		return r
	}
	s.point("select", strings.Join(names, ","), func() bool { return hasDefault || len(ready()) > 0 })
	r := ready()
	switch len(r) {
	case 0:
		return -1
	case 1:
		s.chanHB(cs[r[0]].v)
		return r[0]
	}
	k := Choose(len(r), 0, "select-ready-case")
	s.chanHB(cs[r[k]].v)
	return r[k]
}

// Close replaces close(ch).
func Close(ch interface{}) {
	s := active()
	if s != nil {
		v, ok := chanVal(ch)
		if ok {
			s.point("close", s.name(ch), nil)
			s.closed[v.Pointer()] = true
			s.chanHB(v)
		}
	}
	reflect.ValueOf(ch).Close()
}
