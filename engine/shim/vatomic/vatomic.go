//go:build verif

// Package vatomic replaces sync/atomic in rewritten Gaea files: each operation is a
// scheduling point (and a happens-before edge on its address) followed by the real op.
package vatomic

import (
	"sync/atomic"
	"unsafe"

	"github.com/XiaoMi/Gaea/verifshim/vsched"
)

type Value = atomic.Value

func AddInt32(addr *int32, delta int32) int32 {
	vsched.AtomicOp("atomic.add", unsafe.Pointer(addr))
	return atomic.AddInt32(addr, delta)
}
func AddInt64(addr *int64, delta int64) int64 {
	vsched.AtomicOp("atomic.add", unsafe.Pointer(addr))
	return atomic.AddInt64(addr, delta)
}
func AddUint32(addr *uint32, delta uint32) uint32 {
	vsched.AtomicOp("atomic.add", unsafe.Pointer(addr))
	return atomic.AddUint32(addr, delta)
}
func AddUint64(addr *uint64, delta uint64) uint64 {
	vsched.AtomicOp("atomic.add", unsafe.Pointer(addr))
	return atomic.AddUint64(addr, delta)
}
func LoadInt32(addr *int32) int32 {
	vsched.AtomicOp("atomic.load", unsafe.Pointer(addr))
	return atomic.LoadInt32(addr)
}
func LoadInt64(addr *int64) int64 {
	vsched.AtomicOp("atomic.load", unsafe.Pointer(addr))
	return atomic.LoadInt64(addr)
}
func LoadUint32(addr *uint32) uint32 {
	vsched.AtomicOp("atomic.load", unsafe.Pointer(addr))
	return atomic.LoadUint32(addr)
}
func LoadUint64(addr *uint64) uint64 {
	vsched.AtomicOp("atomic.load", unsafe.Pointer(addr))
	return atomic.LoadUint64(addr)
}
func StoreInt32(addr *int32, v int32) {
	vsched.AtomicOp("atomic.store", unsafe.Pointer(addr))
	atomic.StoreInt32(addr, v)
}
func StoreInt64(addr *int64, v int64) {
	vsched.AtomicOp("atomic.store", unsafe.Pointer(addr))
	atomic.StoreInt64(addr, v)
}
func StoreUint32(addr *uint32, v uint32) {
	vsched.AtomicOp("atomic.store", unsafe.Pointer(addr))
	atomic.StoreUint32(addr, v)
}
func StoreUint64(addr *uint64, v uint64) {
	vsched.AtomicOp("atomic.store", unsafe.Pointer(addr))
	atomic.StoreUint64(addr, v)
}
func SwapInt32(addr *int32, v int32) int32 {
	vsched.AtomicOp("atomic.swap", unsafe.Pointer(addr))
	return atomic.SwapInt32(addr, v)
}
func SwapInt64(addr *int64, v int64) int64 {
	vsched.AtomicOp("atomic.swap", unsafe.Pointer(addr))
	return atomic.SwapInt64(addr, v)
}
func CompareAndSwapInt32(addr *int32, o, n int32) bool {
	vsched.AtomicOp("atomic.cas", unsafe.Pointer(addr))
	return atomic.CompareAndSwapInt32(addr, o, n)
}
func CompareAndSwapInt64(addr *int64, o, n int64) bool {
	vsched.AtomicOp("atomic.cas", unsafe.Pointer(addr))
	return atomic.CompareAndSwapInt64(addr, o, n)
}
func CompareAndSwapUint32(addr *uint32, o, n uint32) bool {
	vsched.AtomicOp("atomic.cas", unsafe.Pointer(addr))
	return atomic.CompareAndSwapUint32(addr, o, n)
}
func CompareAndSwapUint64(addr *uint64, o, n uint64) bool {
	vsched.AtomicOp("atomic.cas", unsafe.Pointer(addr))
	return atomic.CompareAndSwapUint64(addr, o, n)
}
func LoadPointer(addr *unsafe.Pointer) unsafe.Pointer {
	vsched.AtomicOp("atomic.load", unsafe.Pointer(addr))
	return atomic.LoadPointer(addr)
}
func StorePointer(addr *unsafe.Pointer, v unsafe.Pointer) {
	vsched.AtomicOp("atomic.store", unsafe.Pointer(addr))
	atomic.StorePointer(addr, v)
}
