//go:build verif

// Package vrand replaces math/rand in rewritten Gaea files. When a chooser is installed
// (by a harness) Intn / Shuffle ask it; otherwise the real generator is used.
package vrand

import (
	"math/rand"

	"github.com/XiaoMi/Gaea/verifshim/vsched"
)

type (
	Rand   = rand.Rand
	Source = rand.Source
)

// Chooser, if non-nil, decides every Intn(n) (must return a value in [0,n)).
var Chooser func(n int, what string) int

func New(src Source) *Rand        { return rand.New(src) }
func NewSource(seed int64) Source { return rand.NewSource(seed) }
func Seed(seed int64)             { rand.Seed(seed) }
func Int() int                    { return rand.Int() }
func Int63() int64                { return rand.Int63() }
func Int31() int32                { return rand.Int31() }
func Float64() float64            { return rand.Float64() }
func Perm(n int) []int            { return rand.Perm(n) }
func Int63n(n int64) int64        { return int64(Intn(int(n))) }
func Int31n(n int32) int32        { return int32(Intn(int(n))) }

func Intn(n int) int {
	if Chooser != nil {
		return Chooser(n, "rand.Intn")
	}
	if vsched.Armed() {
		return vsched.Choose(n, 0, "rand.Intn")
	}
	return rand.Intn(n)
}

// Shuffle with a chooser performs Fisher-Yates with chosen indices, so every permutation
// is reachable.
func Shuffle(n int, swap func(i, j int)) {
	if Chooser != nil || vsched.Armed() {
		for i := n - 1; i > 0; i-- {
			j := Intn(i + 1)
			swap(i, j)
		}
		return
	}
	rand.Shuffle(n, swap)
}
