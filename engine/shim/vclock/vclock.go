//go:build verif

// Package vclock is a logical clock. Rewritten Gaea files call vclock.Now/Since/Sleep/
// NewTicker/NewTimer/After/AfterFunc instead of package time. When the clock is not
// enabled everything falls through to real time.
package vclock

import (
	"context"
	"sort"
	"sync"
	"time"
)

var (
	mu      sync.Mutex
	enabled bool
	now     time.Time
	timers  []*Timer
	seq     int
	// SleepHook, if set, is called instead of advancing the clock in Sleep.
	SleepHook func(d time.Duration)
)

// Enable switches to logical time starting at start.
func Enable(start time.Time) {
	mu.Lock()
	enabled = true
	now = start
	timers = nil
	mu.Unlock()
}

// Disable returns to real time and forgets all logical timers.
func Disable() {
	mu.Lock()
	enabled = false
	timers = nil
	SleepHook = nil
	mu.Unlock()
}

func Enabled() bool {
	mu.Lock()
	defer mu.Unlock()
	return enabled
}

func Now() time.Time {
	mu.Lock()
	defer mu.Unlock()
	if enabled {
		return now
	}
	return time.Now()
}

func Since(t time.Time) time.Duration { return Now().Sub(t) }
func Until(t time.Time) time.Duration { return t.Sub(Now()) }

// Set moves the logical clock to t without firing timers.
func Set(t time.Time) {
	mu.Lock()
	now = t
	mu.Unlock()
}

func Sleep(d time.Duration) {
	mu.Lock()
	en := enabled
	h := SleepHook
	mu.Unlock()
	if !en {
		time.Sleep(d)
		return
	}
	if h != nil {
		h(d)
		return
	}
	Advance(d)
}

// Timer / Ticker

type Timer struct {
	C      <-chan time.Time
	c      chan time.Time
	real   *time.Timer
	realT  *time.Ticker
	period time.Duration // >0: ticker
	due    time.Time
	active bool
	f      func()
	id     int
}

type Ticker = Timer

func add(t *Timer) {
	seq++
	t.id = seq
	timers = append(timers, t)
}

func NewTicker(d time.Duration) *Ticker {
	if d <= 0 {
		panic("non-positive interval for NewTicker")
	}
	mu.Lock()
	defer mu.Unlock()
	if !enabled {
		rt := time.NewTicker(d)
		return &Timer{C: rt.C, realT: rt}
	}
	c := make(chan time.Time, 1)
	t := &Timer{C: c, c: c, period: d, due: now.Add(d), active: true}
	add(t)
	return t
}

func NewTimer(d time.Duration) *Timer {
	mu.Lock()
	defer mu.Unlock()
	if !enabled {
		rt := time.NewTimer(d)
		return &Timer{C: rt.C, real: rt}
	}
	c := make(chan time.Time, 1)
	t := &Timer{C: c, c: c, due: now.Add(d), active: true}
	add(t)
	return t
}

func After(d time.Duration) <-chan time.Time { return NewTimer(d).C }

func Tick(d time.Duration) <-chan time.Time { return NewTicker(d).C }

func AfterFunc(d time.Duration, f func()) *Timer {
	mu.Lock()
	defer mu.Unlock()
	if !enabled {
		return &Timer{real: time.AfterFunc(d, f)}
	}
	t := &Timer{due: now.Add(d), active: true, f: f}
	add(t)
	return t
}

func (t *Timer) Stop() bool {
	if t.real != nil {
		return t.real.Stop()
	}
	if t.realT != nil {
		t.realT.Stop()
		return true
	}
	mu.Lock()
	defer mu.Unlock()
	was := t.active
	t.active = false
	return was
}

func (t *Timer) Reset(d time.Duration) bool {
	if t.real != nil {
		return t.real.Reset(d)
	}
	if t.realT != nil {
		t.realT.Reset(d)
		return true
	}
	mu.Lock()
	defer mu.Unlock()
	was := t.active
	t.active = true
	if t.period > 0 {
		t.period = d
	}
	t.due = now.Add(d)
	return was
}

// Advance moves logical time forward by d, firing due timers in deadline order. Channel
// deliveries are non-blocking (like the runtime's); AfterFunc callbacks run inline.
func Advance(d time.Duration) {
	mu.Lock()
	target := now.Add(d)
	for {
		var due []*Timer
		for _, t := range timers {
			if t.active && !t.due.After(target) {
				due = append(due, t)
			}
		}
		if len(due) == 0 {
			break
		}
		sort.Slice(due, func(i, j int) bool {
			if due[i].due.Equal(due[j].due) {
				return due[i].id < due[j].id
			}
			return due[i].due.Before(due[j].due)
		})
		t := due[0]
		if t.due.After(now) {
			now = t.due
		}
		if t.period > 0 {
			t.due = t.due.Add(t.period)
		} else {
			t.active = false
		}
		if t.f != nil {
			f := t.f
			mu.Unlock()
			f()
			mu.Lock()
		} else {
			select {
			case t.c <- now:
			default:
			}
		}
	}
	now = target
	mu.Unlock()
}

// Pending returns the number of active logical timers.
func Pending() int {
	mu.Lock()
	defer mu.Unlock()
	n := 0
	for _, t := range timers {
		if t.active {
			n++
		}
	}
	return n
}

// WithTimeout / WithDeadline replace the context functions in rewritten files: with the
// logical clock enabled no real timer is armed (the context only ends when cancelled, or
// when the logical clock is advanced past the deadline and the harness cancels it).
func WithTimeout(parent context.Context, d time.Duration) (context.Context, context.CancelFunc) {
	if !Enabled() {
		return context.WithTimeout(parent, d)
	}
	return context.WithCancel(parent)
}

func WithDeadline(parent context.Context, t time.Time) (context.Context, context.CancelFunc) {
	if !Enabled() {
		return context.WithDeadline(parent, t)
	}
	return context.WithCancel(parent)
}
