//go:build verif

// Package vsync replaces package sync in rewritten Gaea files. Under an armed scheduler
// Mutex / RWMutex / WaitGroup are modelled (held flags + scheduling points + happens-before
// clocks); otherwise they fall through to the real primitives.
package vsync

import (
	"sync"

	"github.com/XiaoMi/Gaea/verifshim/vsched"
)

type (
	Pool   = sync.Pool
	Map    = sync.Map
	Locker = sync.Locker
)

// Mutex

type Mutex struct {
	real sync.Mutex
	held bool // locked in modelled mode
	vc   vsched.VC
}

func (m *Mutex) Lock() {
	if vsched.Armed() {
		vsched.PointIf("lock", m, func() bool { return !m.held })
		m.held = true
		vsched.Acquire(&m.vc)
		return
	}
	m.real.Lock()
}

func (m *Mutex) Unlock() {
	if m.held {
		m.held = false
		vsched.Release(&m.vc)
		return
	}
	m.real.Unlock()
}

// RWMutex

type RWMutex struct {
	real    sync.RWMutex
	w       bool
	readers int
	vc      vsched.VC
}

func (m *RWMutex) Lock() {
	if vsched.Armed() {
		vsched.PointIf("wlock", m, func() bool { return !m.w && m.readers == 0 })
		m.w = true
		vsched.Acquire(&m.vc)
		return
	}
	m.real.Lock()
}

func (m *RWMutex) Unlock() {
	if m.w {
		m.w = false
		vsched.Release(&m.vc)
		return
	}
	m.real.Unlock()
}

func (m *RWMutex) RLock() {
	if vsched.Armed() {
		vsched.PointIf("rlock", m, func() bool { return !m.w })
		m.readers++
		vsched.Acquire(&m.vc)
		return
	}
	m.real.RLock()
}

func (m *RWMutex) RUnlock() {
	if m.readers > 0 {
		m.readers--
		vsched.Release(&m.vc)
		return
	}
	m.real.RUnlock()
}

func (m *RWMutex) RLocker() Locker { return (*rlocker)(m) }

type rlocker RWMutex

func (r *rlocker) Lock()   { (*RWMutex)(r).RLock() }
func (r *rlocker) Unlock() { (*RWMutex)(r).RUnlock() }

// WaitGroup

type WaitGroup struct {
	real sync.WaitGroup
	n    int
	used bool
	vc   vsched.VC
}

func (w *WaitGroup) Add(d int) {
	if vsched.Armed() || w.used {
		w.used = true
		w.n += d
		if w.n < 0 {
			panic("sync: negative WaitGroup counter")
		}
		if d < 0 {
			vsched.Release(&w.vc)
		}
		return
	}
	w.real.Add(d)
}

func (w *WaitGroup) Done() { w.Add(-1) }

func (w *WaitGroup) Wait() {
	if vsched.Armed() {
		vsched.PointIf("wgwait", w, func() bool { return w.n == 0 })
		vsched.Acquire(&w.vc)
		return
	}
	if w.used {
		return
	}
	w.real.Wait()
}

// Once

type Once struct {
	done bool
	busy bool
	real sync.Once
	vc   vsched.VC
}

func (o *Once) Do(f func()) {
	if vsched.Armed() {
		vsched.PointIf("once", o, func() bool { return !o.busy })
		if o.done {
			vsched.Acquire(&o.vc)
			return
		}
		o.busy = true
		defer func() {
			o.done = true
			o.busy = false
			vsched.Release(&o.vc)
		}()
		f()
		return
	}
	if o.done {
		return
	}
	o.real.Do(func() { f(); o.done = true })
}
