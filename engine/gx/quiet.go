// Package gx holds small helpers that touch Gaea packages (shared by all harnesses).
package gx

import (
	"github.com/XiaoMi/Gaea/log"
)

type nullLogger struct{}

func (nullLogger) SetLevel(name, level string) error                          { return nil }
func (nullLogger) Debug(format string, a ...interface{}) (err error)          { return nil }
func (nullLogger) Trace(format string, a ...interface{}) (err error)          { return nil }
func (nullLogger) Notice(format string, a ...interface{}) (err error)         { return nil }
func (nullLogger) Warn(format string, a ...interface{}) (err error)           { return nil }
func (nullLogger) Fatal(format string, a ...interface{}) (err error)          { return nil }
func (nullLogger) Debugx(logID, format string, a ...interface{}) (err error)  { return nil }
func (nullLogger) Tracex(logID, format string, a ...interface{}) (err error)  { return nil }
func (nullLogger) Noticex(logID, format string, a ...interface{}) (err error) { return nil }
func (nullLogger) Warnx(logID, format string, a ...interface{}) (err error)   { return nil }
func (nullLogger) Fatalx(logID, format string, a ...interface{}) (err error)  { return nil }
func (nullLogger) Close()                                                     {}
func (nullLogger) Dropped(i int) uint64                                       { return 0 }

// Quiet replaces Gaea's global console logger by a sink.
func Quiet() { log.SetGlobalLogger(nullLogger{}) }
