// mkoverlay generates the `go build -overlay` file for one check from /repo's current
// working tree. Nothing in /repo is modified: injected files and rewritten copies live
// under /verif/.build/<check>/ and are mapped onto paths inside /repo.
//
//	mkoverlay -check c24 -out /verif/.build/c24
//
// Inputs:
//
//	engine/shim/<pkg>/*.go                     -> /repo/verifshim/<pkg>/  (always)
//	checks/<check>/inject/<gaea pkg dir>/*.go  -> /repo/<gaea pkg dir>/zz_verif_<name>
//	checks/<check>/overlay.json                -> rewrite rules (optional), shared injects
//	inject/<name>/<gaea pkg dir>/*.go          -> shared inject sets named in overlay.json
package main

import (
	"bytes"
	"encoding/json"
	"flag"
	"fmt"
	"go/ast"
	"go/parser"
	"go/printer"
	"go/token"
	"os"
	"path/filepath"
	"sort"
	"strconv"
	"strings"
)

const (
	repo  = "/repo"
	shimP = "github.com/XiaoMi/Gaea/verifshim/"
)

var verif = func() string {
	if r := os.Getenv("VERIF_ROOT"); r != "" {
		return r
	}
	return "/verif"
}()

// mutDir, if set, holds mutated copies of repo files: a deliberate property-breaking change
// is checked without touching /repo.
var mutDir string

// srcFor returns the file to read for a /repo path.
func srcFor(repoPath string) string {
	if mutDir != "" {
		rel, _ := filepath.Rel(repo, repoPath)
		m := filepath.Join(mutDir, rel)
		if _, err := os.Stat(m); err == nil {
			return m
		}
	}
	return repoPath
}

type rule struct {
	Files  []string `json:"files"`  // globs relative to /repo
	Sync   bool     `json:"sync"`   // sync -> vsync
	Atomic bool     `json:"atomic"` // sync/atomic -> vatomic
	Time   bool     `json:"time"`   // time.Now/... -> vclock
	Rand   bool     `json:"rand"`   // math/rand -> vrand
	Go     bool     `json:"go"`     // go f() -> vsched.Go
	Chan   bool     `json:"chan"`   // points before channel operations
	Access []string `json:"access"` // field names whose reads/writes become access points
	// AccessStructs: every field of these struct types (as declared in the rule's files, read
	// from the current tree) is an access point too — a field added later is covered automatically
	AccessStructs []string `json:"access_structs"`
}

type spec struct {
	Rewrite []rule   `json:"rewrite"`
	Shared  []string `json:"shared"`
}

func die(format string, a ...interface{}) {
	fmt.Fprintf(os.Stderr, "mkoverlay: "+format+"\n", a...)
	os.Exit(2)
}

func main() {
	check := flag.String("check", "", "check id (directory under checks/)")
	out := flag.String("out", "", "output directory")
	mut := flag.String("mutated", "", "directory holding mutated copies of /repo files (relative paths); they replace the originals")
	flag.Parse()
	mutDir = *mut
	if *check == "" || *out == "" {
		die("usage: mkoverlay -check <id> -out <dir>")
	}
	os.RemoveAll(filepath.Join(*out, "ov"))
	if err := os.MkdirAll(filepath.Join(*out, "ov"), 0o755); err != nil {
		die("%v", err)
	}
	replace := map[string]string{}

	// shims
	shims, _ := filepath.Glob(filepath.Join(verif, "engine/shim/*/*.go"))
	for _, f := range shims {
		rel, _ := filepath.Rel(filepath.Join(verif, "engine/shim"), f)
		replace[filepath.Join(repo, "verifshim", rel)] = f
	}

	var sp spec
	if b, err := os.ReadFile(filepath.Join(verif, "checks", *check, "overlay.json")); err == nil {
		if err := json.Unmarshal(b, &sp); err != nil {
			die("overlay.json: %v", err)
		}
	}

	injectDir := func(root, tag string) {
		filepath.Walk(root, func(p string, info os.FileInfo, err error) error {
			if err != nil || info.IsDir() || !strings.HasSuffix(p, ".go") {
				return nil
			}
			rel, _ := filepath.Rel(root, p)
			dir, base := filepath.Split(rel)
			replace[filepath.Join(repo, dir, "zz_verif_"+tag+"_"+base)] = p
			return nil
		})
	}
	for _, s := range sp.Shared {
		injectDir(filepath.Join(verif, "inject", s), s)
	}
	injectDir(filepath.Join(verif, "checks", *check, "inject"), *check)

	// mutated files replace the originals (rewrites below read the mutated copy)
	if mutDir != "" {
		filepath.Walk(mutDir, func(p string, info os.FileInfo, err error) error {
			if err != nil || info.IsDir() {
				return nil
			}
			rel, _ := filepath.Rel(mutDir, p)
			replace[filepath.Join(repo, rel)] = p
			return nil
		})
	}
	// rewrites
	n := 0
	for _, r := range sp.Rewrite {
		if len(r.AccessStructs) > 0 {
			want := map[string]bool{}
			for _, n := range r.AccessStructs {
				want[n] = true
			}
			have := map[string]bool{}
			for _, a := range r.Access {
				have[a] = true
			}
			for _, g := range r.Files {
				matches, _ := filepath.Glob(filepath.Join(repo, g))
				for _, src := range matches {
					for _, fn := range structFields(srcFor(src), want) {
						if !have[fn] {
							have[fn] = true
							r.Access = append(r.Access, fn)
						}
					}
				}
			}
		}
		for _, g := range r.Files {
			matches, _ := filepath.Glob(filepath.Join(repo, g))
			if len(matches) == 0 {
				die("rewrite glob %q matches nothing", g)
			}
			for _, src := range matches {
				if strings.HasSuffix(src, "_test.go") {
					continue
				}
				res, err := rewriteFile(srcFor(src), r)
				if err != nil {
					die("%s: %v", src, err)
				}
				n++
				dst := filepath.Join(*out, "ov", strconv.Itoa(n)+"_"+filepath.Base(src))
				if err := os.WriteFile(dst, res, 0o644); err != nil {
					die("%v", err)
				}
				replace[src] = dst
			}
		}
	}

	keys := make([]string, 0, len(replace))
	for k := range replace {
		keys = append(keys, k)
	}
	sort.Strings(keys)
	ordered := map[string]string{}
	for _, k := range keys {
		ordered[k] = replace[k]
	}
	b, _ := json.MarshalIndent(map[string]interface{}{"Replace": ordered}, "", " ")
	if err := os.WriteFile(filepath.Join(*out, "overlay.json"), b, 0o644); err != nil {
		die("%v", err)
	}
}

// structFields returns the field names of the wanted struct types declared in a file.
func structFields(path string, want map[string]bool) []string {
	fset := token.NewFileSet()
	f, err := parser.ParseFile(fset, path, nil, 0)
	if err != nil {
		die("%s: %v", path, err)
	}
	var out []string
	for _, d := range f.Decls {
		gd, ok := d.(*ast.GenDecl)
		if !ok || gd.Tok != token.TYPE {
			continue
		}
		for _, sp := range gd.Specs {
			ts := sp.(*ast.TypeSpec)
			st, ok := ts.Type.(*ast.StructType)
			if !ok || !want[ts.Name.Name] {
				continue
			}
			for _, fl := range st.Fields.List {
				for _, id := range fl.Names {
					out = append(out, id.Name)
				}
			}
		}
	}
	return out
}

// ---------------------------------------------------------------------------------------

type rewriter struct {
	r        rule
	fset     *token.FileSet
	file     *ast.File
	timeName string // local name of package time ("" if not imported)
	need     map[string]bool
	access   map[string]bool
}

var timeFuncs = map[string]bool{"Now": true, "Since": true, "Until": true, "Sleep": true, "After": true,
	"AfterFunc": true, "NewTicker": true, "NewTimer": true, "Tick": true, "Ticker": true, "Timer": true}

func rewriteFile(path string, r rule) ([]byte, error) {
	fset := token.NewFileSet()
	f, err := parser.ParseFile(fset, path, nil, parser.ParseComments)
	if err != nil {
		return nil, err
	}
	rw := &rewriter{r: r, fset: fset, file: f, need: map[string]bool{}, access: map[string]bool{}}
	for _, a := range r.Access {
		rw.access[a] = true
	}
	// imports
	for _, im := range f.Imports {
		p, _ := strconv.Unquote(im.Path.Value)
		local := ""
		if im.Name != nil {
			local = im.Name.Name
		}
		switch {
		case p == "sync" && r.Sync:
			im.Path.Value = strconv.Quote(shimP + "vsync")
			if local == "" {
				im.Name = ast.NewIdent("sync")
			}
		case p == "sync/atomic" && r.Atomic:
			im.Path.Value = strconv.Quote(shimP + "vatomic")
			if local == "" {
				im.Name = ast.NewIdent("atomic")
			}
		case p == "math/rand" && r.Rand:
			im.Path.Value = strconv.Quote(shimP + "vrand")
			if local == "" {
				im.Name = ast.NewIdent("rand")
			}
		case p == "time":
			rw.timeName = "time"
			if local != "" {
				rw.timeName = local
			}
		}
	}
	// selector rewrites (time.X -> vclock.X)
	timeStillUsed := false
	if r.Time && rw.timeName != "" {
		ast.Inspect(f, func(n ast.Node) bool {
			se, ok := n.(*ast.SelectorExpr)
			if !ok {
				return true
			}
			id, ok := se.X.(*ast.Ident)
			if !ok || id.Name != rw.timeName || id.Obj != nil {
				return true
			}
			if timeFuncs[se.Sel.Name] {
				id.Name = "vclock"
				rw.need["vclock"] = true
			} else {
				timeStillUsed = true
			}
			return true
		})
		if !timeStillUsed {
			// keep the import used
			f.Decls = append(f.Decls, &ast.GenDecl{Tok: token.VAR, Specs: []ast.Spec{&ast.ValueSpec{
				Names: []*ast.Ident{ast.NewIdent("_")}, Values: []ast.Expr{&ast.SelectorExpr{X: ast.NewIdent(rw.timeName), Sel: ast.NewIdent("Second")}}}}})
		}
	}
	// context.WithTimeout / WithDeadline arm real timers: under rule.Time they go through vclock
	if r.Time {
		ctxName := ""
		for _, im := range f.Imports {
			if p, _ := strconv.Unquote(im.Path.Value); p == "context" {
				ctxName = "context"
				if im.Name != nil {
					ctxName = im.Name.Name
				}
			}
		}
		if ctxName != "" {
			ast.Inspect(f, func(n ast.Node) bool {
				se, ok := n.(*ast.SelectorExpr)
				if !ok {
					return true
				}
				id, ok := se.X.(*ast.Ident)
				if ok && id.Name == ctxName && id.Obj == nil && (se.Sel.Name == "WithTimeout" || se.Sel.Name == "WithDeadline") {
					id.Name = "vclock"
					rw.need["vclock"] = true
				}
				return true
			})
		}
	}
	// statement-level rewrites
	if r.Go || r.Chan || len(rw.access) > 0 {
		for _, d := range f.Decls {
			if fd, ok := d.(*ast.FuncDecl); ok && fd.Body != nil {
				rw.block(fd.Body)
			}
		}
		// function literals at package level (var x = func(){...}) are rare; ignored.
	}
	if r.Chan {
		// close(ch) -> vsched.Close(ch)
		ast.Inspect(f, func(n ast.Node) bool {
			ce, ok := n.(*ast.CallExpr)
			if !ok {
				return true
			}
			if id, ok := ce.Fun.(*ast.Ident); ok && id.Name == "close" && id.Obj == nil && len(ce.Args) == 1 {
				ce.Fun = &ast.SelectorExpr{X: ast.NewIdent("vsched"), Sel: ast.NewIdent("Close")}
				rw.need["vsched"] = true
			}
			return true
		})
	}
	// add imports
	for _, name := range []string{"vsched", "vclock"} {
		if rw.need[name] {
			addImport(f, name, shimP+name)
		}
	}
	var buf bytes.Buffer
	buf.WriteString("//go:build verif\n\n")
	// drop position info of comments problems: print with original fset
	if err := (&printer.Config{Mode: printer.UseSpaces | printer.TabIndent, Tabwidth: 8}).Fprint(&buf, fset, f); err != nil {
		return nil, err
	}
	return buf.Bytes(), nil
}

func addImport(f *ast.File, name, path string) {
	spec := &ast.ImportSpec{Name: ast.NewIdent(name), Path: &ast.BasicLit{Kind: token.STRING, Value: strconv.Quote(path)}}
	for _, d := range f.Decls {
		if gd, ok := d.(*ast.GenDecl); ok && gd.Tok == token.IMPORT {
			// the new spec takes the end position of the last one: without a position go/printer
			// emits a comment that follows the import block in the middle of the new spec
			if n := len(gd.Specs); n > 0 {
				pos := gd.Specs[n-1].End()
				spec.Name.NamePos, spec.Path.ValuePos = pos, pos
			}
			gd.Specs = append(gd.Specs, spec)
			if !gd.Lparen.IsValid() {
				gd.Lparen = gd.Pos()
				gd.Rparen = gd.End()
			}
			f.Imports = append(f.Imports, spec)
			return
		}
	}
	gd := &ast.GenDecl{Tok: token.IMPORT, Specs: []ast.Spec{spec}}
	f.Decls = append([]ast.Decl{gd}, f.Decls...)
}

func vcall(fn string, args ...ast.Expr) *ast.CallExpr {
	return &ast.CallExpr{Fun: &ast.SelectorExpr{X: ast.NewIdent("vsched"), Sel: ast.NewIdent(fn)}, Args: args}
}

func (rw *rewriter) exprString(e ast.Expr) string {
	var b bytes.Buffer
	printer.Fprint(&b, rw.fset, e)
	return b.String()
}

// block rewrites the statements of a block in place (recursively).
func (rw *rewriter) block(b *ast.BlockStmt) {
	if b == nil {
		return
	}
	b.List = rw.stmts(b.List)
}

func (rw *rewriter) stmts(list []ast.Stmt) []ast.Stmt {
	var out []ast.Stmt
	for _, s := range list {
		pre, repl := rw.stmt(s)
		out = append(out, pre...)
		out = append(out, repl)
	}
	return out
}

// stmt returns statements to insert before s and the (possibly replaced) statement.
func (rw *rewriter) stmt(s ast.Stmt) (pre []ast.Stmt, repl ast.Stmt) {
	repl = s
	switch st := s.(type) {
	case *ast.BlockStmt:
		rw.block(st)
	case *ast.IfStmt:
		if st.Init != nil {
			p, r := rw.stmt(st.Init)
			pre = append(pre, p...)
			st.Init = r
		}
		pre = append(pre, rw.exprPoints(st.Cond)...)
		rw.block(st.Body)
		if st.Else != nil {
			_, r := rw.stmtNoPre(st.Else)
			st.Else = r
		}
	case *ast.ForStmt:
		// points for the loop condition are placed at the top of the body (approximation:
		// condition is evaluated before each iteration, the point comes right after)
		if st.Cond != nil {
			cp := rw.exprPoints(st.Cond)
			pre = append(pre, cp...)
		}
		rw.block(st.Body)
		rw.funcLitsIn(st.Cond)
	case *ast.RangeStmt:
		if rw.r.Chan {
			// for x := range ch  — cannot know statically whether X is a channel; leave.
		}
		rw.block(st.Body)
	case *ast.SwitchStmt:
		if st.Init != nil {
			p, r := rw.stmt(st.Init)
			pre = append(pre, p...)
			st.Init = r
		}
		if st.Tag != nil {
			pre = append(pre, rw.exprPoints(st.Tag)...)
		}
		for _, c := range st.Body.List {
			cc := c.(*ast.CaseClause)
			cc.Body = rw.stmts(cc.Body)
		}
	case *ast.TypeSwitchStmt:
		for _, c := range st.Body.List {
			cc := c.(*ast.CaseClause)
			cc.Body = rw.stmts(cc.Body)
		}
	case *ast.SelectStmt:
		// rewrite bodies first
		for _, c := range st.Body.List {
			cc := c.(*ast.CommClause)
			cc.Body = rw.stmts(cc.Body)
		}
		if rw.r.Chan {
			// Under the scheduler a select with several ready cases must not be left to the
			// runtime's random choice: vsched.SelectIdx blocks until a case is ready (or takes
			// default), lets the explorer choose among the ready ones, and the chosen
			// communication is then executed as an ordinary (non-blocking, because ready)
			// statement. Unarmed, the original select runs.
			//   if vsched.Armed() { switch vsched.SelectIdx(hasDefault, cases...) { case i: comm; body ... default: defaultBody } } else { select {...} }
			hasDefault := "false"
			var cases []ast.Expr
			var clauses []ast.Stmt
			idx := 0
			supported := true
			for _, c := range st.Body.List {
				cc := c.(*ast.CommClause)
				if cc.Comm == nil {
					hasDefault = "true"
					clauses = append(clauses, &ast.CaseClause{List: nil, Body: cc.Body})
					continue
				}
				send, ch := commChan(cc.Comm)
				if ch == nil {
					supported = false
					break
				}
				sv := "false"
				if send {
					sv = "true"
				}
				cases = append(cases, &ast.CompositeLit{Type: &ast.SelectorExpr{X: ast.NewIdent("vsched"), Sel: ast.NewIdent("Case")},
					Elts: []ast.Expr{&ast.KeyValueExpr{Key: ast.NewIdent("Send"), Value: ast.NewIdent(sv)}, &ast.KeyValueExpr{Key: ast.NewIdent("Ch"), Value: ch}}})
				body := append([]ast.Stmt{cc.Comm}, cc.Body...)
				// `case x := <-ch:` with x unused in the body is legal in a select but an unused
				// variable in a switch clause: reference it
				if as, ok := cc.Comm.(*ast.AssignStmt); ok && as.Tok == token.DEFINE {
					for _, l := range as.Lhs {
						if id, ok := l.(*ast.Ident); ok && id.Name != "_" {
							body = append([]ast.Stmt{cc.Comm, &ast.AssignStmt{Lhs: []ast.Expr{ast.NewIdent("_")}, Tok: token.ASSIGN, Rhs: []ast.Expr{ast.NewIdent(id.Name)}}}, cc.Body...)
							break
						}
					}
				}
				clauses = append(clauses, &ast.CaseClause{List: []ast.Expr{&ast.BasicLit{Kind: token.INT, Value: strconv.Itoa(idx)}}, Body: body})
				idx++
			}
			rw.need["vsched"] = true
			if supported {
				if hasDefault == "false" {
					// keeps a select that ends its function a terminating statement
					clauses = append(clauses, &ast.CaseClause{List: nil, Body: []ast.Stmt{&ast.ExprStmt{X: &ast.CallExpr{Fun: ast.NewIdent("panic"),
						Args: []ast.Expr{&ast.BasicLit{Kind: token.STRING, Value: strconv.Quote("vsched: SelectIdx returned no case")}}}}}})
				}
				args := append([]ast.Expr{ast.NewIdent(hasDefault)}, cases...)
				sw := &ast.SwitchStmt{Tag: vcall("SelectIdx", args...), Body: &ast.BlockStmt{List: clauses}}
				return nil, &ast.IfStmt{Cond: vcall("Armed"), Body: &ast.BlockStmt{List: []ast.Stmt{sw}}, Else: &ast.BlockStmt{List: []ast.Stmt{st}}}
			}
			args := append([]ast.Expr{ast.NewIdent(hasDefault)}, cases...)
			pre = append(pre, &ast.ExprStmt{X: vcall("Select", args...)})
		}
	case *ast.LabeledStmt:
		p, r := rw.stmt(st.Stmt)
		st.Stmt = r
		if len(p) > 0 {
			// keep the label on the first inserted statement's block
			blk := &ast.BlockStmt{List: append(p, r)}
			if _, isLoop := r.(*ast.ForStmt); isLoop {
				// cannot wrap a labelled loop (break/continue labels); put points before the label
				st.Stmt = r
				return p, st
			}
			st.Stmt = blk
		}
	case *ast.GoStmt:
		rw.funcLitsIn(st.Call)
		if rw.r.Go {
			rw.need["vsched"] = true
			var bind []ast.Stmt
			call := st.Call
			for i, a := range call.Args {
				switch x := a.(type) {
				case *ast.BasicLit:
					continue
				case *ast.Ident:
					if x.Name == "nil" || x.Name == "true" || x.Name == "false" {
						continue
					}
				}
				name := fmt.Sprintf("verifArg%d", i)
				bind = append(bind, &ast.AssignStmt{Lhs: []ast.Expr{ast.NewIdent(name)}, Tok: token.DEFINE, Rhs: []ast.Expr{a}})
				call.Args[i] = ast.NewIdent(name)
			}
			lit := &ast.FuncLit{Type: &ast.FuncType{Params: &ast.FieldList{}}, Body: &ast.BlockStmt{List: []ast.Stmt{&ast.ExprStmt{X: call}}}}
			goCall := &ast.ExprStmt{X: vcall("Go", lit)}
			if len(bind) == 0 {
				return nil, goCall
			}
			return nil, &ast.BlockStmt{List: append(bind, goCall)}
		}
	case *ast.SendStmt:
		rw.funcLitsIn(st.Value)
		if rw.r.Chan {
			rw.need["vsched"] = true
			pre = append(pre, &ast.ExprStmt{X: vcall("Send", st.Chan)})
		}
		pre = append(pre, rw.exprPoints(st.Value)...)
	case *ast.ExprStmt:
		pre = append(pre, rw.exprPoints(st.X)...)
		rw.funcLitsIn(st.X)
	case *ast.AssignStmt:
		for _, e := range st.Rhs {
			pre = append(pre, rw.exprPoints(e)...)
			rw.funcLitsIn(e)
		}
		for _, e := range st.Lhs {
			pre = append(pre, rw.writePoints(e)...)
		}
	case *ast.IncDecStmt:
		pre = append(pre, rw.writePoints(st.X)...)
	case *ast.ReturnStmt:
		for _, e := range st.Results {
			pre = append(pre, rw.exprPoints(e)...)
			rw.funcLitsIn(e)
		}
	case *ast.DeferStmt:
		rw.funcLitsIn(st.Call)
	case *ast.DeclStmt:
		if gd, ok := st.Decl.(*ast.GenDecl); ok {
			for _, sp := range gd.Specs {
				if vs, ok := sp.(*ast.ValueSpec); ok {
					for _, e := range vs.Values {
						pre = append(pre, rw.exprPoints(e)...)
						rw.funcLitsIn(e)
					}
				}
			}
		}
	}
	return pre, repl
}

func (rw *rewriter) stmtNoPre(s ast.Stmt) ([]ast.Stmt, ast.Stmt) {
	p, r := rw.stmt(s)
	if len(p) == 0 {
		return nil, r
	}
	return nil, &ast.BlockStmt{List: append(p, r)}
}

// funcLitsIn rewrites the bodies of function literals inside an expression.
func (rw *rewriter) funcLitsIn(e ast.Node) {
	if e == nil {
		return
	}
	ast.Inspect(e, func(n ast.Node) bool {
		if fl, ok := n.(*ast.FuncLit); ok {
			rw.block(fl.Body)
			return false
		}
		return true
	})
}

func commChan(s ast.Stmt) (send bool, ch ast.Expr) {
	switch c := s.(type) {
	case *ast.SendStmt:
		return true, c.Chan
	case *ast.ExprStmt:
		if u, ok := c.X.(*ast.UnaryExpr); ok && u.Op == token.ARROW {
			return false, u.X
		}
	case *ast.AssignStmt:
		if len(c.Rhs) == 1 {
			if u, ok := c.Rhs[0].(*ast.UnaryExpr); ok && u.Op == token.ARROW {
				return false, u.X
			}
		}
	}
	return false, nil
}

// exprPoints returns the points needed before evaluating e: channel receives and reads of
// instrumented fields (function literals are not entered).
func (rw *rewriter) exprPoints(e ast.Expr) []ast.Stmt {
	if e == nil {
		return nil
	}
	var out []ast.Stmt
	ast.Inspect(e, func(n ast.Node) bool {
		switch x := n.(type) {
		case *ast.FuncLit:
			return false
		case *ast.UnaryExpr:
			if x.Op == token.ARROW && rw.r.Chan {
				rw.need["vsched"] = true
				out = append(out, &ast.ExprStmt{X: vcall("Recv", x.X)})
			}
		case *ast.SelectorExpr:
			if rw.access[x.Sel.Name] {
				rw.need["vsched"] = true
				out = append(out, &ast.ExprStmt{X: vcall("Read", &ast.UnaryExpr{Op: token.AND, X: x},
					&ast.BasicLit{Kind: token.STRING, Value: strconv.Quote(x.Sel.Name)})})
			}
		}
		return true
	})
	return out
}

func (rw *rewriter) writePoints(e ast.Expr) []ast.Stmt {
	var out []ast.Stmt
	switch x := e.(type) {
	case *ast.SelectorExpr:
		if rw.access[x.Sel.Name] {
			rw.need["vsched"] = true
			out = append(out, &ast.ExprStmt{X: vcall("Write", &ast.UnaryExpr{Op: token.AND, X: x},
				&ast.BasicLit{Kind: token.STRING, Value: strconv.Quote(x.Sel.Name)})})
		}
		out = append(out, rw.exprPoints(x.X)...)
	case *ast.IndexExpr:
		// a[i] = v where a is an instrumented field: treat as a write of the field
		if se, ok := x.X.(*ast.SelectorExpr); ok && rw.access[se.Sel.Name] {
			rw.need["vsched"] = true
			out = append(out, &ast.ExprStmt{X: vcall("Write", &ast.UnaryExpr{Op: token.AND, X: se},
				&ast.BasicLit{Kind: token.STRING, Value: strconv.Quote(se.Sel.Name)})})
		} else {
			out = append(out, rw.exprPoints(x.X)...)
		}
		out = append(out, rw.exprPoints(x.Index)...)
	}
	return out
}
