// Package vx runs vsched scenarios: determinism self-test, preemption-bounded exhaustive
// exploration (sharded over worker processes), 5x replay of every violation before it is
// believed, witness files, and model_checking evidence counters.
package vx

import (
	"encoding/json"
	"fmt"
	"os"
	"os/exec"
	"runtime"
	"sort"
	"strconv"
	"strings"
	"sync"
	"time"

	"github.com/XiaoMi/Gaea/verifshim/vsched"

	"verif/engine/ev"
)

// Scenario is one closed multi-thread program over fresh real objects.
type Scenario struct {
	Name   string
	Bound  int
	Spec   interface{} // serialisable description (goes into witnesses / samples)
	Before func()      // build fresh objects, outside the scheduler
	Body   func()      // thread 0 under the scheduler
	// Classify inspects the finished execution (and harness state filled by Body): kind ""
	// = fine; detail is human-readable; norm is the stable part of detail used to
	// deduplicate and to match known findings; outcome is the observable result of the
	// execution (distinct outcomes are counted: one outcome from many executions means
	// nothing collided).
	Classify func(x *vsched.Exec) (kind, detail, norm, outcome string)
	Features map[string]string // extra features added to every witness
	MaxSteps int
}

type Case struct {
	Scenario string      `json:"scenario"`
	Spec     interface{} `json:"spec"`
	Choices  []int       `json:"choices"`
}

type shardResult struct {
	Scenario  string           `json:"scenario"`
	Execs     int64            `json:"execs"`
	Steps     int64            `json:"steps"`
	Points    int64            `json:"points"`
	MaxDepth  int              `json:"max_depth"`
	Capped    bool             `json:"capped"`
	Deadlocks int64            `json:"deadlocks"`
	Outcomes  []string         `json:"outcomes"`
	Viol      []shardViolation `json:"viol"`
	ViolExecs int64            `json:"viol_execs"`
	Error     string           `json:"error"`
}

type shardViolation struct {
	Kind, Detail, Norm string
	Choices            []int
	Preempted          int
}

// DefaultClassify covers what every scenario shares: panic, deadlock, horizon, races.
func DefaultClassify(x *vsched.Exec) (kind, detail, norm string) {
	switch {
	case x.Panic != nil:
		d := fmt.Sprintf("%v", x.Panic)
		return "panic", fmt.Sprintf("%s @ %s [%s]", d, x.PanicAt, x.PanicWho), d
	case x.Deadlock:
		var ks []string
		for _, b := range x.Blocked {
			if i := strings.Index(b, ":"); i > 0 {
				b = b[i+1:]
			}
			if i := strings.Index(b, "("); i > 0 {
				b = b[:i]
			}
			ks = append(ks, b)
		}
		sort.Strings(ks)
		return "deadlock", strings.Join(x.Blocked, " "), strings.Join(ks, ",")
	case x.Horizon:
		return "horizon", "step horizon reached (livelock or too small horizon)", "horizon"
	case len(x.Races) > 0:
		ra := x.Races[0]
		return "race", fmt.Sprintf("%s: %s / %s", ra.Label, ra.A, ra.B), ra.Label
	}
	return "", "", ""
}

func exploreShard(sc *Scenario, k, n int, deadline time.Time) *shardResult {
	res := &shardResult{Scenario: sc.Name}
	outcomes := map[string]bool{}
	seen := map[string]bool{}
	e := &vsched.Explorer{Bound: sc.Bound, Before: sc.Before, Body: sc.Body, MaxSteps: sc.MaxSteps, Deadline: deadline, ShardK: k, ShardN: n}
	e.Check = func(x *vsched.Exec) {
		kind, detail, norm, outcome := sc.Classify(x)
		if len(outcomes) < 5000 {
			outcomes[outcome+"|"+kind+"|"+norm] = true
		}
		if kind == "" {
			return
		}
		res.ViolExecs++
		key := kind + "|" + norm
		if seen[key] {
			return
		}
		seen[key] = true
		choices := append([]int{}, x.Choices...)
		for i := 0; i < 5; i++ {
			if sc.Before != nil {
				sc.Before()
			}
			y := vsched.Run(vsched.Options{Prefix: choices, MaxSteps: sc.MaxSteps}, sc.Body)
			k2, _, n2, _ := sc.Classify(y)
			if k2 != kind || n2 != norm {
				res.Error = fmt.Sprintf("scenario %s: violation %s/%s did not reproduce on replay %d (got %s/%s)", sc.Name, kind, norm, i, k2, n2)
				return
			}
		}
		res.Viol = append(res.Viol, shardViolation{Kind: kind, Detail: detail, Norm: norm, Choices: choices, Preempted: x.Preempted})
	}
	e.Explore()
	res.Execs, res.Steps, res.Points, res.MaxDepth, res.Capped, res.Deadlocks = e.Stats.Execs, e.Stats.Transitions, e.Stats.Points, e.Stats.MaxDepth, e.Stats.Capped, e.Stats.Deadlocks
	if e.Stats.Diverged != "" {
		res.Error = "replay divergence: " + e.Stats.Diverged
	}
	for o := range outcomes {
		res.Outcomes = append(res.Outcomes, o)
	}
	return res
}

// selfTest replays the default schedule twice with tracing and compares.
func selfTest(sc *Scenario) string {
	run := func(prefix []int) (*vsched.Exec, string) {
		if sc.Before != nil {
			sc.Before()
		}
		x := vsched.Run(vsched.Options{Prefix: prefix, Trace: true, MaxSteps: sc.MaxSteps}, sc.Body)
		_, _, n, o := sc.Classify(x)
		return x, n + "|" + o
	}
	x1, o1 := run(nil)
	x2, o2 := run(x1.Choices)
	if strings.Join(x1.Log, "|") != strings.Join(x2.Log, "|") || o1 != o2 {
		return fmt.Sprintf("scenario %s: the same schedule replayed twice gave different observations", sc.Name)
	}
	return ""
}

// Main is the whole life of a vsched-based check.
func Main(r *ev.Run, scs []*Scenario, assumptions ...string) {
	byName := map[string]*Scenario{}
	for _, s := range scs {
		byName[s.Name] = s
	}
	// child mode
	if child := os.Getenv("VX_CHILD"); child != "" {
		sc := byName[child]
		k, _ := strconv.Atoi(os.Getenv("VX_K"))
		n, _ := strconv.Atoi(os.Getenv("VX_N"))
		dl, _ := strconv.ParseInt(os.Getenv("VX_DEADLINE"), 10, 64)
		res := exploreShard(sc, k, n, time.Unix(dl, 0))
		b, _ := json.Marshal(res)
		os.WriteFile(os.Getenv("VX_OUT"), b, 0o644)
		os.Exit(0)
	}
	// replay mode
	var rc Case
	if r.ReplayCase(&rc) {
		sc := byName[rc.Scenario]
		if sc == nil {
			ev.Fatalf("replay: unknown scenario %q", rc.Scenario)
		}
		if sc.Before != nil {
			sc.Before()
		}
		x := vsched.Replay(rc.Choices, sc.MaxSteps, sc.Body)
		kind, detail, norm, outcome := sc.Classify(x)
		fmt.Printf("replay scenario=%s choices=%v\n", sc.Name, rc.Choices)
		for _, l := range x.Log {
			fmt.Println("  ", l)
		}
		fmt.Printf("result: kind=%q detail=%q outcome=%q\n", kind, detail, outcome)
		if kind != "" {
			r.Violation(ev.Witness{Summary: sc.Name + ": " + kind + ": " + detail, Features: features(sc, kind, norm), Case: rc})
		}
		r.Finish()
	}

	for _, sc := range scs {
		if msg := selfTest(sc); msg != "" {
			ev.Fatalf("%s", msg)
		}
	}
	// shard plan: every scenario gets n shards; workers = cores
	workers := runtime.NumCPU()
	if v := os.Getenv("VX_WORKERS"); v != "" {
		workers, _ = strconv.Atoi(v)
	}
	nShard := 1
	if len(scs) < workers {
		nShard = (workers + len(scs) - 1) / len(scs)
	}
	if r.Thorough() {
		nShard = workers
	}
	type job struct {
		sc   *Scenario
		k, n int
	}
	var jobs []job
	for _, sc := range scs {
		for k := 0; k < nShard; k++ {
			jobs = append(jobs, job{sc, k, nShard})
		}
	}
	deadline := time.Now().Add(r.Remaining() - 5*time.Second)
	self := os.Getenv("VERIF_CHECK_BIN")
	if self == "" {
		self, _ = os.Executable()
	}
	tmp, err := os.MkdirTemp(os.Getenv("VERIF_BUILD_DIR"), "vx")
	if err != nil {
		ev.Fatalf("%v", err)
	}
	defer os.RemoveAll(tmp)
	results := make([]*shardResult, len(jobs))
	var wg sync.WaitGroup
	sem := make(chan struct{}, workers)
	for i, j := range jobs {
		wg.Add(1)
		go func(i int, j job) {
			defer wg.Done()
			sem <- struct{}{}
			defer func() { <-sem }()
			out := fmt.Sprintf("%s/%d.json", tmp, i)
			cmd := exec.Command(self, r.Tier)
			cmd.Env = append(os.Environ(), "VX_CHILD="+j.sc.Name, "VX_K="+strconv.Itoa(j.k), "VX_N="+strconv.Itoa(j.n),
				"VX_OUT="+out, "VX_DEADLINE="+strconv.FormatInt(deadline.Unix(), 10), "GOMAXPROCS=2")
			cmd.Stdout = nil
			cmd.Stderr = os.Stderr
			err := cmd.Run()
			b, rerr := os.ReadFile(out)
			res := &shardResult{Scenario: j.sc.Name}
			if rerr != nil || json.Unmarshal(b, res) != nil {
				res.Error = fmt.Sprintf("worker for %s shard %d/%d failed: %v", j.sc.Name, j.k, j.n, err)
			}
			results[i] = res
		}(i, j)
	}
	wg.Wait()

	var execs, steps, points int64
	per := map[string]map[string]interface{}{}
	reported := map[string]bool{}
	for i, res := range results {
		if res.Error != "" {
			ev.Fatalf("%s", res.Error)
		}
		sc := jobs[i].sc
		execs += res.Execs
		steps += res.Steps
		points += res.Points
		m := per[sc.Name]
		if m == nil {
			m = map[string]interface{}{"executions": int64(0), "steps": int64(0), "max_choice_depth": 0, "complete": true, "bound": sc.Bound, "violating_executions": int64(0)}
			per[sc.Name] = m
		}
		m["executions"] = m["executions"].(int64) + res.Execs
		m["steps"] = m["steps"].(int64) + res.Steps
		m["violating_executions"] = m["violating_executions"].(int64) + res.ViolExecs
		if res.MaxDepth > m["max_choice_depth"].(int) {
			m["max_choice_depth"] = res.MaxDepth
		}
		if res.Capped {
			m["complete"] = false
			r.Capped(fmt.Sprintf("scenario %s: time share used up (bound %d not completed)", sc.Name, sc.Bound))
		}
		for _, o := range res.Outcomes {
			r.Distinct("nontrivial", sc.Name+"|"+o)
			r.Distinct("outcomes_"+sc.Name, o)
		}
		for _, v := range res.Viol {
			key := sc.Name + "|" + v.Kind + "|" + v.Norm
			if reported[key] {
				continue
			}
			reported[key] = true
			r.Violation(ev.Witness{Summary: fmt.Sprintf("%s: %s: %s (preemptions=%d)", sc.Name, v.Kind, v.Detail, v.Preempted),
				Features: features(sc, v.Kind, v.Norm), Case: Case{Scenario: sc.Name, Spec: sc.Spec, Choices: v.Choices}})
		}
	}
	// vacuity: a multi-thread scenario that produced a single outcome did not collide
	for _, sc := range scs {
		m := per[sc.Name]
		m["distinct_outcomes"] = r.DistinctN("outcomes_" + sc.Name)
	}
	for i, sc := range scs {
		if i < 4 {
			r.Sample(map[string]interface{}{"scenario": sc.Name, "spec": sc.Spec, "bound": sc.Bound})
		}
	}
	r.Set("states", points)
	r.Set("transitions", steps)
	r.Set("traces_validated_against_impl", execs)
	r.Set("executions", execs)
	r.Set("scenarios", per)
	r.Set("explanation", "stateless search: states = scheduling decision nodes visited in the schedule trees; transitions = scheduling steps executed on the real (overlay-instrumented) implementation; every explored trace IS an execution of the implementation, so traces_validated_against_impl = executions; per scenario: preemption bound, executions, whether the bound was completed, distinct observed outcomes")
	r.Assume("interleavings are sequentially consistent at hooked operations (mutex, atomics, channel ops, go, instrumented field accesses); preemption inside unhooked straight-line code is not explored")
	for _, a := range assumptions {
		r.Assume(a)
	}
	r.Finish()
}

func features(sc *Scenario, kind, norm string) map[string]string {
	f := map[string]string{"scenario": sc.Name, "kind": kind, "detail": norm}
	for k, v := range sc.Features {
		f[k] = v
	}
	return f
}
