// Package ev is the common run-time of every check: tier/seed handling, coverage
// counters, witness recording, known-finding matching, evidence and exit code.
//
// Contract (MANIFEST): exit 0 = held on everything explored (known findings are printed
// as KNOWN-FINDING lines), exit 1 + "VIOLATION property=<id> replay=<path>" = a violation
// that known_findings.json does not list, exit 2 = engine error (never a verdict).
package ev

import (
	"crypto/sha1"
	"encoding/binary"
	"encoding/hex"
	"encoding/json"
	"fmt"
	"os"
	"path/filepath"
	"regexp"
	"sort"
	"strconv"
	"strings"
	"sync"
	"time"
)

// Root is the verification workspace (VERIF_ROOT is set by ./check; default /verif).
var Root = func() string {
	if r := os.Getenv("VERIF_ROOT"); r != "" {
		return r
	}
	return "/verif"
}()

// Witness is one violating case. Features are the structured description used to match
// known-finding signatures; Case is whatever the check needs to replay it.
type Witness struct {
	Property string            `json:"property"`
	Summary  string            `json:"summary"`
	Features map[string]string `json:"features"`
	Case     interface{}       `json:"case"`
}

type finding struct {
	Property string            `json:"property"`
	ID       string            `json:"id"`
	What     string            `json:"what"`
	Match    map[string]string `json:"match"`
	res      map[string]*regexp.Regexp
}

type fixedEntry struct {
	Property string `json:"property"`
	Commit   string `json:"commit"`
	What     string `json:"what"`
}

type findingsFile struct {
	Findings []finding    `json:"findings"`
	Fixed    []fixedEntry `json:"fixed"`
}

type Run struct {
	ID    string
	Tier  string
	Seed  int64
	Level string

	mu          sync.Mutex
	start       time.Time
	deadline    time.Time
	cov         map[string]interface{}
	counters    map[string]int64
	distinct    map[string]map[uint64]struct{} // 64-bit hashes of the keys (sets reach 10^8 entries in thorough tiers)
	samples     []interface{}
	maxSamples  int
	assumptions []string
	unknown     []Witness
	unknownSigs map[string]int
	knownHits   map[string]int
	knownEx     map[string]string
	findings    []finding
	capped      bool
	replayPath  string
	violTotal   int
}

// Start parses the command line (quick|thorough, --replay f) and environment
// (VERIF_TIER, VERIF_SEED) and loads known_findings.json.
func Start(id, level string) *Run {
	r := &Run{ID: id, Level: level, Tier: "quick", start: time.Now(),
		cov: map[string]interface{}{}, counters: map[string]int64{},
		distinct: map[string]map[uint64]struct{}{}, maxSamples: 8,
		unknownSigs: map[string]int{}, knownHits: map[string]int{}, knownEx: map[string]string{}}
	if t := os.Getenv("VERIF_TIER"); t == "thorough" || t == "quick" {
		r.Tier = t
	}
	if s := os.Getenv("VERIF_SEED"); s != "" {
		if v, err := strconv.ParseInt(s, 10, 64); err == nil {
			r.Seed = v
		}
	}
	args := os.Args[1:]
	for i := 0; i < len(args); i++ {
		switch args[i] {
		case "quick", "thorough":
			r.Tier = args[i]
		case "--replay":
			if i+1 < len(args) {
				r.replayPath = args[i+1]
				i++
			}
		}
	}
	budget := 150 * time.Second
	if r.Tier == "thorough" {
		budget = 25 * time.Minute
	}
	if s := os.Getenv("VERIF_BUDGET_S"); s != "" {
		if v, err := strconv.Atoi(s); err == nil {
			budget = time.Duration(v) * time.Second
		}
	}
	r.deadline = r.start.Add(budget)
	r.loadFindings()
	return r
}

func (r *Run) loadFindings() {
	b, err := os.ReadFile(filepath.Join(Root, "known_findings.json"))
	if err != nil {
		return
	}
	var ff findingsFile
	if err := json.Unmarshal(b, &ff); err != nil {
		Fatalf("known_findings.json: %v", err)
	}
	for _, f := range ff.Findings {
		if f.Property != r.ID {
			continue
		}
		f.res = map[string]*regexp.Regexp{}
		for k, v := range f.Match {
			re, err := regexp.Compile("^(?:" + v + ")$")
			if err != nil {
				Fatalf("known_findings.json %s: %v", f.ID, err)
			}
			f.res[k] = re
		}
		r.findings = append(r.findings, f)
	}
}

// Fatalf reports an engine error: exit 2, never a verdict.
func Fatalf(format string, a ...interface{}) {
	fmt.Fprintf(os.Stderr, "ENGINE-ERROR: "+format+"\n", a...)
	os.Exit(2)
}

func (r *Run) Quick() bool    { return r.Tier == "quick" }
func (r *Run) Thorough() bool { return r.Tier == "thorough" }

// Pick returns q in the quick tier and t in the thorough tier.
func (r *Run) Pick(q, t int) int {
	if r.Quick() {
		return q
	}
	return t
}

// TimeUp reports whether the internal budget is used up; a check that stops because of it
// must call Capped so that the evidence says exhaustive:false.
func (r *Run) TimeUp() bool { return time.Now().After(r.deadline) }

// Remaining returns the time left in the internal budget.
func (r *Run) Remaining() time.Duration { return time.Until(r.deadline) }

func (r *Run) Capped(what string) {
	r.mu.Lock()
	defer r.mu.Unlock()
	r.capped = true
	r.cov["cap_hit"] = what
}

// ReplayCase returns the "case" of the witness file given with --replay, if any.
func (r *Run) ReplayCase(into interface{}) bool {
	if r.replayPath == "" {
		return false
	}
	b, err := os.ReadFile(r.replayPath)
	if err != nil {
		Fatalf("replay: %v", err)
	}
	var w struct {
		Case json.RawMessage `json:"case"`
	}
	if err := json.Unmarshal(b, &w); err != nil {
		Fatalf("replay: %v", err)
	}
	if err := json.Unmarshal(w.Case, into); err != nil {
		Fatalf("replay case: %v", err)
	}
	return true
}

func (r *Run) Set(k string, v interface{}) {
	r.mu.Lock()
	r.cov[k] = v
	r.mu.Unlock()
}

func (r *Run) Add(k string, n int64) {
	r.mu.Lock()
	r.counters[k] += n
	r.mu.Unlock()
}

func (r *Run) Count(k string) int64 {
	r.mu.Lock()
	defer r.mu.Unlock()
	return r.counters[k]
}

// Distinct records key in the named set; the set sizes are reported in coverage and the
// set named "nontrivial" becomes distinct_nontrivial.
func (r *Run) Distinct(set, key string) {
	// the sets only report their sizes: keep the first 8 bytes of a SHA-1 of the key, not the key
	// (a collision among n keys has probability about n^2/2^65 and costs one count)
	h := sha1.Sum([]byte(key))
	k := binary.LittleEndian.Uint64(h[:8])
	r.mu.Lock()
	m := r.distinct[set]
	if m == nil {
		m = map[uint64]struct{}{}
		r.distinct[set] = m
	}
	m[k] = struct{}{}
	r.mu.Unlock()
}

func (r *Run) DistinctN(set string) int {
	r.mu.Lock()
	defer r.mu.Unlock()
	return len(r.distinct[set])
}

// Sample keeps the first few cases (and later ones with decreasing frequency).
func (r *Run) Sample(v interface{}) {
	r.mu.Lock()
	if len(r.samples) < r.maxSamples {
		r.samples = append(r.samples, v)
	}
	r.mu.Unlock()
}

func (r *Run) Assume(s string) {
	r.mu.Lock()
	r.assumptions = append(r.assumptions, s)
	r.mu.Unlock()
}

func sigOf(f map[string]string) string {
	ks := make([]string, 0, len(f))
	for k := range f {
		ks = append(ks, k)
	}
	sort.Strings(ks)
	var sb strings.Builder
	for _, k := range ks {
		sb.WriteString(k + "=" + f[k] + ";")
	}
	return sb.String()
}

func (f *finding) matches(w *Witness) bool {
	if len(f.res) == 0 {
		return false
	}
	for k, re := range f.res {
		v, ok := w.Features[k]
		if !ok || !re.MatchString(v) {
			return false
		}
	}
	return true
}

// Violation records a violating case. It is suppressed (and printed as KNOWN-FINDING at
// the end) only if its features match a listed signature.
func (r *Run) Violation(w Witness) {
	w.Property = r.ID
	r.mu.Lock()
	defer r.mu.Unlock()
	r.violTotal++
	for i := range r.findings {
		if r.findings[i].matches(&w) {
			id := r.findings[i].ID
			r.knownHits[id]++
			if _, ok := r.knownEx[id]; !ok {
				r.knownEx[id] = w.Summary
			}
			return
		}
	}
	sig := sigOf(w.Features)
	r.unknownSigs[sig]++
	if r.unknownSigs[sig] <= 2 && len(r.unknown) < 40 {
		r.unknown = append(r.unknown, w)
	}
}

// Violations returns the number of violations not covered by a known finding.
func (r *Run) Violations() int {
	r.mu.Lock()
	defer r.mu.Unlock()
	n := 0
	for _, c := range r.unknownSigs {
		n += c
	}
	return n
}

// Finish writes evidence/<ID>.json, prints the verdict lines and exits.
func (r *Run) Finish() {
	r.mu.Lock()
	defer r.mu.Unlock()
	cov := r.cov
	for k, v := range r.counters {
		cov[k] = v
	}
	for k, m := range r.distinct {
		if k == "nontrivial" {
			cov["distinct_nontrivial"] = len(m)
		} else {
			cov["distinct_"+k] = len(m)
		}
	}
	if len(r.samples) > 0 {
		cov["samples"] = r.samples
	}
	if _, ok := cov["exhaustive"]; !ok {
		cov["exhaustive"] = !r.capped
	} else if r.capped {
		cov["exhaustive"] = false
	}
	nUnknown := 0
	for _, c := range r.unknownSigs {
		nUnknown += c
	}
	kh := map[string]int{}
	for k, v := range r.knownHits {
		kh[k] = v
	}
	cov["known_findings_hit"] = kh
	out := map[string]interface{}{
		"property_id": r.ID, "tier": r.Tier, "seed": r.Seed, "level": r.Level,
		"coverage": cov, "assumptions": r.assumptions,
		"wall_s":     time.Since(r.start).Seconds(),
		"violations": nUnknown,
	}
	if r.assumptions == nil {
		out["assumptions"] = []string{}
	}
	if r.replayPath == "" && os.Getenv("VERIF_NO_EVIDENCE") == "" {
		b, _ := json.MarshalIndent(out, "", " ")
		os.MkdirAll(filepath.Join(Root, "evidence"), 0o755)
		if err := os.WriteFile(filepath.Join(Root, "evidence", r.ID+".json"), append(b, '\n'), 0o644); err != nil {
			Fatalf("evidence: %v", err)
		}
	}
	ids := make([]string, 0, len(r.knownHits))
	for id := range r.knownHits {
		ids = append(ids, id)
	}
	sort.Strings(ids)
	for _, id := range ids {
		what := ""
		for _, f := range r.findings {
			if f.ID == id {
				what = f.What
			}
		}
		fmt.Printf("KNOWN-FINDING: property=%s %s: %s (hits=%d, e.g. %s)\n", r.ID, id, what, r.knownHits[id], r.knownEx[id])
	}
	for i := range r.unknown {
		w := r.unknown[i]
		b, _ := json.MarshalIndent(w, "", " ")
		h := sha1.Sum(b)
		dir := filepath.Join(Root, "replays", r.ID)
		if d := os.Getenv("VERIF_REPLAY_DIR"); d != "" {
			dir = d
		}
		os.MkdirAll(dir, 0o755)
		p := filepath.Join(dir, hex.EncodeToString(h[:6])+".json")
		os.WriteFile(p, append(b, '\n'), 0o644)
		fmt.Printf("VIOLATION property=%s replay=%s\n", r.ID, p)
		fmt.Printf("  witness: %s\n", w.Summary)
	}
	fmt.Printf("%s %s: wall=%.1fs violations=%d known_hits=%d exhaustive=%v\n", r.ID, r.Tier,
		time.Since(r.start).Seconds(), nUnknown, len(r.knownHits), cov["exhaustive"])
	if nUnknown > 0 {
		os.Exit(1)
	}
	os.Exit(0)
}

// Catch runs f and converts a panic into (value, stack-free message).
func Catch(f func()) (panicked interface{}) {
	defer func() {
		if e := recover(); e != nil {
			panicked = e
		}
	}()
	f()
	return nil
}
