// Package enum holds bounded-exhaustive enumeration helpers. Nothing here samples: every
// function visits its whole finite universe (in a fixed, simplest-first order).
package enum

import (
	"runtime"
	"sync"
	"sync/atomic"
)

// Parallel calls f(i) for every i in [0,n) on GOMAXPROCS workers. stop (may be nil) is
// polled between items; when it returns true remaining items are skipped and Parallel
// returns the number of items that were executed.
func Parallel(n int, stop func() bool, f func(i int)) int {
	w := runtime.GOMAXPROCS(0)
	if w > n {
		w = n
	}
	if w < 1 {
		w = 1
	}
	var next, done int64
	var wg sync.WaitGroup
	for k := 0; k < w; k++ {
		wg.Add(1)
		go func() {
			defer wg.Done()
			for {
				i := int(atomic.AddInt64(&next, 1) - 1)
				if i >= n {
					return
				}
				if stop != nil && stop() {
					return
				}
				f(i)
				atomic.AddInt64(&done, 1)
			}
		}()
	}
	wg.Wait()
	return int(done)
}

// Product visits every index vector of the given dimension sizes (last index fastest).
// The slice passed to f is reused.
func Product(dims []int, f func(idx []int)) {
	for _, d := range dims {
		if d == 0 {
			return
		}
	}
	idx := make([]int, len(dims))
	for {
		f(idx)
		k := len(dims) - 1
		for k >= 0 {
			idx[k]++
			if idx[k] < dims[k] {
				break
			}
			idx[k] = 0
			k--
		}
		if k < 0 {
			return
		}
	}
}

// ProductSize is the number of vectors Product visits.
func ProductSize(dims []int) int {
	n := 1
	for _, d := range dims {
		n *= d
	}
	return n
}

// Deviations visits every index vector that differs from the all-zero default in at most
// k positions, fewest deviations first.
func Deviations(dims []int, k int, f func(idx []int)) {
	idx := make([]int, len(dims))
	for m := 0; m <= k; m++ {
		devRec(dims, idx, 0, m, f)
	}
}

func devRec(dims, idx []int, from, left int, f func([]int)) {
	if left == 0 {
		f(idx)
		return
	}
	for p := from; p <= len(dims)-left; p++ {
		for v := 1; v < dims[p]; v++ {
			idx[p] = v
			devRec(dims, idx, p+1, left-1, f)
		}
		idx[p] = 0
	}
}

// Seqs visits every sequence over an alphabet of size a with length in [minLen,maxLen],
// shortest first.
func Seqs(a, minLen, maxLen int, f func(seq []int)) {
	for l := minLen; l <= maxLen; l++ {
		dims := make([]int, l)
		for i := range dims {
			dims[i] = a
		}
		if l == 0 {
			f(nil)
			continue
		}
		Product(dims, f)
	}
}

// Subsets visits every subset of {0..n-1} of size ≤ maxSize (as sorted index lists).
func Subsets(n, maxSize int, f func(s []int)) {
	var cur []int
	var rec func(from int)
	rec = func(from int) {
		f(cur)
		if len(cur) == maxSize {
			return
		}
		for i := from; i < n; i++ {
			cur = append(cur, i)
			rec(i + 1)
			cur = cur[:len(cur)-1]
		}
	}
	rec(0)
}

// Multisets visits every multiset of size in [0,maxSize] over {0..n-1} (non-decreasing lists).
func Multisets(n, maxSize int, f func(s []int)) {
	var cur []int
	var rec func(from int)
	rec = func(from int) {
		f(cur)
		if len(cur) == maxSize {
			return
		}
		for i := from; i < n; i++ {
			cur = append(cur, i)
			rec(i)
			cur = cur[:len(cur)-1]
		}
	}
	rec(0)
}

// Perms visits every permutation of {0..n-1}.
func Perms(n int, f func(p []int)) {
	p := make([]int, n)
	for i := range p {
		p[i] = i
	}
	var rec func(k int)
	rec = func(k int) {
		if k == n {
			f(p)
			return
		}
		for i := k; i < n; i++ {
			p[k], p[i] = p[i], p[k]
			rec(k + 1)
			p[k], p[i] = p[i], p[k]
		}
	}
	rec(0)
}
