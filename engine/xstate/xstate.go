// Package xstate is an explicit-state breadth-first search over histories of events
// applied to the real implementation. A state is identified with the shortest history
// that reaches it; the successor of a state is computed by replaying that history on
// fresh real objects and applying one more event (live Go objects cannot be cloned).
// States are deduplicated by a canonical key supplied by the check, which must contain
// everything the property's future can depend on.
package xstate

import (
	"sync"
)

// Result of replaying one history on fresh objects.
type Result struct {
	Key       string // canonical key of the state reached ("" = do not deduplicate)
	Violation string // non-empty: the property is violated on this history
	Features  map[string]string
	Outcome   string // observable outcome of the last event (distinct outcomes are counted)
	Stop      bool   // do not extend this history (terminal state)
}

type Spec[E any] struct {
	// Replay builds fresh objects, applies hist and evaluates the oracle on every step.
	Replay func(hist []E) Result
	// Enabled lists the events that may follow hist (may depend on hist only; use Stop in
	// Result for state-dependent termination).
	Enabled  func(hist []E) []E
	MaxDepth int
	Workers  int // >1: histories of one BFS level are replayed concurrently (Replay must be re-entrant)
	// Stop is polled; when it returns true the search ends (capped).
	Stop func() bool
	// OnViolation receives the violating history (shortest first).
	OnViolation func(hist []E, res Result)
	OnOutcome   func(outcome string)
}

type Stats struct {
	States      int64
	Transitions int64
	MaxDepth    int
	Capped      bool
	Violations  int64
	PerDepth    []int64
}

func BFS[E any](s Spec[E]) Stats {
	var st Stats
	seen := map[string]struct{}{}
	root := s.Replay(nil)
	st.States = 1
	if root.Key != "" {
		seen[root.Key] = struct{}{}
	}
	frontier := [][]E{nil}
	st.PerDepth = append(st.PerDepth, 1)
	for depth := 0; depth < s.MaxDepth && len(frontier) > 0; depth++ {
		type item struct {
			hist []E
			res  Result
		}
		// expand
		var cands [][]E
		for _, h := range frontier {
			for _, e := range s.Enabled(h) {
				nh := make([]E, len(h)+1)
				copy(nh, h)
				nh[len(h)] = e
				cands = append(cands, nh)
			}
		}
		results := make([]Result, len(cands))
		done := make([]bool, len(cands))
		w := s.Workers
		if w < 1 {
			w = 1
		}
		var mu sync.Mutex
		next := 0
		var wg sync.WaitGroup
		for k := 0; k < w; k++ {
			wg.Add(1)
			go func() {
				defer wg.Done()
				for {
					mu.Lock()
					i := next
					next++
					mu.Unlock()
					if i >= len(cands) {
						return
					}
					if s.Stop != nil && s.Stop() {
						return
					}
					results[i] = s.Replay(cands[i])
					done[i] = true
				}
			}()
		}
		wg.Wait()
		var nf [][]E
		for i, h := range cands {
			if !done[i] {
				st.Capped = true
				continue
			}
			res := results[i]
			st.Transitions++
			if s.OnOutcome != nil {
				s.OnOutcome(res.Outcome)
			}
			if res.Violation != "" {
				st.Violations++
				if s.OnViolation != nil {
					s.OnViolation(h, res)
				}
				continue // do not extend a violating history
			}
			if res.Key != "" {
				if _, dup := seen[res.Key]; dup {
					continue
				}
				seen[res.Key] = struct{}{}
			}
			st.States++
			if !res.Stop {
				nf = append(nf, h)
			}
		}
		st.PerDepth = append(st.PerDepth, int64(len(nf)))
		if len(cands) > 0 {
			st.MaxDepth = depth + 1
		}
		frontier = nf
		if st.Capped {
			break
		}
	}
	return st
}
