#!/bin/bash
# Offline setup: build the overlay generator and pre-build every harness (warm cache).
cd "$(dirname "$(readlink -f "$0")")" || exit 1
ROOT=$(pwd); export VERIF_ROOT="$ROOT"
export GOFLAGS=-mod=mod GOPROXY=off GOSUMDB=off GOTOOLCHAIN=local
export GOCACHE=${GOCACHE:-$ROOT/.build/gocache}
export GOTMPDIR=${GOTMPDIR:-$ROOT/.build/gotmp}
mkdir -p .build evidence "$GOTMPDIR"
cp /repo/go.sum go.sum.repo 2>/dev/null
[ -f go.sum ] || cp /repo/go.sum go.sum
go build -o .build/mkoverlay ./engine/mkoverlay || exit 1
rc=0
for d in checks/c*/; do
  id=$(basename "$d")
  [ -f "$d/manifest.json" ] || continue
  grep -qiw "$id" tools/ready.txt || continue
  B=$ROOT/.build/$id
  mkdir -p "$B"
  # a harness that does not build is reported by its own check (exit 2); setup only warms the cache
  .build/mkoverlay -check "$id" -out "$B" || echo "setup: mkoverlay failed for $id"
  go build -tags verif -overlay "$B/overlay.json" -o "$B/bin" "./checks/$id" || echo "setup: harness $id does not build"
done
exit $rc
