// Package fakeetcd is an in-memory implementation of Gaea's models.Client interface with
// the observable semantics of the etcd v2 keys API as used by models/etcd/etcd.go:
//
//   - keys form a tree ("/a/b" lives in directory "/a"); directories are implicit;
//   - Update = set (create or overwrite a FILE key); it fails with "Not a file" on a
//     directory, with "Not a directory" when an ancestor is a file, and on the root;
//   - Read of a missing key or of a directory returns (nil, nil) — exactly what
//     EtcdClient.Read does after swallowing ErrorCodeKeyNotFound;
//   - Delete of a missing key is not an error (EtcdClient.Delete swallows KeyNotFound);
//   - List returns the full keys of the immediate children of a directory, nil otherwise;
//   - ListWithValues returns every file key below a directory (recursive), nil otherwise.
//
// It is boring on purpose: a sorted map and string prefixes. Used by C33 (round trip)
// and C32 (coordinator store with scripted faults).
//
// Fault injection: Hook, when set, is consulted for every operation with the operation
// name, the normalised key and the 1-based count of that (op,key) pair so far:
//
//	FaultNone         the operation is applied and reports success
//	FaultBeforeApply  the operation is NOT applied and reports an error
//	FaultAfterApply   the operation IS applied and still reports an error (lost reply / timeout)
package fakeetcd

import (
	"fmt"
	"path"
	"sort"
	"strings"
	"sync"
	"time"

	"github.com/coreos/etcd/client"
)

type Fault int

const (
	FaultNone Fault = iota
	FaultBeforeApply
	FaultAfterApply
)

// Op is one logged operation.
type Op struct {
	Kind string `json:"op"`
	Key  string `json:"key"`
	Err  string `json:"err,omitempty"`
}

type Mem struct {
	mu      sync.Mutex
	Prefix  string
	kv      map[string][]byte
	seen    map[string]int
	Hook    func(op, key string, nth int) Fault
	Log     []Op
	KeepLog bool
}

func New(prefix string) *Mem {
	return &Mem{Prefix: prefix, kv: map[string][]byte{}, seen: map[string]int{}}
}

// Norm is the key normalisation of the etcd v2 HTTP API: rooted and cleaned.
func Norm(p string) string { return path.Clean("/" + p) }

func (m *Mem) isDir(k string) bool {
	if k == "/" {
		return true
	}
	pre := k + "/"
	for x := range m.kv {
		if strings.HasPrefix(x, pre) {
			return true
		}
	}
	return false
}

func (m *Mem) fileAncestor(k string) string {
	for d := path.Dir(k); d != "/" && d != "."; d = path.Dir(d) {
		if _, ok := m.kv[d]; ok {
			return d
		}
	}
	return ""
}

func (m *Mem) fault(op, k string) Fault {
	id := op + " " + k
	m.seen[id]++
	if m.Hook == nil {
		return FaultNone
	}
	return m.Hook(op, k, m.seen[id])
}

func (m *Mem) log(op, k string, err error) {
	if !m.KeepLog {
		return
	}
	o := Op{Kind: op, Key: k}
	if err != nil {
		o.Err = err.Error()
	}
	m.Log = append(m.Log, o)
}

var errInjected = fmt.Errorf("fakeetcd: injected failure (client: etcd cluster is unavailable or misconfigured)")

func (m *Mem) set(k string, data []byte, mustNotExist bool) error {
	if k == "/" {
		return client.Error{Code: client.ErrorCodeRootROnly, Message: "Root is read only", Cause: k}
	}
	if m.isDir(k) {
		return client.Error{Code: client.ErrorCodeNotFile, Message: "Not a file", Cause: k}
	}
	if a := m.fileAncestor(k); a != "" {
		return client.Error{Code: client.ErrorCodeNotDir, Message: "Not a directory", Cause: a}
	}
	if _, ok := m.kv[k]; ok && mustNotExist {
		return client.Error{Code: client.ErrorCodeNodeExist, Message: "Key already exists", Cause: k}
	}
	m.kv[k] = append([]byte(nil), data...)
	return nil
}

func (m *Mem) write(op, p string, data []byte, mustNotExist bool) error {
	m.mu.Lock()
	defer m.mu.Unlock()
	k := Norm(p)
	f := m.fault(op, k)
	if f == FaultBeforeApply {
		m.log(op, k, errInjected)
		return errInjected
	}
	err := m.set(k, data, mustNotExist)
	if err == nil && f == FaultAfterApply {
		err = errInjected
	}
	m.log(op, k, err)
	return err
}

func (m *Mem) Create(p string, data []byte) error { return m.write("create", p, data, true) }
func (m *Mem) Update(p string, data []byte) error { return m.write("update", p, data, false) }
func (m *Mem) UpdateWithTTL(p string, data []byte, ttl time.Duration) error {
	return m.write("update", p, data, false)
}

func (m *Mem) Delete(p string) error {
	m.mu.Lock()
	defer m.mu.Unlock()
	k := Norm(p)
	f := m.fault("delete", k)
	if f == FaultBeforeApply {
		m.log("delete", k, errInjected)
		return errInjected
	}
	var err error
	if _, ok := m.kv[k]; ok {
		delete(m.kv, k)
	} else if m.isDir(k) {
		err = client.Error{Code: client.ErrorCodeNotFile, Message: "Not a file", Cause: k}
	}
	if err == nil && f == FaultAfterApply {
		err = errInjected
	}
	m.log("delete", k, err)
	return err
}

func (m *Mem) Read(p string) ([]byte, error) {
	m.mu.Lock()
	defer m.mu.Unlock()
	k := Norm(p)
	if f := m.fault("read", k); f != FaultNone {
		m.log("read", k, errInjected)
		return nil, errInjected
	}
	m.log("read", k, nil)
	if v, ok := m.kv[k]; ok {
		return append([]byte(nil), v...), nil
	}
	return nil, nil
}

func (m *Mem) List(p string) ([]string, error) {
	m.mu.Lock()
	defer m.mu.Unlock()
	k := Norm(p)
	if f := m.fault("list", k); f != FaultNone {
		m.log("list", k, errInjected)
		return nil, errInjected
	}
	m.log("list", k, nil)
	if _, isFile := m.kv[k]; isFile || !m.isDir(k) {
		return nil, nil
	}
	pre := k + "/"
	if k == "/" {
		pre = "/"
	}
	set := map[string]struct{}{}
	for x := range m.kv {
		if strings.HasPrefix(x, pre) {
			rest := x[len(pre):]
			if i := strings.IndexByte(rest, '/'); i >= 0 {
				rest = rest[:i]
			}
			set[pre+rest] = struct{}{}
		}
	}
	out := make([]string, 0, len(set))
	for x := range set {
		out = append(out, x)
	}
	sort.Strings(out)
	return out, nil
}

func (m *Mem) ListWithValues(p string) (map[string]string, error) {
	m.mu.Lock()
	defer m.mu.Unlock()
	k := Norm(p)
	if f := m.fault("listvalues", k); f != FaultNone {
		m.log("listvalues", k, errInjected)
		return nil, errInjected
	}
	m.log("listvalues", k, nil)
	if _, isFile := m.kv[k]; isFile || !m.isDir(k) {
		return nil, nil
	}
	pre := k + "/"
	if k == "/" {
		pre = "/"
	}
	out := map[string]string{}
	for x, v := range m.kv {
		if strings.HasPrefix(x, pre) {
			out[x] = string(v)
		}
	}
	return out, nil
}

func (m *Mem) Close() error       { return nil }
func (m *Mem) BasePrefix() string { return m.Prefix }

// ---- harness-side accessors (never fault, never logged) ----

// Get returns the raw value stored under key (normalised) and whether it exists.
func (m *Mem) Get(key string) ([]byte, bool) {
	m.mu.Lock()
	defer m.mu.Unlock()
	v, ok := m.kv[Norm(key)]
	return v, ok
}

// Put stores a value directly (test set-up).
func (m *Mem) Put(key string, v []byte) {
	m.mu.Lock()
	defer m.mu.Unlock()
	m.kv[Norm(key)] = append([]byte(nil), v...)
}

// Keys returns all file keys, sorted.
func (m *Mem) Keys() []string {
	m.mu.Lock()
	defer m.mu.Unlock()
	out := make([]string, 0, len(m.kv))
	for k := range m.kv {
		out = append(out, k)
	}
	sort.Strings(out)
	return out
}
