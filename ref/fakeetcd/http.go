package fakeetcd

// HTTP front: the part of the etcd v2 HTTP API that github.com/coreos/etcd/client (as used
// by Gaea's models/etcd) speaks — GET /version, GET|PUT|DELETE /v2/keys/<key> — served from a
// Mem. The real models.NewClient("etcd", addr, ...) / EtcdClient code runs against it.
//
// Hook operations seen through this front: "version", "get" (Read, List), "getr"
// (ListWithValues, recursive), "set" (Create, Update, UpdateWithTTL), "delete".
// A scripted failure is an immediate HTTP 500 (the v2 client turns it into a ClusterError
// without retrying on a single endpoint); FaultAfterApply applies the write first.

import (
	"encoding/json"
	"net/http"
	"sort"
	"strconv"
	"strings"

	"github.com/coreos/etcd/client"
)

type node struct {
	Key           string  `json:"key"`
	Dir           bool    `json:"dir,omitempty"`
	Value         *string `json:"value,omitempty"`
	Nodes         []*node `json:"nodes,omitempty"`
	ModifiedIndex uint64  `json:"modifiedIndex"`
	CreatedIndex  uint64  `json:"createdIndex"`
}

type keysResponse struct {
	Action   string `json:"action"`
	Node     *node  `json:"node"`
	PrevNode *node  `json:"prevNode,omitempty"`
}

// buildNode renders key k (which must exist as file or directory). Caller holds m.mu.
func (m *Mem) buildNode(k string, recursive, top bool) *node {
	if v, ok := m.kv[k]; ok {
		s := string(v)
		return &node{Key: k, Value: &s, ModifiedIndex: 1, CreatedIndex: 1}
	}
	n := &node{Key: k, Dir: true, ModifiedIndex: 1, CreatedIndex: 1}
	if !top && !recursive {
		return n
	}
	pre := k + "/"
	if k == "/" {
		pre = "/"
	}
	set := map[string]struct{}{}
	for x := range m.kv {
		if strings.HasPrefix(x, pre) {
			rest := x[len(pre):]
			if i := strings.IndexByte(rest, '/'); i >= 0 {
				rest = rest[:i]
			}
			set[pre+rest] = struct{}{}
		}
	}
	kids := make([]string, 0, len(set))
	for x := range set {
		kids = append(kids, x)
	}
	sort.Strings(kids)
	for _, c := range kids {
		n.Nodes = append(n.Nodes, m.buildNode(c, recursive, false))
	}
	return n
}

func writeJSON(w http.ResponseWriter, code int, v interface{}) {
	b, _ := json.Marshal(v)
	w.Header().Set("Content-Type", "application/json")
	w.Header().Set("X-Etcd-Index", "1")
	w.Header().Set("X-Etcd-Cluster-Id", "fakeetcd")
	w.WriteHeader(code)
	w.Write(b)
}

func writeErr(w http.ResponseWriter, err error) {
	code := http.StatusInternalServerError
	if e, ok := err.(client.Error); ok {
		switch e.Code {
		case client.ErrorCodeKeyNotFound:
			code = http.StatusNotFound
		case client.ErrorCodeNodeExist:
			code = http.StatusPreconditionFailed
		default:
			code = http.StatusForbidden
		}
		writeJSON(w, code, map[string]interface{}{"errorCode": e.Code, "message": e.Message, "cause": e.Cause, "index": 1})
		return
	}
	http.Error(w, err.Error(), code)
}

// Handler serves the v2 API from m.
func (m *Mem) Handler() http.Handler {
	return http.HandlerFunc(func(w http.ResponseWriter, r *http.Request) {
		if r.URL.Path == "/version" {
			m.mu.Lock()
			f := m.fault("version", "/version")
			m.log("version", "/version", nil)
			m.mu.Unlock()
			if f != FaultNone {
				http.Error(w, "fakeetcd: injected failure", http.StatusInternalServerError)
				return
			}
			writeJSON(w, 200, map[string]string{"etcdserver": "3.3.13", "etcdcluster": "3.3.0"})
			return
		}
		if !strings.HasPrefix(r.URL.Path, "/v2/keys") {
			http.NotFound(w, r)
			return
		}
		k := Norm(strings.TrimPrefix(r.URL.Path, "/v2/keys"))
		q := r.URL.Query()
		m.mu.Lock()
		defer m.mu.Unlock()
		switch r.Method {
		case "GET":
			rec, _ := strconv.ParseBool(q.Get("recursive"))
			op := "get"
			if rec {
				op = "getr"
			}
			if f := m.fault(op, k); f != FaultNone {
				m.log(op, k, errInjected)
				http.Error(w, "fakeetcd: injected failure", http.StatusInternalServerError)
				return
			}
			m.log(op, k, nil)
			if _, isFile := m.kv[k]; !isFile && !m.isDir(k) {
				writeErr(w, client.Error{Code: client.ErrorCodeKeyNotFound, Message: "Key not found", Cause: k})
				return
			}
			writeJSON(w, 200, keysResponse{Action: "get", Node: m.buildNode(k, rec, true)})
		case "PUT":
			r.ParseForm()
			f := m.fault("set", k)
			if f == FaultBeforeApply {
				m.log("set", k, errInjected)
				http.Error(w, "fakeetcd: injected failure", http.StatusInternalServerError)
				return
			}
			var err error
			if d, _ := strconv.ParseBool(q.Get("dir")); d {
				err = client.Error{Code: client.ErrorCodeInvalidField, Message: "fakeetcd: explicit directories are not modelled", Cause: k}
			} else {
				prevExist := q.Get("prevExist")
				_, exists := m.kv[k]
				if prevExist == "true" && !exists {
					err = client.Error{Code: client.ErrorCodeKeyNotFound, Message: "Key not found", Cause: k}
				} else {
					err = m.set(k, []byte(r.PostForm.Get("value")), prevExist == "false")
				}
			}
			if err == nil && f == FaultAfterApply {
				m.log("set", k, errInjected)
				http.Error(w, "fakeetcd: injected failure after apply", http.StatusInternalServerError)
				return
			}
			m.log("set", k, err)
			if err != nil {
				writeErr(w, err)
				return
			}
			writeJSON(w, 200, keysResponse{Action: "set", Node: m.buildNode(k, false, true)})
		case "DELETE":
			f := m.fault("delete", k)
			if f == FaultBeforeApply {
				m.log("delete", k, errInjected)
				http.Error(w, "fakeetcd: injected failure", http.StatusInternalServerError)
				return
			}
			var err error
			var prev *node
			if _, ok := m.kv[k]; ok {
				prev = m.buildNode(k, false, true)
				delete(m.kv, k)
			} else if m.isDir(k) {
				err = client.Error{Code: client.ErrorCodeNotFile, Message: "Not a file", Cause: k}
			} else {
				err = client.Error{Code: client.ErrorCodeKeyNotFound, Message: "Key not found", Cause: k}
			}
			if err == nil && f == FaultAfterApply {
				m.log("delete", k, errInjected)
				http.Error(w, "fakeetcd: injected failure after apply", http.StatusInternalServerError)
				return
			}
			m.log("delete", k, err)
			if err != nil {
				writeErr(w, err)
				return
			}
			writeJSON(w, 200, keysResponse{Action: "delete", Node: &node{Key: k, ModifiedIndex: 2, CreatedIndex: 1}, PrevNode: prev})
		default:
			http.Error(w, "method not allowed", http.StatusMethodNotAllowed)
		}
	})
}

// Reset empties the store, the counters and the log, and removes the hook.
func (m *Mem) Reset() {
	m.mu.Lock()
	defer m.mu.Unlock()
	m.kv = map[string][]byte{}
	m.seen = map[string]int{}
	m.Log = nil
	m.Hook = nil
}

// SetHook installs the fault hook (under the lock).
func (m *Mem) SetHook(h func(op, key string, nth int) Fault) {
	m.mu.Lock()
	m.Hook = h
	m.mu.Unlock()
}

// Ops returns a copy of the operation log.
func (m *Mem) Ops() []Op {
	m.mu.Lock()
	defer m.mu.Unlock()
	return append([]Op(nil), m.Log...)
}
