//go:build verif

// Package sessrig is a session rig for the prepared-statement and multi-statement checks
// (C14–C17): a real server.Manager / server.Namespace / server.SessionExecutor whose only
// backend is a fake implementing the exported backend.ConnectionPool / PooledConnect
// interfaces. The fake records, per namespace, every statement text handed to Execute
// together with the session state (default db, sql_mode, user variables) the proxy had
// put on that backend connection at that moment, and answers OK unless the harness scripts
// a failure.
//
// Checks that import this package must copy server_export.go.txt to
// checks/cNN/inject/proxy/server/export.go (the constructors need unexported fields).
//
// One Manager per process (Gaea's statistics register process-global names); it carries N
// independent unsharded namespaces "ns0".."ns<N-1>" so that N workers can run sessions
// concurrently without sharing a backend log. Sessions are cheap and created per case.
package sessrig

import (
	"context"
	"fmt"
	"net"
	"sync"
	"time"

	"github.com/XiaoMi/Gaea/backend"
	"github.com/XiaoMi/Gaea/models"
	"github.com/XiaoMi/Gaea/mysql"
	"github.com/XiaoMi/Gaea/proxy/server"
)

// Exec is one statement that reached the backend.
type Exec struct {
	SQL     string
	DB      string
	SQLMode string // value of the session's sql_mode the proxy applied to this connection ("" = unset)
	Err     string // non-empty: the fake answered with this error
}

// Backend is the fake MySQL behind one namespace.
type Backend struct {
	mu     sync.Mutex
	log    []Exec
	nextID int64
	// Fail, if set, decides the answer for the n-th (0-based) Execute since Reset.
	Fail func(n int, sql string) error
	// UserVars is the last set of user variables applied by the proxy.
	userVars map[string]string
	inUse    int
	gets     int
	puts     int
}

func (b *Backend) Reset() {
	b.mu.Lock()
	b.log = nil
	b.Fail = nil
	b.userVars = nil
	b.mu.Unlock()
}

// Log returns a copy of the executed statements since Reset.
func (b *Backend) Log() []Exec {
	b.mu.Lock()
	defer b.mu.Unlock()
	return append([]Exec(nil), b.log...)
}

// Leaked returns the number of connections handed out and not returned.
func (b *Backend) Leaked() int {
	b.mu.Lock()
	defer b.mu.Unlock()
	return b.inUse
}

type pool struct {
	b    *Backend
	addr string
}

func (p *pool) Open() error        { return nil }
func (p *pool) Addr() string       { return p.addr }
func (p *pool) Datacenter() string { return "default" }
func (p *pool) Close()             {}
func (p *pool) Get(ctx context.Context) (backend.PooledConnect, error) {
	p.b.mu.Lock()
	defer p.b.mu.Unlock()
	p.b.nextID++
	p.b.inUse++
	p.b.gets++
	return &conn{p: p, id: p.b.nextID}, nil
}
func (p *pool) GetCheck(ctx context.Context) (backend.PooledConnect, error) { return p.Get(ctx) }
func (p *pool) Put(pc backend.PooledConnect) {
	p.b.mu.Lock()
	p.b.inUse--
	p.b.puts++
	p.b.mu.Unlock()
}
func (p *pool) SetCapacity(capacity int) error           { return nil }
func (p *pool) SetIdleTimeout(idleTimeout time.Duration) {}
func (p *pool) StatsJSON() string                        { return "{}" }
func (p *pool) Capacity() int64                          { return 8 }
func (p *pool) Available() int64                         { return 8 }
func (p *pool) Active() int64                            { return 0 }
func (p *pool) InUse() int64                             { return 0 }
func (p *pool) MaxCap() int64                            { return 8 }
func (p *pool) WaitCount() int64                         { return 0 }
func (p *pool) WaitTime() time.Duration                  { return 0 }
func (p *pool) IdleTimeout() time.Duration               { return time.Hour }
func (p *pool) IdleClosed() int64                        { return 0 }
func (p *pool) SetLastChecked()                          {}
func (p *pool) GetLastChecked() int64                    { return 0 }

type conn struct {
	p       *pool
	id      int64
	db      string
	sqlMode string
	closed  bool
	done    bool
}

func okResult() *mysql.Result {
	return &mysql.Result{Status: mysql.ServerStatusAutocommit}
}

func (c *conn) Recycle() {
	if c.done {
		return
	}
	c.done = true
	c.p.Put(c)
}
func (c *conn) Reconnect() error { c.closed = false; return nil }
func (c *conn) Close()           { c.closed = true }
func (c *conn) IsClosed() bool   { return c.closed }
func (c *conn) UseDB(db string) error {
	c.db = db
	return nil
}
func (c *conn) Execute(sql string, maxRows int) (*mysql.Result, error) {
	b := c.p.b
	b.mu.Lock()
	defer b.mu.Unlock()
	n := len(b.log)
	e := Exec{SQL: sql, DB: c.db, SQLMode: c.sqlMode}
	var err error
	if b.Fail != nil {
		err = b.Fail(n, sql)
	}
	if err != nil {
		e.Err = err.Error()
	}
	b.log = append(b.log, e)
	if err != nil {
		return nil, err
	}
	return okResult(), nil
}
func (c *conn) ExecuteWithTimeout(sql string, maxRows int, timeout time.Duration) (*mysql.Result, error) {
	return c.Execute(sql, maxRows)
}
func (c *conn) SetAutoCommit(v uint8) error                 { return nil }
func (c *conn) Begin() error                                { return nil }
func (c *conn) Commit() error                               { return nil }
func (c *conn) Rollback() error                             { return nil }
func (c *conn) Ping() error                                 { return nil }
func (c *conn) PingWithTimeout(timeout time.Duration) error { return nil }
func (c *conn) SetCharset(charset string, collation mysql.CollationID) (bool, error) {
	return false, nil
}
func (c *conn) FieldList(table string, wildcard string) ([]*mysql.Field, error) { return nil, nil }
func (c *conn) GetAddr() string                                                 { return c.p.addr }

// SetSessionVariables is where the real backend connection learns the frontend session's
// variables (and later writes them as SET statements). The fake keeps sql_mode and the
// user variables: that is the state the backend server would parse the next statement under.
func (c *conn) SetSessionVariables(frontend *mysql.SessionVariables) (bool, error) {
	c.apply(frontend)
	return false, nil
}
func (c *conn) SyncSessionVariables(frontend *mysql.SessionVariables) error {
	c.apply(frontend)
	return nil
}
func (c *conn) apply(frontend *mysql.SessionVariables) {
	c.sqlMode = ""
	uv := map[string]string{}
	if frontend != nil {
		for name, v := range frontend.GetAll() {
			if name == mysql.SQLModeStr {
				c.sqlMode = fmt.Sprint(v.Get())
			}
			if len(name) > 0 && name[0] == '@' {
				uv[name] = fmt.Sprint(v.Get())
			}
		}
	}
	c.p.b.mu.Lock()
	c.p.b.userVars = uv
	c.p.b.mu.Unlock()
}
func (c *conn) WriteSetStatement() error                              { return nil }
func (c *conn) GetConnectionID() int64                                { return c.id }
func (c *conn) GetReturnTime() time.Time                              { return time.Time{} }
func (c *conn) MoreRowsExist() bool                                   { return false }
func (c *conn) MoreResultsExist() bool                                { return false }
func (c *conn) FetchMoreRows(result *mysql.Result, maxRows int) error { return nil }
func (c *conn) ReadMoreResult(maxRows int) (*mysql.Result, error)     { return nil, nil }

// UserVars returns the user variables the proxy last applied to a backend connection.
func (b *Backend) UserVars() map[string]string {
	b.mu.Lock()
	defer b.mu.Unlock()
	m := map[string]string{}
	for k, v := range b.userVars {
		m[k] = v
	}
	return m
}

// sink is the client side of the session: a net.Conn that swallows what the proxy writes.
type sink struct {
	mu      sync.Mutex
	written int
	packets int
}

type addr struct{}

func (addr) Network() string { return "verif" }
func (addr) String() string  { return "127.0.0.1:1" }

func (s *sink) Read(b []byte) (int, error) { return 0, fmt.Errorf("sink: nothing to read") }
func (s *sink) Write(b []byte) (int, error) {
	s.mu.Lock()
	s.written += len(b)
	s.packets++
	s.mu.Unlock()
	return len(b), nil
}
func (s *sink) Close() error                       { return nil }
func (s *sink) LocalAddr() net.Addr                { return addr{} }
func (s *sink) RemoteAddr() net.Addr               { return addr{} }
func (s *sink) SetDeadline(t time.Time) error      { return nil }
func (s *sink) SetReadDeadline(t time.Time) error  { return nil }
func (s *sink) SetWriteDeadline(t time.Time) error { return nil }

// Rig is one namespace + its fake backend.
type Rig struct {
	Name    string
	Backend *Backend
	m       *server.Manager
}

const (
	User = "u"
	DB   = "db"
)

func nsConfig(name string, multi bool) *models.Namespace {
	return &models.Namespace{
		Name:          name,
		Online:        true,
		AllowedDBS:    map[string]bool{DB: true},
		DefaultPhyDBS: map[string]string{DB: DB},
		Slices: []*models.Slice{{Name: "slice-0", UserName: "root", Password: "root",
			Master: "127.0.0.1:1", Capacity: 1, MaxCapacity: 1, IdleTimeout: 3600}},
		Users: []*models.User{{UserName: User, Password: "p", Namespace: name,
			RWFlag: models.ReadWrite, RWSplit: models.NoReadWriteSplit}},
		DefaultSlice:      "slice-0",
		SupportMultiQuery: multi,
	}
}

var (
	once sync.Once
	rigs chan *Rig
	all  []*Rig
)

// Init builds the process-wide Manager with n namespaces (multi-statement support on).
// It may be called once; later calls are ignored.
func Init(n int) error {
	var err error
	once.Do(func() {
		cfgs := make([]*models.Namespace, n)
		for i := range cfgs {
			cfgs[i] = nsConfig(fmt.Sprintf("ns%d", i), true)
		}
		var m *server.Manager
		m, err = server.VerifNewManager(cfgs)
		if err != nil {
			return
		}
		rigs = make(chan *Rig, n)
		for i := 0; i < n; i++ {
			name := fmt.Sprintf("ns%d", i)
			b := &Backend{}
			ns := m.GetNamespace(name)
			sl := ns.GetSlice("slice-0")
			if sl == nil || sl.Master == nil || len(sl.Master.Nodes) != 1 {
				err = fmt.Errorf("sessrig: namespace %s has no master node", name)
				return
			}
			// the real (never dialled) pool is closed and replaced by the fake
			sl.Master.Nodes[0].ConnPool.Close()
			sl.Master.Nodes[0].ConnPool = &pool{b: b, addr: "fake-" + name}
			r := &Rig{Name: name, Backend: b, m: m}
			all = append(all, r)
			rigs <- r
		}
	})
	return err
}

// Acquire hands out a rig (blocking until one is free) with a clean backend log.
func Acquire() *Rig {
	r := <-rigs
	r.Backend.Reset()
	return r
}

// Release returns the rig.
func Release(r *Rig) { rigs <- r }

// Session is one client session on a rig.
type Session struct {
	Rig  *Rig
	SE   *server.SessionExecutor
	sink *sink
	buf  []byte // the connection's reused read buffer
}

// NewSession opens a fresh session (fresh SessionExecutor: no statements, no variables).
// multi selects whether the client announced CLIENT_MULTI_STATEMENTS.
func (r *Rig) NewSession(multi bool) *Session {
	var capab uint32
	if multi {
		capab = mysql.ClientMultiStatements
	}
	sk := &sink{}
	se := server.VerifNewSessionExecutor(r.m, r.Name, User, DB, capab, sk)
	return &Session{Rig: r, SE: se, sink: sk}
}

// Cmd sends one command to the session executor the way Session.Run does: the payload is
// placed in the session's ONE read buffer (Session.Run reads every packet with
// mysql.Conn.ReadEphemeralPacket into a pooled buffer and hands it back with
// RecycleReadPacket as soon as the command has been executed, so the memory of a packet is
// overwritten by later packets — of this or of any other connection). After the command the
// used part of the buffer is filled with 0xEE (contents of a recycled buffer are arbitrary),
// and the next command is copied over it. State that aliases the packet is thereby visible.
func (s *Session) Cmd(cmd byte, data []byte) server.Response {
	if cap(s.buf) < len(data) || s.buf == nil {
		s.buf = make([]byte, 2*len(data)+4096)
	}
	n := copy(s.buf[:cap(s.buf)], data)
	defer func() {
		b := s.buf[:n]
		for i := range b {
			b[i] = 0xEE
		}
	}()
	server.VerifBeforeCommand(s.SE)
	return s.SE.ExecuteCommand(cmd, s.buf[:n:n])
}

// Query sends COM_QUERY; err is the error the client would receive (nil on success).
func (s *Session) Query(sql string) error {
	r := s.Cmd(mysql.ComQuery, []byte(sql))
	return RespErr(r)
}

// RespErr extracts the error of an error response.
func RespErr(r server.Response) error {
	if r.RespType != server.RespError {
		return nil
	}
	if e, ok := r.Data.(error); ok && e != nil {
		return e
	}
	return fmt.Errorf("error response: %v", r.Data)
}

// PacketsWritten is the number of writes the proxy made to the client connection
// (intermediate results of a multi-statement query are written before the command returns).
func (s *Session) PacketsWritten() int {
	s.sink.mu.Lock()
	defer s.sink.mu.Unlock()
	return s.sink.packets
}

// UserVarSet reports whether the session holds a value for the user variable (name with
// the leading '@', lower case).
func (s *Session) UserVarSet(name string) bool {
	return server.VerifSessionVariable(s.SE, name) != nil
}

// SessionVar returns the session's value for a system variable such as "sql_mode" (nil if unset).
func (s *Session) SessionVar(name string) interface{} {
	return server.VerifSessionVariable(s.SE, name)
}
