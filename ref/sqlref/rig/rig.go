// Package rig is the plan rig of C02/C05: models.Namespace -> router.NewRouter ->
// parser -> plan.BuildPlan -> Plan.ExecuteIn(executor), where the executor answers every
// per-shard statement with sqlref on in-memory shard tables that were filled by the rule's
// own FindTableIndex.
//
// Schema (logical database "db"):
//
//	t (id, k INT, v VARCHAR, u VARCHAR, d DECIMAL(10,2))  sharded on id
//	t2(id, w INT)                                           linked to t on id
//	g (gid INT, name VARCHAR)                               global table
//
// id is INT, or DATE ('YYYY-MM-DD') for the calendar layouts. Queries name keys
// abstractly (key #1..#8); Layout.Key / KeyLit turn them into this layout's values.
package rig

import (
	"fmt"
	"sort"
	"strconv"
	"strings"

	"github.com/XiaoMi/Gaea/models"
	"github.com/XiaoMi/Gaea/mysql"
	"github.com/XiaoMi/Gaea/parser"
	"github.com/XiaoMi/Gaea/parser/ast"
	"github.com/XiaoMi/Gaea/proxy/plan"
	"github.com/XiaoMi/Gaea/proxy/router"
	"github.com/XiaoMi/Gaea/proxy/sequence"
	"github.com/XiaoMi/Gaea/util"

	"verif/ref/sqlref"
)

const LogicDB = "db"

// NKeys is the number of abstract sharding keys (#1..#NKeys).
const NKeys = 8

// Layout is one sharding configuration of table t.
type Layout struct {
	Rule   string // hash | mod | range | date_month | mycat_mod
	Slices int
	Per    int // tables per slice
}

func (l Layout) Name() string { return fmt.Sprintf("%s-%dx%d", l.Rule, l.Slices, l.Per) }

func (l Layout) Tables() int { return l.Slices * l.Per }

func (l Layout) dated() bool { return strings.HasPrefix(l.Rule, "date_") }

func (l Layout) mycat() bool { return strings.HasPrefix(l.Rule, "mycat_") }

// month returns the i-th configured month (0-based) as YYYY, MM.
func month(i int) (int, int) { return 2014 + i/12, 1 + i%12 }

// Key is the concrete value of abstract key #i (1-based) in this layout.
func (l Layout) Key(i int) sqlref.Value {
	if l.dated() {
		y, m := month((i - 1) % l.Tables())
		return fmt.Sprintf("%04d-%02d-%02d", y, m, 10+i)
	}
	return int64(i)
}

// KeyLit is Key(i) as a SQL literal.
func (l Layout) KeyLit(i int) string {
	switch v := l.Key(i).(type) {
	case int64:
		return strconv.FormatInt(v, 10)
	case string:
		return "'" + v + "'"
	}
	return "NULL"
}

func (l Layout) keyType() sqlref.Type {
	if l.dated() {
		return sqlref.Type{K: sqlref.KDate}
	}
	return sqlref.Type{K: sqlref.KInt}
}

// Namespace builds the configuration of the layout.
func (l Layout) Namespace() *models.Namespace {
	ns := &models.Namespace{Name: "verif", Online: true, DefaultSlice: "slice-0",
		AllowedDBS: map[string]bool{LogicDB: true}}
	var names []string
	for i := 0; i < l.Slices; i++ {
		n := fmt.Sprintf("slice-%d", i)
		names = append(names, n)
		ns.Slices = append(ns.Slices, &models.Slice{Name: n, UserName: "u", Password: "p", Master: "127.0.0.1:3306"})
	}
	loc := make([]int, l.Slices)
	one := make([]int, l.Slices)
	for i := range loc {
		loc[i] = l.Per
		one[i] = 1
	}
	t := &models.Shard{DB: LogicDB, Table: "t", Type: l.Rule, Key: "id", Slices: names}
	g := &models.Shard{DB: LogicDB, Table: "g", Type: "global", Slices: names, Locations: one}
	switch {
	case l.dated():
		for s := 0; s < l.Slices; s++ {
			y0, m0 := month(s * l.Per)
			y1, m1 := month(s*l.Per + l.Per - 1)
			t.DateRange = append(t.DateRange, fmt.Sprintf("%04d%02d-%04d%02d", y0, m0, y1, m1))
		}
	case l.mycat():
		t.Locations = loc
		for i := 0; i < l.Tables(); i++ {
			t.Databases = append(t.Databases, fmt.Sprintf("db_m%d", i))
		}
		g.Locations = loc
		g.Databases = t.Databases
	default:
		t.Locations = loc
		if l.Rule == "range" {
			t.TableRowLimit = (NKeys + l.Tables()) / l.Tables()
		}
	}
	ns.ShardRules = []*models.Shard{t,
		{DB: LogicDB, Table: "t2", Type: "linked", Key: "id", ParentTable: "t"},
		// a linked table whose own sharding column is named differently from the parent's
		// (no data: it is only the target of statements that must be refused at plan time)
		{DB: LogicDB, Table: "t3", Type: "linked", Key: "uid", ParentTable: "t"}, g}
	return ns
}

// Rig is a router for one layout plus a parser; not safe for concurrent use.
type Rig struct {
	L      Layout
	Router *router.Router
	Rule   router.Rule
	GRule  router.Rule
	Seq    *sequence.SequenceManager
	P      *parser.Parser

	// copies taken when the router was built: the rig must keep working (and be able to
	// tell) when a statement damages the router's own lists
	subIdx  []int
	gSubIdx []int
}

// Intact reports whether the sub-table lists of the rules of t and g are still what they
// were when the router was built.
func (r *Rig) Intact() (bool, string) {
	same := func(a, b []int) bool {
		if len(a) != len(b) {
			return false
		}
		for i := range a {
			if a[i] != b[i] {
				return false
			}
		}
		return true
	}
	if now := r.Rule.GetSubTableIndexes(); !same(now, r.subIdx) {
		return false, fmt.Sprintf("the sub-table list of t's rule changed from %v to %v", r.subIdx, now)
	}
	if now := r.GRule.GetSubTableIndexes(); !same(now, r.gSubIdx) {
		return false, fmt.Sprintf("the sub-table list of g's rule changed from %v to %v", r.gSubIdx, now)
	}
	return true, ""
}

func New(l Layout) (*Rig, error) { return NewWithParser(l, parser.New()) }

// NewWithParser builds a rig (a new router) around an existing parser.
func NewWithParser(l Layout, p *parser.Parser) (*Rig, error) {
	rt, err := router.NewRouter(l.Namespace())
	if err != nil {
		return nil, fmt.Errorf("router for %s: %v", l.Name(), err)
	}
	r := &Rig{L: l, Router: rt, Seq: sequence.NewSequenceManager(), P: p}
	var ok bool
	if r.Rule, ok = rt.GetShardRule(LogicDB, "t"); !ok {
		return nil, fmt.Errorf("no rule for t")
	}
	if r.GRule, ok = rt.GetShardRule(LogicDB, "g"); !ok {
		return nil, fmt.Errorf("no rule for g")
	}
	r.subIdx = append([]int{}, r.Rule.GetSubTableIndexes()...)
	r.gSubIdx = append([]int{}, r.GRule.GetSubTableIndexes()...)
	return r, nil
}

// Parse parses one statement with Gaea's parser.
func (r *Rig) Parse(sql string) (ast.StmtNode, error) { return r.P.ParseOneStmt(sql, "", "") }

// Build parses sql and builds Gaea's plan for it; a panic inside BuildPlan is reported as
// the error the proxy's handleQuery would turn it into.
func (r *Rig) Build(sql string) (p plan.Plan, err error) {
	st, err := r.Parse(sql)
	if err != nil {
		return nil, fmt.Errorf("parse: %v", err)
	}
	defer func() {
		if e := recover(); e != nil {
			p, err = nil, fmt.Errorf("panic in BuildPlan: %v", e)
		}
	}()
	return plan.BuildPlan(st, map[string]string{LogicDB: LogicDB}, LogicDB, sql, r.Router, r.Seq, nil)
}

// Where says where the rule puts a table index: slice, physical database, table suffix.
func (r *Rig) Where(idx int) (slice, db, suffix string) {
	slice = r.Rule.GetSlice(r.Rule.GetSliceIndexFromTableIndex(idx))
	db, _ = r.Rule.GetDatabaseNameByTableIndex(idx)
	if !r.L.mycat() {
		suffix = fmt.Sprintf("_%04d", idx)
	}
	return
}

// Row of the logical table t: abstract key plus the other columns.
type Row struct {
	Key int
	K   sqlref.Value
	V   sqlref.Value
	U   sqlref.Value
	D   sqlref.Value
}

func i64(n int) sqlref.Value { return int64(n) }

// Universe is the row universe contents are drawn from: keys on the same and on
// different tables, a value (k=1, v='a', u='b') present on two shards, NULLs, the string
// 'NULL', separator-collision strings for generateMapKey ('a+','b' vs 'a','+b'), negative
// and decimal numbers, a second row on key #1, and three rows whose k is NULL (keys #4, #8
// on one table of most layouts, #1 on another) but which differ in id / v / u, so that a
// NULL in a leading ORDER BY key must fall through to the later keys.
var Universe = []Row{
	{1, i64(1), "a", "b", sqlref.D("1.50")},
	{2, i64(1), "a", "b", sqlref.D("2.25")},
	{3, i64(2), "b", "a", sqlref.D("-1.00")},
	{4, nil, nil, nil, nil},
	{5, i64(-1), "NULL", "b", sqlref.D("0.75")},
	{6, i64(2), "a+", "b", sqlref.D("10.00")},
	{7, i64(0), "a", "+b", sqlref.D("1.50")},
	{8, nil, "+", "a", nil},
	{1, nil, "b", "a", sqlref.D("2.25")},
	{4, i64(-1), "NULL", nil, sqlref.D("-0.50")},
}

// T2Rows / GRows are the fixed contents of the linked and the global table.
var T2Rows = [][2]int{{1, 10}, {2, 20}, {3, 30}, {3, 31}, {5, 50}, {8, 80}}
var GRows = []struct {
	ID   int
	Name string
}{{1, "x"}, {2, "y"}, {-1, "z"}}

func tCols(l Layout) []sqlref.Column {
	return []sqlref.Column{{Name: "id", Type: l.keyType()}, {Name: "k", Type: sqlref.Type{K: sqlref.KInt}},
		{Name: "v", Type: sqlref.Type{K: sqlref.KStr}}, {Name: "u", Type: sqlref.Type{K: sqlref.KStr}},
		{Name: "d", Type: sqlref.Type{K: sqlref.KDec, Scale: 2}}}
}

func t2Cols(l Layout) []sqlref.Column {
	return []sqlref.Column{{Name: "id", Type: l.keyType()}, {Name: "w", Type: sqlref.Type{K: sqlref.KInt}}}
}

func gCols() []sqlref.Column {
	return []sqlref.Column{{Name: "gid", Type: sqlref.Type{K: sqlref.KInt}}, {Name: "name", Type: sqlref.Type{K: sqlref.KStr}}}
}

// Store holds one table content twice: as the single database holding everything (Union)
// and spread over the shards by the rule's own FindTableIndex.
type Store struct {
	Union  *sqlref.DB
	Shards map[string]*sqlref.DB // slice name -> physical databases of that slice
	// TableOf[i] is the table index content row i was placed on.
	TableOf []int
	// Index of every physical copy of t: "slice/db.table" -> table index
	Phys map[string]int
}

// NewStore places the given rows of t (plus the fixed t2 / g contents).
func (r *Rig) NewStore(rows []Row) (*Store, error) {
	l := r.L
	s := &Store{Union: sqlref.NewDB(LogicDB), Shards: map[string]*sqlref.DB{}, Phys: map[string]int{}}
	ut := &sqlref.Table{DB: LogicDB, Name: "t", Cols: tCols(l)}
	ut2 := &sqlref.Table{DB: LogicDB, Name: "t2", Cols: t2Cols(l)}
	ug := &sqlref.Table{DB: LogicDB, Name: "g", Cols: gCols()}
	s.Union.Add(ut)
	s.Union.Add(ut2)
	s.Union.Add(ug)
	pt := map[int]*sqlref.Table{}
	pt2 := map[int]*sqlref.Table{}
	for _, idx := range r.subIdx {
		slice, db, suf := r.Where(idx)
		sd := s.Shards[slice]
		if sd == nil {
			sd = sqlref.NewDB(db)
			s.Shards[slice] = sd
		}
		pt[idx] = &sqlref.Table{DB: db, Name: "t" + suf, Cols: tCols(l)}
		pt2[idx] = &sqlref.Table{DB: db, Name: "t2" + suf, Cols: t2Cols(l)}
		if _, err := sd.Get(db, pt[idx].Name); err == nil {
			return nil, fmt.Errorf("two table indexes share %s/%s.%s", slice, db, pt[idx].Name)
		}
		sd.Add(pt[idx])
		sd.Add(pt2[idx])
		s.Phys[slice+"/"+strings.ToLower(db+"."+pt[idx].Name)] = idx
	}
	for _, row := range rows {
		key := l.Key(row.Key)
		idx, err := r.Rule.FindTableIndex(key)
		if err != nil {
			return nil, fmt.Errorf("key %v is not placeable: %v", key, err)
		}
		if pt[idx] == nil {
			return nil, fmt.Errorf("key %v maps to table %d which is not configured", key, idx)
		}
		vals := []sqlref.Value{key, row.K, row.V, row.U, row.D}
		ut.Rows = append(ut.Rows, vals)
		pt[idx].Rows = append(pt[idx].Rows, vals)
		s.TableOf = append(s.TableOf, idx)
	}
	for _, w := range T2Rows {
		key := l.Key(w[0])
		idx, err := r.Rule.FindTableIndex(key)
		if err != nil || pt2[idx] == nil {
			return nil, fmt.Errorf("t2 key %v is not placeable", key)
		}
		vals := []sqlref.Value{key, int64(w[1])}
		ut2.Rows = append(ut2.Rows, vals)
		pt2[idx].Rows = append(pt2[idx].Rows, vals)
	}
	for _, gr := range GRows {
		ug.Rows = append(ug.Rows, []sqlref.Value{int64(gr.ID), gr.Name})
	}
	// a copy of g in every physical database that holds a part of t, and wherever the
	// global rule itself says
	place := func(slice, db string) {
		sd := s.Shards[slice]
		if sd == nil {
			sd = sqlref.NewDB(db)
			s.Shards[slice] = sd
		}
		if _, err := sd.Get(db, "g"); err == nil {
			return
		}
		sd.Add(&sqlref.Table{DB: db, Name: "g", Cols: gCols(), Rows: append(make([][]sqlref.Value, 0, len(ug.Rows)), ug.Rows...)})
	}
	for _, idx := range r.subIdx {
		slice, db, _ := r.Where(idx)
		place(slice, db)
	}
	for _, idx := range r.gSubIdx {
		db, _ := r.GRule.GetDatabaseNameByTableIndex(idx)
		place(r.GRule.GetSlice(r.GRule.GetSliceIndexFromTableIndex(idx)), db)
	}
	return s, nil
}

// Clone returns a store whose copies of t (logical and physical) can be modified without
// touching s; t2 and g are shared.
func (s *Store) Clone() *Store {
	isT := func(t *sqlref.Table) bool { return t.Name == "t" || strings.HasPrefix(t.Name, "t_") }
	n := &Store{Union: s.Union.CloneWith(isT), Shards: make(map[string]*sqlref.DB, len(s.Shards)), TableOf: s.TableOf, Phys: s.Phys}
	for k, d := range s.Shards {
		n.Shards[k] = d.CloneWith(isT)
	}
	return n
}

// Call is one statement the plan sent to a backend.
type Call struct {
	Slice, DB, SQL string
	Rows           int    // result rows (queries)
	Affected       uint64 // affected rows (DML)
}

// Exec implements plan.Executor on a Store.
type Exec struct {
	R        *Rig
	S        *Store
	Calls    []Call
	cache    map[string]*sqlref.Prepared
	lastID   uint64
	ParseErr int
}

func (r *Rig) NewExec(s *Store) *Exec {
	return &Exec{R: r, S: s, cache: map[string]*sqlref.Prepared{}}
}

// Reset points the executor at another store, keeping the parse cache.
func (e *Exec) Reset(s *Store) { e.S = s; e.Calls = e.Calls[:0] }

// NonEmpty is the number of backend statements that returned at least one row.
func (e *Exec) NonEmpty() int {
	n := 0
	for _, c := range e.Calls {
		if c.Rows > 0 {
			n++
		}
	}
	return n
}

func (e *Exec) one(slice, db, sql string) (*mysql.Result, error) {
	st, ok := e.cache[sql]
	if !ok {
		n, err := e.R.Parse(sql)
		if err != nil {
			e.ParseErr++
			return nil, fmt.Errorf("backend %s: syntax error in %q: %v", slice, sql, err)
		}
		st = &sqlref.Prepared{Stmt: n}
		e.cache[sql] = st
	}
	sd := e.S.Shards[slice]
	if sd == nil {
		return nil, fmt.Errorf("backend: unknown slice %s", slice)
	}
	view := *sd
	view.Default = strings.ToLower(db)
	res, err := st.Exec(&view)
	if err != nil {
		return nil, fmt.Errorf("backend %s/%s: %v (sql: %s)", slice, db, err, sql)
	}
	if res.Resultset == nil {
		// an OK answer reaches the merger in an object of the result pool whose header
		// fields the connection overwrites (DirectConnection.handleOKPacket)
		r := mysql.ResultPool.GetWithoutResultSet()
		r.AffectedRows, r.InsertID, r.Status, r.Warnings, r.Info = res.AffectedRows, res.InsertID, res.Status, 0, ""
		res = r
	}
	c := Call{Slice: slice, DB: db, SQL: sql, Affected: res.AffectedRows}
	if res.Resultset != nil {
		c.Rows = len(res.Values)
	}
	e.Calls = append(e.Calls, c)
	return res, nil
}

// ExecuteSQL implements plan.Executor.
func (e *Exec) ExecuteSQL(ctx *util.RequestContext, slice, db, sql string) (*mysql.Result, error) {
	return e.one(slice, db, sql)
}

// ExecuteSQLs implements plan.Executor: results ordered by slice name, then database
// name, then statement order, exactly as SessionExecutor.executeShardSQLInSlice does.
func (e *Exec) ExecuteSQLs(ctx *util.RequestContext, sqls map[string]map[string][]string) ([]*mysql.Result, error) {
	if len(sqls) == 0 {
		return nil, fmt.Errorf("no sql to execute")
	}
	var slices []string
	for s := range sqls {
		slices = append(slices, s)
	}
	sort.Strings(slices)
	var out []*mysql.Result
	for _, s := range slices {
		var dbs []string
		for d := range sqls[s] {
			dbs = append(dbs, d)
		}
		sort.Strings(dbs)
		for _, d := range dbs {
			for _, q := range sqls[s][d] {
				r, err := e.one(s, d, q)
				if err != nil {
					return nil, err
				}
				out = append(out, r)
			}
		}
	}
	return out, nil
}

func (e *Exec) SetLastInsertID(id uint64) { e.lastID = id }
func (e *Exec) GetLastInsertID() uint64   { return e.lastID }
func (e *Exec) HandleSet(*util.RequestContext, string, *ast.SetStmt) (*mysql.Result, error) {
	return nil, fmt.Errorf("SET is not part of this rig")
}

// Run executes a plan; a panic inside ExecuteIn is reported as the error the proxy's
// handleQuery would turn it into.
func (e *Exec) Run(p plan.Plan) (res *mysql.Result, err error, panicked bool) {
	defer func() {
		if x := recover(); x != nil {
			res, err, panicked = nil, fmt.Errorf("panic in ExecuteIn: %v", x), true
		}
	}()
	res, err = p.ExecuteIn(util.NewRequestContext(), e)
	return res, err, false
}
