package rig

import (
	"fmt"
	"sort"
	"strings"

	"github.com/XiaoMi/Gaea/parser/ast"

	"verif/ref/sqlref"
)

// Histories: statements executed one after the other on the SAME router (the same
// namespace of a running proxy), so that a statement which damages shared routing state
// (a rule's sub-table list, the default rule, ...) shows in the statements after it.

// Prefix is a statement that runs before the statement under test. {Kn} is the layout's
// literal for abstract key #n.
type Prefix struct{ Name, SQL string }

// Prefixes: INSERT VALUES single / multi-row with the first row NOT in the first
// sub-table, INSERT SET, REPLACE, range / IN / NOT BETWEEN reads, UPDATE / DELETE, statements
// on the linked child and on the global table, aggregate and LIMIT reads.
var Prefixes = []Prefix{
	{"insert_one", "INSERT INTO t (id, k, v, u, d) VALUES ({K3}, 5, 'h', 'h', 1.00)"},
	{"insert_multi", "INSERT INTO t (id, k, v, u, d) VALUES ({K7}, 5, 'h', 'h', 1.00), ({K2}, 6, 'i', 'i', 2.00)"},
	{"insert_multi_same_table", "INSERT INTO t (id, k) VALUES ({K6}, 5), ({K6}, 6)"},
	{"insert_set", "INSERT INTO t SET id = {K5}, k = 5, v = 'h'"},
	{"replace", "REPLACE INTO t (id, k) VALUES ({K8}, 1)"},
	{"select_not_between", "SELECT id FROM t WHERE id NOT BETWEEN {K2} AND {K6}"},
	{"select_in", "SELECT id FROM t WHERE id IN ({K1}, {K2})"},
	{"select_not_in", "SELECT id FROM t WHERE id NOT IN ({K1}, {K2})"},
	{"select_ge", "SELECT id FROM t WHERE id >= {K3}"},
	{"select_lt", "SELECT id FROM t WHERE id < {K6}"},
	{"select_eq", "SELECT id, k FROM t WHERE id = {K7}"},
	{"select_count", "SELECT COUNT(*) FROM t"},
	{"select_order_limit", "SELECT id, k FROM t ORDER BY id LIMIT 1, 2"},
	{"delete_eq", "DELETE FROM t WHERE id = {K7}"},
	{"delete_not_between", "DELETE FROM t WHERE id NOT BETWEEN {K2} AND {K6} AND k = 99"},
	{"update_le", "UPDATE t SET k = 9 WHERE id <= {K2}"},
	{"update_or", "UPDATE t SET v = 'q' WHERE id = {K1} OR id = {K6}"},
	{"child_insert", "INSERT INTO t2 (id, w) VALUES ({K3}, 33)"},
	{"child_delete", "DELETE FROM t2 WHERE id = {K5}"},
	{"join_select", "SELECT t.k FROM t JOIN t2 ON t.id = t2.id WHERE t.id = {K3}"},
	{"global_insert", "INSERT INTO g (gid, name) VALUES (5, 'q')"},
	{"global_update", "UPDATE g SET name = 'q' WHERE gid = 1"},
	{"global_select", "SELECT name FROM g WHERE gid = 2"},
}

// Subst renders {Kn} placeholders for a layout.
func Subst(s string, l Layout) string {
	if strings.Contains(s, "{K") {
		for i := 1; i <= NKeys; i++ {
			s = strings.ReplaceAll(s, fmt.Sprintf("{K%d}", i), l.KeyLit(i))
		}
	}
	return s
}

// Step is the outcome of one statement of a history.
type Step struct {
	SQL      string
	RefErr   error // the single database refused it (not valid for the reference)
	GaeaErr  error // the proxy refused it (build or execution)
	Affected uint64
	RefAff   uint64
	Calls    []Call
}

// Apply runs one statement on both sides of a store: sqlref on the single database
// (st.Union) and Gaea's plan, built on THIS rig's router, on the shards.
func (r *Rig) Apply(st *Store, sql string) Step {
	s := Step{SQL: sql}
	var stmt ast.StmtNode
	stmt, s.RefErr = r.Parse(sql)
	if s.RefErr != nil {
		return s
	}
	// the proxy first: a statement it refuses does not reach the single database either
	p, err := r.Build(sql)
	if err != nil {
		s.GaeaErr = err
		return s
	}
	ex := r.NewExec(st)
	gres, err, _ := ex.Run(p)
	s.Calls = append([]Call{}, ex.Calls...)
	if err != nil {
		s.GaeaErr = err
		return s
	}
	if gres != nil {
		s.Affected = gres.AffectedRows
	}
	res, err := sqlref.Exec(st.Union, stmt)
	if err != nil {
		s.RefErr = err
	} else {
		s.RefAff = res.AffectedRows
	}
	return s
}

// Fresh returns a rig with a NEW router for the same layout (sharing the parser): the state
// a statement sees on a proxy that has not executed anything yet.
func (r *Rig) Fresh() *Rig {
	n, err := NewWithParser(r.L, r.P)
	if err != nil {
		panic(err)
	}
	return n
}

// CallsText renders the statements sent to the backends (the observable plan).
func CallsText(cs []Call) []string {
	out := make([]string, len(cs))
	for i, c := range cs {
		out[i] = c.Slice + "/" + c.DB + ": " + c.SQL
	}
	return out
}

// TRows returns the rows of the logical table t of the single database and the rows of
// all its physical copies (encoded, sorted), and a description of a misplaced row if any.
func (r *Rig) TRows(st *Store) (ref, shards []string, misplaced string) {
	for _, row := range st.Union.Tables[LogicDB+".t"].Rows {
		ref = append(ref, sqlref.EncodeRow(row))
	}
	var names []string
	for n := range st.Phys {
		names = append(names, n)
	}
	sort.Strings(names)
	for _, n := range names {
		idx := st.Phys[n]
		i := strings.Index(n, "/")
		j := strings.LastIndex(n, ".")
		t, err := st.Shards[n[:i]].Get(n[i+1:j], n[j+1:])
		if err != nil {
			continue
		}
		for _, row := range t.Rows {
			shards = append(shards, sqlref.EncodeRow(row))
			want, err := r.Rule.FindTableIndex(row[0])
			if err != nil || want != idx {
				misplaced = fmt.Sprintf("row %s sits in table %d (%s) but its key maps to %d", sqlref.EncodeRow(row), idx, n, want)
			}
		}
	}
	sort.Strings(ref)
	sort.Strings(shards)
	return
}

// SameRows compares two sorted encodings.
func SameRows(a, b []string) bool {
	if len(a) != len(b) {
		return false
	}
	for i := range a {
		if a[i] != b[i] {
			return false
		}
	}
	return true
}
