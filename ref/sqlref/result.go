package sqlref

import (
	"github.com/XiaoMi/Gaea/mysql"
	"github.com/XiaoMi/Gaea/parser/model"
)

func ciStr(s string) model.CIStr { return model.NewCIStr(s) }

// Result renders the relation the way a backend connection hands a result set to the
// merger: Fields with MySQL's result types, text-protocol RowDatas, and Values produced
// from those rows by Gaea's own RowData.ParseText.
func (r *Rel) Result() (*mysql.Result, error) {
	rs := &mysql.Resultset{}
	if r.prep != nil && r.prep.flds != nil && len(r.prep.flds) == len(r.Names) {
		// the field list of a statement is static; Gaea's merger never writes into a
		// Field or the name map, so every result of the statement shares them (each
		// result gets its own slice, which the merger does re-slice)
		rs.Fields = append(make([]*mysql.Field, 0, len(r.Names)), r.prep.flds...)
		rs.FieldNames = r.prep.names
	} else {
		rs.FieldNames = map[string]int{}
		for i, n := range r.Names {
			f := &mysql.Field{Name: []byte(n), OrgName: []byte(n), Type: r.Types[i].MySQLType(), Charset: 33}
			if r.Types[i].K == KDec {
				f.Decimal = uint8(r.Types[i].Scale)
			}
			rs.Fields = append(rs.Fields, f)
			rs.FieldNames[n] = i
		}
		if r.prep != nil {
			r.prep.flds = append([]*mysql.Field{}, rs.Fields...)
			r.prep.names = rs.FieldNames
		}
	}
	rs.Values = make([][]interface{}, 0, len(r.Rows))
	rs.RowDatas = make([]mysql.RowData, 0, len(r.Rows))
	for _, row := range r.Rows {
		rd := make([]byte, 0, 48)
		for i, v := range row {
			b := Text(v, r.Types[i])
			if v == nil {
				rd = append(rd, 0xfb)
			} else {
				rd = mysql.AppendLenEncStringBytes(rd, b)
			}
		}
		vals, err := mysql.RowData(rd).ParseText(rs.Fields)
		if err != nil {
			return nil, err
		}
		rs.RowDatas = append(rs.RowDatas, rd)
		rs.Values = append(rs.Values, vals)
	}
	return &mysql.Result{Status: mysql.ServerStatusAutocommit, Resultset: rs}, nil
}

// Cells decodes text-protocol rows into cells (nil = NULL); ok=false on malformed rows.
func Cells(rows []mysql.RowData, ncol int) ([][][]byte, bool) {
	out := make([][][]byte, 0, len(rows))
	for _, rd := range rows {
		pos := 0
		cells := make([][]byte, 0, ncol)
		for c := 0; c < ncol; c++ {
			v, np, isNull, ok := mysql.ReadLenEncStringAsBytes(rd, pos)
			if !ok {
				return nil, false
			}
			pos = np
			if isNull {
				cells = append(cells, nil)
			} else {
				if v == nil {
					v = []byte{}
				}
				cells = append(cells, v)
			}
		}
		if pos != len(rd) {
			return nil, false
		}
		out = append(out, cells)
	}
	return out, true
}
