package sqlref

import (
	"sort"
	"strings"

	"github.com/shopspring/decimal"

	"github.com/XiaoMi/Gaea/mysql"
	"github.com/XiaoMi/Gaea/parser/ast"
	"github.com/XiaoMi/Gaea/parser/format"
	driver "github.com/XiaoMi/Gaea/parser/tidb-types/parser_driver"
)

// Rel is the answer of a SELECT / UNION: rows in their final order plus, for every row,
// the tuple of ORDER BY keys it was sorted by (so a caller can tell which rows tie).
type Rel struct {
	Names []string
	Types []Type
	Rows  [][]Value
	Keys  [][]Value // nil when the statement has no ORDER BY
	Desc  []bool

	// top-level LIMIT; applied to Rows/Keys only if the evaluation was asked to
	HasLimit      bool
	Offset, Count int64
	LimitApplied  bool

	prep *Prepared // lets Result() reuse the static field list
}

type rowset struct {
	sc   *scope
	rows [][]Value
}

type ev struct {
	db    *DB
	memo  map[ast.Node]string // restored text of expressions (per evaluation or per Prepared)
	plans map[*ast.SelectStmt]*selPlan
	prep  *Prepared
}

func (e *ev) text(x ast.ExprNode) string {
	if s, ok := e.memo[x]; ok {
		return s
	}
	s := exprText(x)
	if e.memo == nil {
		e.memo = map[ast.Node]string{}
	}
	e.memo[x] = s
	return s
}

func (e *ev) resultSet(n ast.ResultSetNode) (*rowset, error) {
	switch x := n.(type) {
	case *ast.TableSource:
		switch s := x.Source.(type) {
		case *ast.TableName:
			t, err := e.db.Get(s.Schema.L, s.Name.L)
			if err != nil {
				return nil, err
			}
			alias := x.AsName.L
			if alias == "" {
				alias = s.Name.L
			}
			db := s.Schema.L
			if db == "" {
				db = e.db.Default
			}
			return &rowset{sc: t.scope(db, alias), rows: t.Rows}, nil
		case *ast.Join:
			return e.join(s)
		}
		return nil, unsupported("table source %T", x.Source)
	case *ast.Join:
		return e.join(x)
	}
	return nil, unsupported("result set node %T", n)
}

func (e *ev) join(j *ast.Join) (*rowset, error) {
	left, err := e.resultSet(j.Left)
	if err != nil {
		return nil, err
	}
	if j.Right == nil {
		return left, nil
	}
	right, err := e.resultSet(j.Right)
	if err != nil {
		return nil, err
	}
	if j.NaturalJoin || j.StraightJoin {
		return nil, unsupported("natural / straight join")
	}
	if j.Tp != ast.CrossJoin && j.Tp != ast.LeftJoin {
		return nil, unsupported("join type %d", j.Tp)
	}
	// duplicate table aliases are an error in MySQL
	seen := map[string]bool{}
	for _, c := range left.sc.cols {
		seen[c.db+"."+c.tbl] = true
	}
	for _, c := range right.sc.cols {
		if seen[c.db+"."+c.tbl] {
			return nil, invalid("not unique table/alias %s", c.tbl)
		}
	}
	nl := len(left.sc.cols)
	sc := &scope{cols: append(append([]scol{}, left.sc.cols...), right.sc.cols...)}
	type pair struct{ l, r int }
	var using []pair
	for _, u := range j.Using {
		li, err := left.sc.resolve(&ast.ColumnName{Name: u.Name})
		if err != nil {
			return nil, err
		}
		ri, err := right.sc.resolve(&ast.ColumnName{Name: u.Name})
		if err != nil {
			return nil, err
		}
		using = append(using, pair{li, ri})
	}
	out := &rowset{sc: sc}
	for _, l := range left.rows {
		matched := false
		for _, r := range right.rows {
			row := append(append(make([]Value, 0, len(sc.cols)), l...), r...)
			ok := true
			if j.On != nil {
				v, err := eval(j.On.Expr, &rowCtx{sc: sc, row: row})
				if err != nil {
					return nil, err
				}
				t, err := truth(v)
				if err != nil {
					return nil, err
				}
				ok = t == 1
			}
			for _, p := range using {
				t, err := cmpTri(l[p.l], r[p.r], func(c int) bool { return c == 0 })
				if err != nil {
					return nil, err
				}
				if t != 1 {
					ok = false
				}
			}
			if ok {
				matched = true
				out.rows = append(out.rows, row)
			}
		}
		if !matched && j.Tp == ast.LeftJoin {
			row := append(make([]Value, 0, len(sc.cols)), l...)
			for range right.sc.cols {
				row = append(row, nil)
			}
			out.rows = append(out.rows, row)
		}
	}
	if len(using) > 0 {
		// USING: the joined columns come first (once), the right-hand copies stay
		// reachable by their qualified names only.
		perm := make([]int, 0, len(sc.cols))
		used := map[int]bool{}
		for _, p := range using {
			perm = append(perm, p.l)
			used[p.l] = true
		}
		for i := range sc.cols {
			if !used[i] {
				perm = append(perm, i)
			}
		}
		hidden := map[int]bool{}
		for _, p := range using {
			hidden[nl+p.r] = true
		}
		nsc := &scope{}
		for _, i := range perm {
			c := sc.cols[i]
			if hidden[i] {
				c.hidden = true
			}
			nsc.cols = append(nsc.cols, c)
		}
		rows := make([][]Value, len(out.rows))
		for k, r := range out.rows {
			nr := make([]Value, len(perm))
			for a, i := range perm {
				nr[a] = r[i]
			}
			rows[k] = nr
		}
		out = &rowset{sc: nsc, rows: rows}
	}
	return out, nil
}

type selItem struct {
	expr   ast.ExprNode
	colIdx int // >= 0: a plain column of the FROM scope
	name   string
	alias  string
	typ    Type
	text   string
}

func exprText(e ast.ExprNode) string {
	var sb strings.Builder
	if err := e.Restore(format.NewRestoreCtx(format.DefaultRestoreFlags, &sb)); err != nil {
		return "?"
	}
	return sb.String()
}

// groupCtx evaluates expressions over one group of rows.
type groupCtx struct {
	sc      *scope
	rows    [][]Value
	keyCols map[int]bool
}

func (g *groupCtx) column(n *ast.ColumnName) (Value, error) {
	i, err := g.sc.resolve(n)
	if err != nil {
		return nil, err
	}
	return g.colByIdx(i)
}

func (g *groupCtx) colByIdx(i int) (Value, error) {
	if !g.keyCols[i] {
		return nil, invalid("column %s is neither grouped nor aggregated", g.sc.cols[i].name)
	}
	return g.rows[0][i], nil
}

func (g *groupCtx) aggregate(a *ast.AggregateFuncExpr) (Value, error) {
	f := strings.ToLower(a.F)
	if !isAgg(f) {
		return nil, unsupported("aggregate function %s", a.F)
	}
	if len(a.Args) != 1 {
		return nil, unsupported("%s with %d arguments", a.F, len(a.Args))
	}
	star := false
	if v, ok := a.Args[0].(*driver.ValueExpr); ok && f == "count" {
		// COUNT(*) is parsed as COUNT(1): a non-NULL literal counts every row
		lv, _, err := literal(v)
		if err != nil {
			return nil, err
		}
		star = lv != nil
	}
	var vals []Value
	seen := map[string]bool{}
	for _, r := range g.rows {
		if star {
			vals = append(vals, int64(1))
			continue
		}
		v, err := eval(a.Args[0], &rowCtx{sc: g.sc, row: r})
		if err != nil {
			return nil, err
		}
		if v == nil {
			continue
		}
		if a.Distinct {
			k := Encode(v)
			if seen[k] {
				continue
			}
			seen[k] = true
		}
		vals = append(vals, v)
	}
	switch f {
	case "count":
		return int64(len(vals)), nil
	case "sum":
		if len(vals) == 0 {
			return nil, nil
		}
		sum := decimal.Zero
		for _, v := range vals {
			d, ok := toDec(v)
			if !ok {
				return nil, unsupported("SUM of a string")
			}
			sum = sum.Add(d)
		}
		return sum, nil
	default:
		if len(vals) == 0 {
			return nil, nil
		}
		best := vals[0]
		for _, v := range vals[1:] {
			c, err := Compare(v, best)
			if err != nil {
				return nil, err
			}
			if (f == "max" && c > 0) || (f == "min" && c < 0) {
				best = v
			}
		}
		return best, nil
	}
}

type ordKey struct {
	outCol int
	expr   ast.ExprNode
}

func limitOf(l *ast.Limit) (has bool, off, cnt int64, err error) {
	if l == nil {
		return false, 0, 0, nil
	}
	get := func(e ast.ExprNode) (int64, error) {
		v, ok := e.(*driver.ValueExpr)
		if !ok {
			return 0, unsupported("non-literal LIMIT")
		}
		lv, _, err := literal(v)
		if err != nil {
			return 0, err
		}
		n, ok := lv.(int64)
		if !ok || n < 0 {
			return 0, invalid("bad LIMIT value")
		}
		return n, nil
	}
	cnt, err = get(l.Count)
	if err != nil {
		return
	}
	if l.Offset != nil {
		off, err = get(l.Offset)
		if err != nil {
			return
		}
	}
	return true, off, cnt, nil
}

// selPlan is everything about a SELECT that depends on the schema only, not on the data.
type selPlan struct {
	items   []selItem
	ords    []ordKey
	desc    []bool
	grouped bool
	keyCols map[int]bool
	keyList []int
	names   []string
	types   []Type
	hasLim  bool
	off     int64
	cnt     int64
	err     error
}

func (e *ev) analyse(s *ast.SelectStmt, sc *scope) *selPlan {
	if p, ok := e.plans[s]; ok {
		return p
	}
	p := &selPlan{}
	p.err = e.analyse1(s, sc, p)
	if e.plans != nil {
		e.plans[s] = p
	}
	return p
}

func (e *ev) analyse1(s *ast.SelectStmt, sc *scope, p *selPlan) error {
	if s.Where != nil && hasAggregate(s.Where) {
		return invalid("aggregate in WHERE")
	}
	// select list
	items := make([]selItem, 0, len(s.Fields.Fields)+len(sc.cols))
	hasAgg := false
	for _, f := range s.Fields.Fields {
		if f.WildCard != nil {
			n := 0
			for i, c := range sc.cols {
				if f.WildCard.Table.L != "" {
					if c.tbl != f.WildCard.Table.L || (f.WildCard.Schema.L != "" && c.db != f.WildCard.Schema.L) {
						continue
					}
				} else if c.hidden {
					continue
				}
				items = append(items, selItem{colIdx: i, name: c.name, typ: c.typ, text: c.tbl + "." + c.name})
				n++
			}
			if n == 0 {
				return invalid("unknown table in wildcard")
			}
			continue
		}
		it := selItem{expr: f.Expr, colIdx: -1, alias: f.AsName.L}
		inner := f.Expr
		for {
			pe, ok := inner.(*ast.ParenthesesExpr)
			if !ok {
				break
			}
			inner = pe.Expr
		}
		if c, ok := inner.(*ast.ColumnNameExpr); ok {
			i, err := sc.resolve(c.Name)
			if err != nil {
				return err
			}
			it.colIdx = i
			it.name = c.Name.Name.O
		} else {
			it.text = e.text(f.Expr)
			it.name = it.text
		}
		if f.AsName.O != "" {
			it.name = f.AsName.O
		}
		t, err := typeOf(f.Expr, sc)
		if err != nil {
			return err
		}
		if t.K == KNull {
			return unsupported("NULL literal in select list")
		}
		it.typ = t
		if hasAggregate(f.Expr) {
			hasAgg = true
		}
		items = append(items, it)
	}
	p.items = items

	// ORDER BY resolution
	if s.OrderBy != nil {
		for _, bi := range s.OrderBy.Items {
			p.desc = append(p.desc, bi.Desc)
			k := ordKey{outCol: -1, expr: bi.Expr}
			switch x := bi.Expr.(type) {
			case *ast.PositionExpr:
				if x.N < 1 || x.N > len(items) {
					return invalid("ORDER BY position %d out of range", x.N)
				}
				k.outCol = x.N - 1
			case *ast.ColumnNameExpr:
				if x.Name.Table.L == "" {
					for i, it := range items {
						if it.alias != "" && it.alias == x.Name.Name.L {
							k.outCol = i
							break
						}
					}
				}
				if k.outCol < 0 {
					ci, err := sc.resolve(x.Name)
					if err != nil {
						return err
					}
					for i, it := range items {
						if it.colIdx == ci {
							k.outCol = i
							break
						}
					}
				}
			case *driver.ValueExpr:
				return unsupported("ORDER BY constant")
			default:
				txt := e.text(bi.Expr)
				for i, it := range items {
					if it.colIdx < 0 && it.text == txt {
						k.outCol = i
						break
					}
				}
				if hasAggregate(bi.Expr) {
					hasAgg = true
				}
				if _, err := typeOf(bi.Expr, sc); err != nil {
					return err
				}
			}
			if s.Distinct && k.outCol < 0 {
				return invalid("ORDER BY expression is not in the SELECT DISTINCT list")
			}
			p.ords = append(p.ords, k)
		}
	}

	p.grouped = s.GroupBy != nil || hasAgg
	if p.grouped {
		p.keyCols = map[int]bool{}
		if s.GroupBy != nil {
			for _, bi := range s.GroupBy.Items {
				idx := -1
				switch x := bi.Expr.(type) {
				case *ast.PositionExpr:
					if x.N < 1 || x.N > len(items) {
						return invalid("GROUP BY position %d out of range", x.N)
					}
					idx = items[x.N-1].colIdx
				case *ast.ColumnNameExpr:
					ci, err := sc.resolve(x.Name)
					if err == nil {
						idx = ci
					} else if x.Name.Table.L == "" {
						found := false
						for _, it := range items {
							if it.alias != "" && it.alias == x.Name.Name.L {
								idx = it.colIdx
								found = true
								break
							}
						}
						if !found {
							return err
						}
					} else {
						return err
					}
				default:
					return unsupported("GROUP BY expression %T", bi.Expr)
				}
				if idx < 0 {
					return unsupported("GROUP BY on a computed select item")
				}
				if !p.keyCols[idx] {
					p.keyCols[idx] = true
					p.keyList = append(p.keyList, idx)
				}
			}
		}
		// every column outside an aggregate must be a group key (ONLY_FULL_GROUP_BY)
		for _, it := range items {
			if it.colIdx >= 0 && !p.keyCols[it.colIdx] {
				return invalid("column %s is neither grouped nor aggregated", it.name)
			}
			if it.colIdx < 0 {
				if err := checkGrouped(it.expr, sc, p.keyCols); err != nil {
					return err
				}
			}
		}
		for _, k := range p.ords {
			if k.outCol < 0 {
				if err := checkGrouped(k.expr, sc, p.keyCols); err != nil {
					return err
				}
			}
		}
	}
	for _, it := range items {
		p.names = append(p.names, it.name)
		p.types = append(p.types, it.typ)
	}
	var err error
	p.hasLim, p.off, p.cnt, err = limitOf(s.Limit)
	return err
}

type outRow struct {
	vals []Value
	keys []Value
}

func (e *ev) selectStmt(s *ast.SelectStmt, applyLimit bool) (*Rel, error) {
	if s.Having != nil {
		return nil, unsupported("HAVING")
	}
	if s.From == nil || s.From.TableRefs == nil {
		return nil, unsupported("SELECT without FROM")
	}
	if len(s.WindowSpecs) != 0 {
		return nil, unsupported("window functions")
	}
	src, err := e.join(s.From.TableRefs)
	if err != nil {
		return nil, err
	}
	sc := src.sc
	p := e.analyse(s, sc)
	if p.err != nil {
		return nil, p.err
	}

	// WHERE
	rows := src.rows
	if s.Where != nil {
		rows = make([][]Value, 0, len(src.rows))
		c := &rowCtx{sc: sc}
		for _, r := range src.rows {
			c.row = r
			v, err := eval(s.Where, c)
			if err != nil {
				return nil, err
			}
			t, err := truth(v)
			if err != nil {
				return nil, err
			}
			if t == 1 {
				rows = append(rows, r)
			}
		}
	}

	items, ords := p.items, p.ords
	out := make([]outRow, 0, len(rows))
	if p.grouped {
		var order []string
		var groups map[string][][]Value
		if s.GroupBy == nil {
			order = []string{""}
			groups = map[string][][]Value{"": rows}
		} else {
			groups = map[string][][]Value{}
			kv := make([]Value, len(p.keyList))
			for _, r := range rows {
				for a, i := range p.keyList {
					kv[a] = r[i]
				}
				k := EncodeRow(kv)
				if _, ok := groups[k]; !ok {
					order = append(order, k)
				}
				groups[k] = append(groups[k], r)
			}
		}
		for _, gk := range order {
			g := &groupCtx{sc: sc, rows: groups[gk], keyCols: p.keyCols}
			or := outRow{vals: make([]Value, 0, len(items))}
			for _, it := range items {
				var v Value
				var err error
				if it.colIdx >= 0 {
					v, err = g.colByIdx(it.colIdx)
				} else {
					v, err = eval(it.expr, g)
				}
				if err != nil {
					return nil, err
				}
				or.vals = append(or.vals, v)
			}
			for _, k := range ords {
				if k.outCol >= 0 {
					or.keys = append(or.keys, or.vals[k.outCol])
					continue
				}
				v, err := eval(k.expr, g)
				if err != nil {
					return nil, err
				}
				or.keys = append(or.keys, v)
			}
			out = append(out, or)
		}
	} else {
		c := &rowCtx{sc: sc}
		for _, r := range rows {
			c.row = r
			or := outRow{vals: make([]Value, 0, len(items))}
			for _, it := range items {
				if it.colIdx >= 0 {
					or.vals = append(or.vals, r[it.colIdx])
					continue
				}
				v, err := eval(it.expr, c)
				if err != nil {
					return nil, err
				}
				or.vals = append(or.vals, v)
			}
			if len(ords) > 0 {
				or.keys = make([]Value, 0, len(ords))
			}
			for _, k := range ords {
				if k.outCol >= 0 {
					or.keys = append(or.keys, or.vals[k.outCol])
					continue
				}
				v, err := eval(k.expr, c)
				if err != nil {
					return nil, err
				}
				or.keys = append(or.keys, v)
			}
			out = append(out, or)
		}
	}

	if s.Distinct {
		seen := map[string]bool{}
		d := out[:0:0]
		for _, r := range out {
			k := EncodeRow(r.vals)
			if seen[k] {
				continue
			}
			seen[k] = true
			d = append(d, r)
		}
		out = d
	}

	if len(ords) > 0 {
		var sortErr error
		sort.SliceStable(out, func(i, j int) bool {
			c, err := compareKeys(out[i].keys, out[j].keys, p.desc)
			if err != nil {
				sortErr = err
			}
			return c < 0
		})
		if sortErr != nil {
			return nil, sortErr
		}
	}

	rel := &Rel{Desc: p.desc, Names: p.names, Types: p.types, Rows: make([][]Value, len(out)), prep: e.prep}
	if len(ords) > 0 {
		rel.Keys = make([][]Value, len(out))
	}
	for i, r := range out {
		rel.Rows[i] = r.vals
		if len(ords) > 0 {
			rel.Keys[i] = r.keys
		}
	}
	rel.HasLimit, rel.Offset, rel.Count = p.hasLim, p.off, p.cnt
	if applyLimit {
		rel.applyLimit()
	}
	return rel, nil
}

// checkGrouped statically checks that every column outside an aggregate is a group key.
func checkGrouped(e ast.ExprNode, sc *scope, keyCols map[int]bool) error {
	switch x := e.(type) {
	case *ast.ColumnNameExpr:
		i, err := sc.resolve(x.Name)
		if err != nil {
			return err
		}
		if !keyCols[i] {
			return invalid("column %s is neither grouped nor aggregated", x.Name.Name.O)
		}
	case *ast.ParenthesesExpr:
		return checkGrouped(x.Expr, sc, keyCols)
	case *ast.UnaryOperationExpr:
		return checkGrouped(x.V, sc, keyCols)
	case *ast.BinaryOperationExpr:
		if err := checkGrouped(x.L, sc, keyCols); err != nil {
			return err
		}
		return checkGrouped(x.R, sc, keyCols)
	case *ast.AggregateFuncExpr:
		for _, a := range x.Args {
			if _, err := typeOf(a, sc); err != nil {
				return err
			}
		}
	}
	return nil
}

// CompareKeys compares two ORDER BY key tuples under the given directions.
func compareKeys(a, b []Value, desc []bool) (int, error) {
	for i := range a {
		c, err := Compare(a[i], b[i])
		if err != nil {
			return 0, err
		}
		if i < len(desc) && desc[i] {
			c = -c
		}
		if c != 0 {
			return c, nil
		}
	}
	return 0, nil
}

// SameKeys reports whether rows i and j of the relation tie under its ORDER BY (always
// true without ORDER BY).
func (r *Rel) SameKeys(i, j int) bool {
	if r.Keys == nil {
		return true
	}
	c, err := compareKeys(r.Keys[i], r.Keys[j], r.Desc)
	return err == nil && c == 0
}

func (r *Rel) applyLimit() {
	if !r.HasLimit || r.LimitApplied {
		return
	}
	r.LimitApplied = true
	n := int64(len(r.Rows))
	lo := r.Offset
	if lo > n {
		lo = n
	}
	hi := lo + r.Count
	if hi > n {
		hi = n
	}
	r.Rows = r.Rows[lo:hi]
	if r.Keys != nil {
		r.Keys = r.Keys[lo:hi]
	}
}

func (e *ev) unionStmt(u *ast.UnionStmt, applyLimit bool) (*Rel, error) {
	if u.SelectList == nil || len(u.SelectList.Selects) == 0 {
		return nil, unsupported("empty UNION")
	}
	var rel *Rel
	for i, sel := range u.SelectList.Selects {
		if sel.Limit != nil || sel.OrderBy != nil {
			return nil, unsupported("ORDER BY / LIMIT inside a UNION branch")
		}
		r, err := e.selectStmt(sel, true)
		if err != nil {
			return nil, err
		}
		if i == 0 {
			rel = &Rel{Names: r.Names, Types: r.Types, Rows: append([][]Value{}, r.Rows...), prep: e.prep}
			continue
		}
		if len(r.Types) != len(rel.Types) {
			return nil, invalid("UNION branches have different column counts")
		}
		for c := range r.Types {
			if r.Types[c] != rel.Types[c] {
				return nil, unsupported("UNION of different column types")
			}
		}
		rel.Rows = append(rel.Rows, r.Rows...)
		if sel.IsAfterUnionDistinct {
			seen := map[string]bool{}
			var d [][]Value
			for _, row := range rel.Rows {
				k := EncodeRow(row)
				if seen[k] {
					continue
				}
				seen[k] = true
				d = append(d, row)
			}
			rel.Rows = d
		}
	}
	if u.OrderBy != nil {
		var cols []int
		for _, bi := range u.OrderBy.Items {
			rel.Desc = append(rel.Desc, bi.Desc)
			switch x := bi.Expr.(type) {
			case *ast.PositionExpr:
				if x.N < 1 || x.N > len(rel.Names) {
					return nil, invalid("ORDER BY position out of range")
				}
				cols = append(cols, x.N-1)
			case *ast.ColumnNameExpr:
				if x.Name.Table.L != "" {
					return nil, invalid("qualified column in UNION ORDER BY")
				}
				idx := -1
				for i, n := range rel.Names {
					if strings.ToLower(n) == x.Name.Name.L {
						idx = i
						break
					}
				}
				if idx < 0 {
					return nil, invalid("unknown column %s in UNION ORDER BY", x.Name.Name.O)
				}
				cols = append(cols, idx)
			default:
				return nil, invalid("expression in UNION ORDER BY")
			}
		}
		type kr struct{ row, keys []Value }
		krs := make([]kr, len(rel.Rows))
		for i, row := range rel.Rows {
			k := make([]Value, len(cols))
			for a, c := range cols {
				k[a] = row[c]
			}
			krs[i] = kr{row, k}
		}
		var sortErr error
		sort.SliceStable(krs, func(i, j int) bool {
			c, err := compareKeys(krs[i].keys, krs[j].keys, rel.Desc)
			if err != nil {
				sortErr = err
			}
			return c < 0
		})
		if sortErr != nil {
			return nil, sortErr
		}
		rel.Keys = [][]Value{}
		for i := range krs {
			rel.Rows[i] = krs[i].row
			rel.Keys = append(rel.Keys, krs[i].keys)
		}
	}
	var err error
	rel.HasLimit, rel.Offset, rel.Count, err = limitOf(u.Limit)
	if err != nil {
		return nil, err
	}
	if applyLimit {
		rel.applyLimit()
	}
	return rel, nil
}

// Query evaluates a SELECT or UNION. With applyLimit=false the top-level LIMIT is parsed
// (HasLimit/Offset/Count) but not applied, so a caller can judge *which* windows are valid.
func Query(db *DB, stmt ast.StmtNode, applyLimit bool) (*Rel, error) {
	return (&Prepared{Stmt: stmt}).Query(db, applyLimit)
}

// Prepared is a statement plus what the evaluator learned about it that does not depend
// on the data (restored expression texts); use it when one statement is evaluated on many
// contents. Not safe for concurrent use.
type Prepared struct {
	Stmt  ast.StmtNode
	memo  map[ast.Node]string
	plans map[*ast.SelectStmt]*selPlan
	flds  []*mysql.Field
	names map[string]int
}

// Query evaluates the prepared SELECT / UNION.
func (p *Prepared) Query(db *DB, applyLimit bool) (*Rel, error) {
	if p.memo == nil {
		p.memo = map[ast.Node]string{}
		p.plans = map[*ast.SelectStmt]*selPlan{}
	}
	stmt := p.Stmt
	e := &ev{db: db, memo: p.memo, plans: p.plans, prep: p}
	switch s := stmt.(type) {
	case *ast.SelectStmt:
		return e.selectStmt(s, applyLimit)
	case *ast.UnionStmt:
		return e.unionStmt(s, applyLimit)
	}
	return nil, unsupported("statement %T is not a query", stmt)
}
