// Package sqlref is a small, boring SQL evaluator over Gaea's own parser AST on in-memory
// tables. It is the "one MySQL database" oracle of C02/C05 and, at the same time, the
// backend that answers every per-shard statement Gaea generates, so that only routing,
// rewriting and merging can make the two answers differ.
//
// Supported subset (everything else is an *Unsupported error, never a guess):
//
//	SELECT [DISTINCT] cols | * | t.* | expr [AS a] | COUNT/SUM/MAX/MIN([DISTINCT] x) | COUNT(*)
//	FROM t [AS a] | a JOIN b ON c | a LEFT JOIN b ON c | a JOIN b USING (c) | a, b
//	WHERE with = <> != < <= > >= IN BETWEEN IS [NOT] NULL AND OR NOT, + - on numbers
//	GROUP BY cols | aliases | positions       ORDER BY cols | aliases | positions | aggregates
//	LIMIT n | LIMIT o,n | LIMIT n OFFSET o     UNION [ALL] with union-level ORDER BY / LIMIT
//	INSERT/REPLACE ... VALUES | SET   UPDATE ... SET ... WHERE   DELETE FROM ... WHERE
//
// Semantics follow MySQL with sql_mode ONLY_FULL_GROUP_BY: a statement whose answer MySQL
// leaves undefined (bare column next to an aggregate, ORDER BY a column that is neither
// grouped nor selected under DISTINCT, ...) is rejected with an error, so callers never
// compare against an arbitrary choice. Strings compare bytewise (binary collation);
// numbers compare numerically; a string is never compared with a number (error).
package sqlref

import (
	"fmt"
	"strconv"
	"strings"

	"github.com/shopspring/decimal"

	"github.com/XiaoMi/Gaea/mysql"
)

// Value is nil (SQL NULL), int64, decimal.Decimal or string.
type Value = interface{}

// Kind is the static type of a column or expression.
type Kind int

const (
	KInt  Kind = iota // INT column            -> MYSQL_TYPE_LONG
	KBig              // COUNT(), int literal  -> MYSQL_TYPE_LONGLONG
	KDec              // DECIMAL(p,Scale)      -> MYSQL_TYPE_NEWDECIMAL
	KStr              // VARCHAR               -> MYSQL_TYPE_VAR_STRING
	KDate             // DATE (value kept as 'YYYY-MM-DD' string) -> MYSQL_TYPE_DATE
	KNull             // the literal NULL
)

// Type is a Kind plus the scale of decimals.
type Type struct {
	K     Kind
	Scale int32
}

func (t Type) numeric() bool { return t.K == KInt || t.K == KBig || t.K == KDec }
func (t Type) stringy() bool { return t.K == KStr || t.K == KDate }

// MySQLType is the protocol field type a MySQL server reports for this type.
func (t Type) MySQLType() uint8 {
	switch t.K {
	case KInt:
		return mysql.TypeLong
	case KBig:
		return mysql.TypeLonglong
	case KDec:
		return mysql.TypeNewDecimal
	case KStr:
		return mysql.TypeVarString
	case KDate:
		return mysql.TypeDate
	}
	return mysql.TypeNull
}

// Column of a table.
type Column struct {
	Name string
	Type Type
}

// Table is an in-memory table; Rows hold one Value per column.
type Table struct {
	DB   string
	Name string
	Cols []Column
	Rows [][]Value

	sc *scope // scope under the table's own schema and name, built by DB.Add (read-only afterwards)
}

// scope returns the table's columns as a FROM scope under the given schema and alias.
func (t *Table) scope(db, alias string) *scope {
	if sc := t.sc; sc != nil && len(sc.cols) > 0 && sc.cols[0].db == db && sc.cols[0].tbl == alias {
		return sc
	}
	return t.newScope(db, alias)
}

// Clone returns a table with its own row list (the rows themselves are shared: UPDATE
// replaces rows, it never writes into one).
func (t *Table) Clone() *Table {
	return &Table{DB: t.DB, Name: t.Name, Cols: t.Cols, Rows: append(make([][]Value, 0, len(t.Rows)), t.Rows...), sc: t.sc}
}

// CloneWith returns a database in which the tables selected by mutable are clones and all
// other tables are shared with d.
func (d *DB) CloneWith(mutable func(*Table) bool) *DB {
	n := &DB{Default: d.Default, FoundRows: d.FoundRows, Tables: make(map[string]*Table, len(d.Tables))}
	for k, t := range d.Tables {
		if mutable(t) {
			t = t.Clone()
		}
		n.Tables[k] = t
	}
	return n
}

func (t *Table) newScope(db, alias string) *scope {
	sc := &scope{cols: make([]scol, 0, len(t.Cols))}
	for _, c := range t.Cols {
		sc.cols = append(sc.cols, scol{db: db, tbl: alias, name: strings.ToLower(c.Name), typ: c.Type})
	}
	return sc
}

// DB is a set of tables addressed by (schema, table); Default is the schema used for
// unqualified table names.
type DB struct {
	Default string
	Tables  map[string]*Table
	// FoundRows selects the CLIENT_FOUND_ROWS meaning of UPDATE's affected-row count
	// (rows matched) instead of MySQL's default (rows changed).
	FoundRows bool
}

func NewDB(def string) *DB { return &DB{Default: strings.ToLower(def), Tables: map[string]*Table{}} }

func key(db, table string) string { return strings.ToLower(db) + "." + strings.ToLower(table) }

// Add registers an (empty or filled) table.
func (d *DB) Add(t *Table) {
	t.sc = t.newScope(strings.ToLower(t.DB), strings.ToLower(t.Name))
	d.Tables[key(t.DB, t.Name)] = t
}

// Get looks a table up; schema "" means the default schema.
func (d *DB) Get(schema, table string) (*Table, error) {
	if schema == "" {
		schema = d.Default
	}
	t, ok := d.Tables[key(schema, table)]
	if !ok {
		return nil, fmt.Errorf("sqlref: table %s.%s doesn't exist", schema, table)
	}
	return t, nil
}

// Unsupported marks a construct outside the evaluator's subset.
type Unsupported struct{ What string }

func (u *Unsupported) Error() string { return "sqlref: unsupported: " + u.What }

func unsupported(format string, a ...interface{}) error {
	return &Unsupported{What: fmt.Sprintf(format, a...)}
}

// Invalid marks a statement MySQL would reject (or leave undefined).
type Invalid struct{ What string }

func (u *Invalid) Error() string { return "sqlref: invalid statement: " + u.What }

func invalid(format string, a ...interface{}) error {
	return &Invalid{What: fmt.Sprintf(format, a...)}
}

func toDec(v Value) (decimal.Decimal, bool) {
	switch x := v.(type) {
	case int64:
		return decimal.NewFromInt(x), true
	case decimal.Decimal:
		return x, true
	}
	return decimal.Decimal{}, false
}

// Compare orders two values the way MySQL's ORDER BY ... ASC does: NULL first, numbers
// numerically, strings bytewise. Comparing a string with a number is an error.
func Compare(a, b Value) (int, error) {
	if a == nil && b == nil {
		return 0, nil
	}
	if a == nil {
		return -1, nil
	}
	if b == nil {
		return 1, nil
	}
	switch x := a.(type) {
	case int64:
		if y, ok := b.(int64); ok {
			switch {
			case x < y:
				return -1, nil
			case x > y:
				return 1, nil
			}
			return 0, nil
		}
	case string:
		if y, ok := b.(string); ok {
			return strings.Compare(x, y), nil
		}
		return 0, unsupported("comparison of string with number")
	}
	if _, ok := b.(string); ok {
		return 0, unsupported("comparison of number with string")
	}
	da, ok1 := toDec(a)
	db, ok2 := toDec(b)
	if !ok1 || !ok2 {
		return 0, unsupported("comparison of %T with %T", a, b)
	}
	return da.Cmp(db), nil
}

// Encode is an injective rendering of a value (used for grouping, DISTINCT and multiset
// comparison): NULL, numbers (numerically normalised) and strings can never collide.
func Encode(v Value) string {
	switch x := v.(type) {
	case nil:
		return "N"
	case int64:
		return "#" + strconv.FormatInt(x, 10)
	case decimal.Decimal:
		if x.Equal(x.Truncate(0)) {
			return "#" + x.Truncate(0).String()
		}
		return "#" + trimZeros(x.String())
	case string:
		return "S" + strconv.Itoa(len(x)) + ":" + x
	}
	return fmt.Sprintf("?%T", v)
}

func trimZeros(s string) string {
	if strings.Contains(s, ".") {
		s = strings.TrimRight(s, "0")
		s = strings.TrimSuffix(s, ".")
	}
	return s
}

// EncodeRow encodes a tuple injectively.
func EncodeRow(r []Value) string {
	var sb strings.Builder
	for _, v := range r {
		sb.WriteString(Encode(v))
		sb.WriteByte('|')
	}
	return sb.String()
}

// Text is what a MySQL server sends for the value in the text protocol (nil = NULL).
func Text(v Value, t Type) []byte {
	switch x := v.(type) {
	case nil:
		return nil
	case int64:
		return strconv.AppendInt(nil, x, 10)
	case decimal.Decimal:
		sc := t.Scale
		if t.K != KDec {
			sc = -x.Exponent()
			if sc < 0 {
				sc = 0
			}
		}
		return []byte(x.StringFixed(sc))
	case string:
		return []byte(x)
	}
	panic(fmt.Sprintf("sqlref: bad value %T", v))
}

// coerce converts a literal value for storage in a column of type t.
func coerce(v Value, t Type) (Value, error) {
	if v == nil {
		return nil, nil
	}
	switch t.K {
	case KInt, KBig:
		if x, ok := v.(int64); ok {
			return x, nil
		}
	case KDec:
		if d, ok := toDec(v); ok {
			return d.Round(t.Scale), nil
		}
	case KStr, KDate:
		if s, ok := v.(string); ok {
			return s, nil
		}
	}
	return nil, unsupported("implicit cast of %T into column kind %d", v, t.K)
}
