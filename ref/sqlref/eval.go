package sqlref

import (
	"strings"

	"github.com/shopspring/decimal"

	"github.com/XiaoMi/Gaea/parser/ast"
	"github.com/XiaoMi/Gaea/parser/opcode"
	types "github.com/XiaoMi/Gaea/parser/tidb-types"
	driver "github.com/XiaoMi/Gaea/parser/tidb-types/parser_driver"
)

// scol is one column visible in a FROM scope.
type scol struct {
	db, tbl, name string // lower case; tbl is the alias if one was given
	typ           Type
	hidden        bool // right-hand copy of a USING column: reachable only when qualified
}

type scope struct{ cols []scol }

// resolve finds the column a name refers to; unknown and ambiguous names are errors.
func (s *scope) resolve(n *ast.ColumnName) (int, error) {
	found := -1
	for i, c := range s.cols {
		if c.name != n.Name.L {
			continue
		}
		if n.Table.L != "" {
			if c.tbl != n.Table.L {
				continue
			}
			if n.Schema.L != "" && c.db != n.Schema.L {
				continue
			}
		} else if c.hidden {
			continue
		}
		if found >= 0 {
			return -1, invalid("column %s is ambiguous", n.Name.O)
		}
		found = i
	}
	if found < 0 {
		return -1, invalid("unknown column %s", colText(n))
	}
	return found, nil
}

func colText(n *ast.ColumnName) string {
	s := n.Name.O
	if n.Table.O != "" {
		s = n.Table.O + "." + s
	}
	if n.Schema.O != "" {
		s = n.Schema.O + "." + s
	}
	return s
}

// ectx supplies column values and aggregate values to the expression evaluator.
type ectx interface {
	column(n *ast.ColumnName) (Value, error)
	aggregate(a *ast.AggregateFuncExpr) (Value, error)
}

// rowCtx evaluates over one row of a scope; aggregates are not allowed.
type rowCtx struct {
	sc  *scope
	row []Value
}

func (c *rowCtx) column(n *ast.ColumnName) (Value, error) {
	i, err := c.sc.resolve(n)
	if err != nil {
		return nil, err
	}
	return c.row[i], nil
}

func (c *rowCtx) aggregate(a *ast.AggregateFuncExpr) (Value, error) {
	return nil, invalid("aggregate function not allowed here")
}

func literal(v *driver.ValueExpr) (Value, Type, error) {
	switch v.Kind() {
	case types.KindNull:
		return nil, Type{K: KNull}, nil
	case types.KindInt64:
		return v.GetInt64(), Type{K: KBig}, nil
	case types.KindUint64:
		u := v.GetUint64()
		if u > 1<<62 {
			return nil, Type{}, unsupported("huge unsigned literal")
		}
		return int64(u), Type{K: KBig}, nil
	case types.KindString, types.KindBytes:
		return v.GetString(), Type{K: KStr}, nil
	case types.KindMysqlDecimal:
		d, err := decimal.NewFromString(v.GetMysqlDecimal().String())
		if err != nil {
			return nil, Type{}, unsupported("decimal literal: %v", err)
		}
		sc := -d.Exponent()
		if sc < 0 {
			sc = 0
		}
		return d, Type{K: KDec, Scale: sc}, nil
	}
	return nil, Type{}, unsupported("literal kind %d", v.Kind())
}

// tri is SQL's three-valued truth: -1 unknown, 0 false, 1 true.
func truth(v Value) (int, error) {
	switch x := v.(type) {
	case nil:
		return -1, nil
	case int64:
		if x != 0 {
			return 1, nil
		}
		return 0, nil
	case decimal.Decimal:
		if !x.IsZero() {
			return 1, nil
		}
		return 0, nil
	}
	return 0, unsupported("string used as a truth value")
}

func fromTri(t int) Value {
	if t < 0 {
		return nil
	}
	return int64(t)
}

func isAgg(f string) bool {
	switch strings.ToLower(f) {
	case "count", "sum", "max", "min":
		return true
	}
	return false
}

// eval computes an expression in a context.
func eval(e ast.ExprNode, c ectx) (Value, error) {
	switch x := e.(type) {
	case *driver.ValueExpr:
		v, _, err := literal(x)
		return v, err
	case *ast.ColumnNameExpr:
		return c.column(x.Name)
	case *ast.ParenthesesExpr:
		return eval(x.Expr, c)
	case *ast.AggregateFuncExpr:
		return c.aggregate(x)
	case *ast.UnaryOperationExpr:
		v, err := eval(x.V, c)
		if err != nil {
			return nil, err
		}
		switch x.Op {
		case opcode.Not:
			t, err := truth(v)
			if err != nil {
				return nil, err
			}
			if t < 0 {
				return nil, nil
			}
			return int64(1 - t), nil
		case opcode.Minus:
			switch n := v.(type) {
			case nil:
				return nil, nil
			case int64:
				return -n, nil
			case decimal.Decimal:
				return n.Neg(), nil
			}
			return nil, unsupported("unary minus on a string")
		case opcode.Plus:
			return v, nil
		}
		return nil, unsupported("unary operator %v", x.Op)
	case *ast.BinaryOperationExpr:
		return evalBinary(x, c)
	case *ast.IsNullExpr:
		v, err := eval(x.Expr, c)
		if err != nil {
			return nil, err
		}
		if (v == nil) != x.Not {
			return int64(1), nil
		}
		return int64(0), nil
	case *ast.BetweenExpr:
		v, err := eval(x.Expr, c)
		if err != nil {
			return nil, err
		}
		lo, err := eval(x.Left, c)
		if err != nil {
			return nil, err
		}
		hi, err := eval(x.Right, c)
		if err != nil {
			return nil, err
		}
		a, err := cmpTri(v, lo, func(c int) bool { return c >= 0 })
		if err != nil {
			return nil, err
		}
		b, err := cmpTri(v, hi, func(c int) bool { return c <= 0 })
		if err != nil {
			return nil, err
		}
		r := triAnd(a, b)
		if x.Not {
			r = triNot(r)
		}
		return fromTri(r), nil
	case *ast.PatternInExpr:
		if x.Sel != nil {
			return nil, unsupported("IN (subquery)")
		}
		v, err := eval(x.Expr, c)
		if err != nil {
			return nil, err
		}
		r := 0
		for _, it := range x.List {
			w, err := eval(it, c)
			if err != nil {
				return nil, err
			}
			t, err := cmpTri(v, w, func(c int) bool { return c == 0 })
			if err != nil {
				return nil, err
			}
			r = triOr(r, t)
		}
		if x.Not {
			r = triNot(r)
		}
		return fromTri(r), nil
	}
	return nil, unsupported("expression %T", e)
}

func triNot(a int) int {
	if a < 0 {
		return -1
	}
	return 1 - a
}

func triAnd(a, b int) int {
	if a == 0 || b == 0 {
		return 0
	}
	if a < 0 || b < 0 {
		return -1
	}
	return 1
}

func triOr(a, b int) int {
	if a == 1 || b == 1 {
		return 1
	}
	if a < 0 || b < 0 {
		return -1
	}
	return 0
}

func cmpTri(a, b Value, ok func(int) bool) (int, error) {
	if a == nil || b == nil {
		return -1, nil
	}
	c, err := Compare(a, b)
	if err != nil {
		return 0, err
	}
	if ok(c) {
		return 1, nil
	}
	return 0, nil
}

func evalBinary(x *ast.BinaryOperationExpr, c ectx) (Value, error) {
	l, err := eval(x.L, c)
	if err != nil {
		return nil, err
	}
	r, err := eval(x.R, c)
	if err != nil {
		return nil, err
	}
	switch x.Op {
	case opcode.LogicAnd, opcode.LogicOr:
		a, err := truth(l)
		if err != nil {
			return nil, err
		}
		b, err := truth(r)
		if err != nil {
			return nil, err
		}
		if x.Op == opcode.LogicAnd {
			return fromTri(triAnd(a, b)), nil
		}
		return fromTri(triOr(a, b)), nil
	case opcode.EQ, opcode.NE, opcode.LT, opcode.LE, opcode.GT, opcode.GE:
		op := x.Op
		t, err := cmpTri(l, r, func(c int) bool {
			switch op {
			case opcode.EQ:
				return c == 0
			case opcode.NE:
				return c != 0
			case opcode.LT:
				return c < 0
			case opcode.LE:
				return c <= 0
			case opcode.GT:
				return c > 0
			}
			return c >= 0
		})
		if err != nil {
			return nil, err
		}
		return fromTri(t), nil
	case opcode.Plus, opcode.Minus:
		if l == nil || r == nil {
			return nil, nil
		}
		if a, ok := l.(int64); ok {
			if b, ok := r.(int64); ok {
				if x.Op == opcode.Plus {
					return a + b, nil
				}
				return a - b, nil
			}
		}
		a, ok1 := toDec(l)
		b, ok2 := toDec(r)
		if !ok1 || !ok2 {
			return nil, unsupported("arithmetic on strings")
		}
		if x.Op == opcode.Plus {
			return a.Add(b), nil
		}
		return a.Sub(b), nil
	}
	return nil, unsupported("binary operator %v", x.Op)
}

// typeOf is the static result type of an expression over a scope.
func typeOf(e ast.ExprNode, sc *scope) (Type, error) {
	switch x := e.(type) {
	case *driver.ValueExpr:
		_, t, err := literal(x)
		return t, err
	case *ast.ColumnNameExpr:
		i, err := sc.resolve(x.Name)
		if err != nil {
			return Type{}, err
		}
		return sc.cols[i].typ, nil
	case *ast.ParenthesesExpr:
		return typeOf(x.Expr, sc)
	case *ast.UnaryOperationExpr:
		if x.Op == opcode.Not {
			return Type{K: KBig}, nil
		}
		return typeOf(x.V, sc)
	case *ast.BinaryOperationExpr:
		switch x.Op {
		case opcode.Plus, opcode.Minus:
			l, err := typeOf(x.L, sc)
			if err != nil {
				return Type{}, err
			}
			r, err := typeOf(x.R, sc)
			if err != nil {
				return Type{}, err
			}
			if l.K == KDec || r.K == KDec {
				s := l.Scale
				if r.Scale > s {
					s = r.Scale
				}
				return Type{K: KDec, Scale: s}, nil
			}
			if l.stringy() || r.stringy() {
				return Type{}, unsupported("arithmetic on strings")
			}
			return Type{K: KBig}, nil
		}
		return Type{K: KBig}, nil
	case *ast.IsNullExpr, *ast.BetweenExpr, *ast.PatternInExpr:
		return Type{K: KBig}, nil
	case *ast.AggregateFuncExpr:
		switch strings.ToLower(x.F) {
		case "count":
			return Type{K: KBig}, nil
		case "sum":
			if len(x.Args) != 1 {
				return Type{}, invalid("SUM takes one argument")
			}
			t, err := typeOf(x.Args[0], sc)
			if err != nil {
				return Type{}, err
			}
			if !t.numeric() {
				return Type{}, unsupported("SUM of a non-numeric expression")
			}
			if t.K == KDec {
				return t, nil
			}
			return Type{K: KDec, Scale: 0}, nil
		case "max", "min":
			if len(x.Args) != 1 {
				return Type{}, invalid("MAX/MIN take one argument")
			}
			return typeOf(x.Args[0], sc)
		}
		return Type{}, unsupported("aggregate function %s", x.F)
	}
	return Type{}, unsupported("expression %T", e)
}

// hasAggregate reports whether an expression contains an aggregate function call.
func hasAggregate(e ast.ExprNode) bool {
	switch x := e.(type) {
	case *ast.AggregateFuncExpr:
		return true
	case *ast.ParenthesesExpr:
		return hasAggregate(x.Expr)
	case *ast.UnaryOperationExpr:
		return hasAggregate(x.V)
	case *ast.BinaryOperationExpr:
		return hasAggregate(x.L) || hasAggregate(x.R)
	case *ast.IsNullExpr:
		return hasAggregate(x.Expr)
	case *ast.BetweenExpr:
		return hasAggregate(x.Expr) || hasAggregate(x.Left) || hasAggregate(x.Right)
	case *ast.PatternInExpr:
		if hasAggregate(x.Expr) {
			return true
		}
		for _, it := range x.List {
			if hasAggregate(it) {
				return true
			}
		}
	}
	return false
}
