package sqlref

import (
	"fmt"
	"strings"

	"github.com/shopspring/decimal"

	"github.com/XiaoMi/Gaea/parser"
)

// D builds a decimal value from its text.
func D(s string) Value { return decimal.RequireFromString(s) }

func selfDB() *DB {
	db := NewDB("d")
	db.Add(&Table{DB: "d", Name: "t", Cols: []Column{
		{"id", Type{K: KInt}}, {"k", Type{K: KInt}}, {"v", Type{K: KStr}}, {"u", Type{K: KStr}}, {"d", Type{K: KDec, Scale: 2}}},
		Rows: [][]Value{
			{int64(1), int64(1), "a", "b", D("1.50")},
			{int64(2), int64(1), "a", "b", D("2.25")},
			{int64(3), int64(2), "b", "a", D("-1.00")},
			{int64(4), nil, nil, nil, nil},
			{int64(5), int64(-1), "NULL", "b", D("0.75")},
			{int64(6), int64(2), "a+", "b", D("10.00")},
			{int64(7), int64(0), "a", "+b", D("1.50")},
		}})
	db.Add(&Table{DB: "d", Name: "t2", Cols: []Column{{"id", Type{K: KInt}}, {"w", Type{K: KInt}}},
		Rows: [][]Value{{int64(1), int64(10)}, {int64(3), int64(30)}, {int64(3), int64(31)}, {int64(9), int64(90)}}})
	db.Add(&Table{DB: "d", Name: "e", Cols: []Column{{"id", Type{K: KInt}}, {"k", Type{K: KInt}}}})
	return db
}

type vector struct {
	sql  string
	want string // rows rendered "c1,c2;c1,c2" with NULL as \N; "ERR" = must be rejected
}

// hand-computed against MySQL semantics (NULL handling in aggregates and ORDER BY, empty
// sets, DISTINCT on NULLs, decimal scale of SUM, three-valued logic)
var vectors = []vector{
	{"select id from t where k = 1", "1;2"},
	{"select id from t where k <> 1", "3;5;6;7"},
	{"select id from t where not (k = 1)", "3;5;6;7"},
	{"select id from t where k is null", "4"},
	{"select id from t where k in (1, 2)", "1;2;3;6"},
	{"select id from t where k not in (1, 2)", "5;7"},
	{"select id from t where k not in (1, null)", ""},
	{"select id from t where k between 0 and 1", "1;2;7"},
	{"select id from t where k not between 0 and 1", "3;5;6"},
	{"select id from t where k = 1 or v is null", "1;2;4"},
	{"select id from t where k > 0 and v = 'a'", "1;2"},
	{"select id from t where k = -1", "5"},
	{"select id from t where v = 'NULL'", "5"},
	{"select id from t where d >= 1.5", "1;2;6;7"},
	{"select count(*), count(k), count(distinct k), sum(k), sum(distinct k), max(k), min(k) from t", "7,6,4,5,2,2,-1"},
	{"select sum(d), max(d), min(v), max(v) from t", "15.00,10.00,NULL,b"},
	{"select count(*), sum(k), max(v), sum(d) from e", "ERR"},
	{"select count(*), sum(k), max(k) from e", "0,\\N,\\N"},
	{"select count(*), sum(k), max(v) from t where id > 100", "0,\\N,\\N"},
	{"select k, count(*) from e group by k", ""},
	{"select k, count(*), sum(d) from t group by k order by k", "\\N,1,\\N;-1,1,0.75;0,1,1.50;1,2,3.75;2,2,9.00"},
	{"select v, u, count(*) from t group by v, u order by 3 desc, v", "a,b,2;\\N,\\N,1;NULL,b,1;a,+b,1;a+,b,1;b,a,1"},
	{"select k from t order by k desc, id", "2;2;1;1;0;-1;\\N"},
	{"select v from t order by v", "\\N;NULL;a;a;a;a+;b"},
	{"select distinct k from t order by k", "\\N;-1;0;1;2"},
	{"select distinct v, u from t order by 1, 2", "\\N,\\N;NULL,b;a,+b;a,b;a+,b;b,a"},
	{"select distinct v from t order by k", "ERR"},
	{"select v, count(*) from t", "ERR"},
	{"select v, count(*) from t group by k", "ERR"},
	{"select k from t group by k order by id", "ERR"},
	{"select k as a, count(*) from t group by a order by a limit 1, 2", "-1,1;0,1"},
	{"select id from t order by id limit 2", "1;2"},
	{"select id from t order by id limit 2 offset 6", "7"},
	{"select id from t order by id limit 0", ""},
	{"select k from t group by k order by count(*) desc, k limit 1", "1"},
	{"select k from t group by k order by sum(d) desc limit 1", "2"},
	{"select t.id, w from t join t2 on t.id = t2.id order by w", "1,10;3,30;3,31"},
	{"select t.id, w from t left join t2 on t.id = t2.id where t.id < 4 order by t.id, w", "1,10;2,\\N;3,30;3,31"},
	{"select id, w from t join t2 using (id) order by w", "1,10;3,30;3,31"},
	{"select id from t join t2 on t.id = t2.id", "ERR"},
	{"select count(*) from t, t2 where t.id = t2.id", "3"},
	{"select x.id from t as x where x.k = 2 order by 1", "3;6"},
	{"select t.id from t as x", "ERR"},
	{"select * from t2 where id = 9", "9,90"},
	{"select id from t where k = 2 union select id from t where id = 3 order by id", "3;6"},
	{"select k from t where k = 1 union all select k from t where k = 2 order by 1 desc", "2;2;1;1"},
	{"select k from t where k > 0 union select k from t order by k limit 1, 2", "-1;0"},
	{"select k from t union select v from t", "ERR"},
	{"select id from t where v = 1", "ERR"},
	{"select id + 1 from t where id = 1", "2"},
}

func render(rel *Rel) string {
	var rows []string
	for _, r := range rel.Rows {
		var cs []string
		for i, v := range r {
			if v == nil {
				cs = append(cs, "\\N")
			} else {
				cs = append(cs, string(Text(v, rel.Types[i])))
			}
		}
		rows = append(rows, strings.Join(cs, ","))
	}
	return strings.Join(rows, ";")
}

// SelfTest runs the evaluator's own unit vectors; checks call it first and stop with an
// engine error if the reference is broken.
func SelfTest() error {
	p := parser.New()
	for _, v := range vectors {
		st, err := p.ParseOneStmt(v.sql, "", "")
		if err != nil {
			return fmt.Errorf("selftest: parse %q: %v", v.sql, err)
		}
		rel, err := Query(selfDB(), st, true)
		if v.want == "ERR" {
			if err == nil {
				return fmt.Errorf("selftest: %q must be rejected, got %q", v.sql, render(rel))
			}
			continue
		}
		if err != nil {
			return fmt.Errorf("selftest: %q: %v", v.sql, err)
		}
		if got := render(rel); got != v.want {
			return fmt.Errorf("selftest: %q = %q, want %q", v.sql, got, v.want)
		}
		// the wire rendering must round-trip through Gaea's ParseText
		res, err := rel.Result()
		if err != nil {
			return fmt.Errorf("selftest: %q result: %v", v.sql, err)
		}
		if len(res.Values) != len(rel.Rows) || len(res.Fields) != len(rel.Names) {
			return fmt.Errorf("selftest: %q result shape", v.sql)
		}
	}
	// DML
	db := selfDB()
	dml := []struct {
		sql      string
		affected uint64
		check    string
		want     string
	}{
		{"update t set k = 5 where k = 1", 2, "select id from t where k = 5 order by id", "1;2"},
		{"update t set k = 5 where k = 5", 0, "select count(*) from t where k = 5", "2"},
		{"update t as x set x.v = 'z', k = k + 1 where x.id in (1, 4)", 2, "select id, k, v from t where v = 'z' order by id", "1,6,z;4,\\N,z"},
		{"delete from t where k is null", 1, "select count(*) from t", "6"},
		{"delete from d.t where id > 5 or v = 'NULL'", 3, "select id from t order by id", "1;2;3"},
		{"insert into t (id, k, v, u, d) values (8, 1, 'q', null, 1.5), (9, null, 'r', 's', -2)", 2, "select id, k, v, u, d from t where id > 7 order by id", "8,1,q,\\N,1.50;9,\\N,r,s,-2.00"},
		{"insert into t set id = 10, v = 'w'", 1, "select id, k, v from t where id = 10", "10,\\N,w"},
		{"replace into t (id) values (11)", 1, "select count(*) from t", "7"},
	}
	for _, c := range dml {
		st, err := p.ParseOneStmt(c.sql, "", "")
		if err != nil {
			return fmt.Errorf("selftest: parse %q: %v", c.sql, err)
		}
		res, err := Exec(db, st)
		if err != nil {
			return fmt.Errorf("selftest: %q: %v", c.sql, err)
		}
		if res.AffectedRows != c.affected {
			return fmt.Errorf("selftest: %q affected %d, want %d", c.sql, res.AffectedRows, c.affected)
		}
		st, _ = p.ParseOneStmt(c.check, "", "")
		rel, err := Query(db, st, true)
		if err != nil {
			return fmt.Errorf("selftest: %q: %v", c.check, err)
		}
		if got := render(rel); got != c.want {
			return fmt.Errorf("selftest: after %q: %q = %q, want %q", c.sql, c.check, got, c.want)
		}
	}
	return nil
}
