package sqlref

import "testing"

func TestVectors(t *testing.T) {
	if err := SelfTest(); err != nil {
		t.Fatal(err)
	}
}
