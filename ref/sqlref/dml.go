package sqlref

import (
	"sort"

	"github.com/XiaoMi/Gaea/mysql"
	"github.com/XiaoMi/Gaea/parser/ast"
)

// singleTable returns the table (and its scope) a single-table DML statement works on.
func (e *ev) singleTable(refs *ast.TableRefsClause) (*Table, *scope, error) {
	if refs == nil || refs.TableRefs == nil {
		return nil, nil, unsupported("DML without a table")
	}
	j := refs.TableRefs
	if j.Right != nil {
		return nil, nil, unsupported("multi-table DML")
	}
	ts, ok := j.Left.(*ast.TableSource)
	if !ok {
		return nil, nil, unsupported("DML table reference %T", j.Left)
	}
	tn, ok := ts.Source.(*ast.TableName)
	if !ok {
		return nil, nil, unsupported("DML table source %T", ts.Source)
	}
	t, err := e.db.Get(tn.Schema.L, tn.Name.L)
	if err != nil {
		return nil, nil, err
	}
	alias := ts.AsName.L
	if alias == "" {
		alias = tn.Name.L
	}
	db := tn.Schema.L
	if db == "" {
		db = e.db.Default
	}
	return t, t.scope(db, alias), nil
}

func execResult(affected uint64) *mysql.Result {
	return &mysql.Result{Status: mysql.ServerStatusAutocommit, AffectedRows: affected}
}

func (e *ev) insertStmt(s *ast.InsertStmt) (*mysql.Result, error) {
	if s.Select != nil {
		return nil, unsupported("INSERT ... SELECT")
	}
	t, sc, err := e.singleTable(s.Table)
	if err != nil {
		return nil, err
	}
	// the tables of this model have no unique key, so REPLACE and ON DUPLICATE KEY UPDATE
	// behave like a plain INSERT; the ON DUPLICATE list is only checked for validity.
	for _, a := range s.OnDuplicate {
		if _, err := sc.resolve(a.Column); err != nil {
			return nil, err
		}
	}
	var newRows [][]Value
	build := func(cols []*ast.ColumnName, exprs []ast.ExprNode) error {
		if len(cols) != len(exprs) {
			return invalid("column count doesn't match value count")
		}
		row := make([]Value, len(t.Cols))
		set := map[int]bool{}
		for i, c := range cols {
			idx, err := sc.resolve(c)
			if err != nil {
				return err
			}
			if set[idx] {
				return invalid("column %s specified twice", c.Name.O)
			}
			set[idx] = true
			v, err := eval(exprs[i], &rowCtx{sc: &scope{}, row: nil})
			if err != nil {
				return err
			}
			v, err = coerce(v, t.Cols[idx].Type)
			if err != nil {
				return err
			}
			row[idx] = v
		}
		newRows = append(newRows, row)
		return nil
	}
	if len(s.Setlist) > 0 {
		var cols []*ast.ColumnName
		var exprs []ast.ExprNode
		for _, a := range s.Setlist {
			cols = append(cols, a.Column)
			exprs = append(exprs, a.Expr)
		}
		if err := build(cols, exprs); err != nil {
			return nil, err
		}
	} else {
		cols := s.Columns
		if len(cols) == 0 {
			for _, c := range t.Cols {
				cols = append(cols, &ast.ColumnName{Name: ciStr(c.Name)})
			}
		}
		for _, l := range s.Lists {
			if err := build(cols, l); err != nil {
				return nil, err
			}
		}
	}
	t.Rows = append(t.Rows, newRows...)
	return execResult(uint64(len(newRows))), nil
}

// matching returns the indexes of the rows a WHERE clause selects, in ORDER BY order.
func (e *ev) matching(t *Table, sc *scope, where ast.ExprNode, order *ast.OrderByClause, limit *ast.Limit) ([]int, error) {
	if limit != nil {
		return nil, unsupported("UPDATE/DELETE ... LIMIT")
	}
	var idx []int
	for i, r := range t.Rows {
		if where != nil {
			v, err := eval(where, &rowCtx{sc: sc, row: r})
			if err != nil {
				return nil, err
			}
			tr, err := truth(v)
			if err != nil {
				return nil, err
			}
			if tr != 1 {
				continue
			}
		}
		idx = append(idx, i)
	}
	if order != nil {
		// without LIMIT the order cannot change which rows are touched; it is evaluated
		// only so that an invalid ORDER BY is an error as in MySQL.
		for _, bi := range order.Items {
			if _, err := typeOf(bi.Expr, sc); err != nil {
				return nil, err
			}
		}
	}
	return idx, nil
}

func (e *ev) updateStmt(s *ast.UpdateStmt) (*mysql.Result, error) {
	if s.MultipleTable {
		return nil, unsupported("multi-table UPDATE")
	}
	t, sc, err := e.singleTable(s.TableRefs)
	if err != nil {
		return nil, err
	}
	type asg struct {
		col  int
		expr ast.ExprNode
	}
	var list []asg
	for _, a := range s.List {
		i, err := sc.resolve(a.Column)
		if err != nil {
			return nil, err
		}
		if _, err := typeOf(a.Expr, sc); err != nil {
			return nil, err
		}
		list = append(list, asg{i, a.Expr})
	}
	idx, err := e.matching(t, sc, s.Where, s.Order, s.Limit)
	if err != nil {
		return nil, err
	}
	// evaluate everything first so that an error leaves the table untouched
	newRows := map[int][]Value{}
	changed := 0
	for _, i := range idx {
		row := append([]Value{}, t.Rows[i]...)
		diff := false
		for _, a := range list {
			// MySQL evaluates assignments left to right on the already updated row
			v, err := eval(a.expr, &rowCtx{sc: sc, row: row})
			if err != nil {
				return nil, err
			}
			v, err = coerce(v, t.Cols[a.col].Type)
			if err != nil {
				return nil, err
			}
			if Encode(v) != Encode(row[a.col]) {
				diff = true
			}
			row[a.col] = v
		}
		if diff {
			changed++
			newRows[i] = row
		}
	}
	for i, r := range newRows {
		t.Rows[i] = r
	}
	// affected rows = rows actually changed (MySQL default) or rows matched when the
	// connection was opened with CLIENT_FOUND_ROWS
	if e.db.FoundRows {
		return execResult(uint64(len(idx))), nil
	}
	return execResult(uint64(changed)), nil
}

func (e *ev) deleteStmt(s *ast.DeleteStmt) (*mysql.Result, error) {
	if s.IsMultiTable {
		return nil, unsupported("multi-table DELETE")
	}
	t, sc, err := e.singleTable(s.TableRefs)
	if err != nil {
		return nil, err
	}
	idx, err := e.matching(t, sc, s.Where, s.Order, s.Limit)
	if err != nil {
		return nil, err
	}
	sort.Ints(idx)
	del := map[int]bool{}
	for _, i := range idx {
		del[i] = true
	}
	var keep [][]Value
	for i, r := range t.Rows {
		if !del[i] {
			keep = append(keep, r)
		}
	}
	t.Rows = keep
	return execResult(uint64(len(idx))), nil
}

// Exec evaluates any supported statement: queries return a result set built exactly as a
// backend connection would hand it to the merger, DML mutates the tables and returns the
// affected-row count.
func Exec(db *DB, stmt ast.StmtNode) (*mysql.Result, error) {
	return (&Prepared{Stmt: stmt}).Exec(db)
}

// Exec evaluates the prepared statement (see the package-level Exec).
func (p *Prepared) Exec(db *DB) (*mysql.Result, error) {
	e := &ev{db: db}
	stmt := p.Stmt
	switch s := stmt.(type) {
	case *ast.SelectStmt, *ast.UnionStmt:
		rel, err := p.Query(db, true)
		if err != nil {
			return nil, err
		}
		return rel.Result()
	case *ast.InsertStmt:
		return e.insertStmt(s)
	case *ast.UpdateStmt:
		return e.updateStmt(s)
	case *ast.DeleteStmt:
		return e.deleteStmt(s)
	}
	return nil, unsupported("statement %T", stmt)
}
