// Package binproto is an independent decoder of MySQL binary-protocol result rows
// (Protocol::BinaryResultsetRow), written from the protocol description and NOT from Gaea's
// encoder. It imports nothing from Gaea; column types are the protocol's numeric codes.
//
//	row      = 0x00  null-bitmap[(ncols+7+2)/8]  value*          (values of non-NULL columns only)
//	bitmap   : column i is NULL iff bit (i+2) is set (byte (i+2)/8, bit (i+2)%8)
//	value    : by column type
//	  lenenc string   DECIMAL NEWDECIMAL VARCHAR BIT ENUM SET TINY/MEDIUM/LONG_BLOB BLOB
//	                  VAR_STRING STRING GEOMETRY JSON
//	  8 bytes LE      LONGLONG            4 bytes LE  LONG INT24
//	  2 bytes LE      SHORT YEAR          1 byte      TINY
//	  IEEE 754 LE     DOUBLE (8) FLOAT (4)
//	  DATE DATETIME TIMESTAMP: length byte 0 | 4 | 7 | 11, then year(2) month day
//	                  [hour minute second [microsecond(4)]]
//	  TIME:           length byte 0 | 8 | 12, then is_negative(1) days(4) hour minute second
//	                  [microsecond(4)]
//	  NULL (6):       no bytes; only meaningful with its bitmap bit set
package binproto

import (
	"encoding/binary"
	"fmt"
	"math"
)

// Column type codes of the client/server protocol.
const (
	TDecimal    = 0
	TTiny       = 1
	TShort      = 2
	TLong       = 3
	TFloat      = 4
	TDouble     = 5
	TNull       = 6
	TTimestamp  = 7
	TLonglong   = 8
	TInt24      = 9
	TDate       = 10
	TTime       = 11
	TDatetime   = 12
	TYear       = 13
	TVarchar    = 15
	TBit        = 16
	TJSON       = 245
	TNewDecimal = 246
	TEnum       = 247
	TSet        = 248
	TTinyBlob   = 249
	TMediumBlob = 250
	TLongBlob   = 251
	TBlob       = 252
	TVarString  = 253
	TString     = 254
	TGeometry   = 255
)

var typeNames = map[int]string{TDecimal: "DECIMAL", TTiny: "TINY", TShort: "SHORT", TLong: "LONG", TFloat: "FLOAT",
	TDouble: "DOUBLE", TNull: "NULL", TTimestamp: "TIMESTAMP", TLonglong: "LONGLONG", TInt24: "INT24", TDate: "DATE",
	TTime: "TIME", TDatetime: "DATETIME", TYear: "YEAR", TVarchar: "VARCHAR", TBit: "BIT", TJSON: "JSON",
	TNewDecimal: "NEWDECIMAL", TEnum: "ENUM", TSet: "SET", TTinyBlob: "TINY_BLOB", TMediumBlob: "MEDIUM_BLOB",
	TLongBlob: "LONG_BLOB", TBlob: "BLOB", TVarString: "VAR_STRING", TString: "STRING", TGeometry: "GEOMETRY"}

// TypeName returns the protocol name of a type code.
func TypeName(t byte) string {
	if n, ok := typeNames[int(t)]; ok {
		return n
	}
	return fmt.Sprintf("TYPE_%d", t)
}

// Column is what the decoder needs to know about a result column.
type Column struct {
	Type     byte
	Unsigned bool
}

type Kind int

const (
	KNull Kind = iota
	KInt       // I
	KUint      // U
	KFloat     // F32
	KDouble    // F64
	KBytes     // B
	KDate      // Year..Micro, N = length byte (0,4,7,11)
	KTime      // Neg, Days, Hour..Micro, N = length byte (0,8,12)
)

// Value is one decoded column value.
type Value struct {
	Kind  Kind
	I     int64
	U     uint64
	F32   float32
	F64   float64
	B     []byte
	N     int // length byte of temporal values
	Year  int
	Month int
	Day   int
	Hour  int
	Min   int
	Sec   int
	Micro int
	Neg   bool
	Days  uint32
}

// lenenc reads a length-encoded integer (no NULL marker allowed inside a binary row value).
func lenenc(b []byte, pos int) (uint64, int, error) {
	if pos >= len(b) {
		return 0, 0, fmt.Errorf("row ends before a length prefix at offset %d", pos)
	}
	c := b[pos]
	w := 0
	switch {
	case c < 0xfb:
		return uint64(c), pos + 1, nil
	case c == 0xfc:
		w = 2
	case c == 0xfd:
		w = 3
	case c == 0xfe:
		w = 8
	default:
		return 0, 0, fmt.Errorf("byte %#x at offset %d is not a length prefix", c, pos)
	}
	if len(b)-pos-1 < w {
		return 0, 0, fmt.Errorf("length prefix at offset %d is truncated", pos)
	}
	var v uint64
	for i := 0; i < w; i++ {
		v |= uint64(b[pos+1+i]) << (8 * uint(i))
	}
	return v, pos + 1 + w, nil
}

func need(b []byte, pos, n int) error {
	if len(b)-pos < n {
		return fmt.Errorf("row ends inside a %d-byte value at offset %d (%d bytes left)", n, pos, len(b)-pos)
	}
	return nil
}

// DecodeRow decodes one binary-protocol row. On error, vals holds the columns decoded so far
// and failedAt is the index of the column whose value could not be decoded (len(cols) if
// the problem is in the header or after the last column).
func DecodeRow(cols []Column, row []byte) (vals []Value, failedAt int, err error) {
	n := len(cols)
	bm := (n + 7 + 2) / 8
	if len(row) < 1+bm {
		return nil, n, fmt.Errorf("row of %d bytes is shorter than header+null bitmap (%d)", len(row), 1+bm)
	}
	if row[0] != 0x00 {
		return nil, n, fmt.Errorf("row header is %#x, not 0x00", row[0])
	}
	bitmap := row[1 : 1+bm]
	pos := 1 + bm
	for i, c := range cols {
		bit := i + 2
		if bitmap[bit/8]&(1<<uint(bit%8)) != 0 {
			vals = append(vals, Value{Kind: KNull})
			continue
		}
		var v Value
		switch c.Type {
		case TNull:
			v.Kind = KNull
		case TTiny:
			if err = need(row, pos, 1); err != nil {
				return vals, i, err
			}
			if c.Unsigned {
				v = Value{Kind: KUint, U: uint64(row[pos])}
			} else {
				v = Value{Kind: KInt, I: int64(int8(row[pos]))}
			}
			pos++
		case TShort, TYear:
			if err = need(row, pos, 2); err != nil {
				return vals, i, err
			}
			u := binary.LittleEndian.Uint16(row[pos:])
			if c.Unsigned {
				v = Value{Kind: KUint, U: uint64(u)}
			} else {
				v = Value{Kind: KInt, I: int64(int16(u))}
			}
			pos += 2
		case TLong, TInt24:
			if err = need(row, pos, 4); err != nil {
				return vals, i, err
			}
			u := binary.LittleEndian.Uint32(row[pos:])
			if c.Unsigned {
				v = Value{Kind: KUint, U: uint64(u)}
			} else {
				v = Value{Kind: KInt, I: int64(int32(u))}
			}
			pos += 4
		case TLonglong:
			if err = need(row, pos, 8); err != nil {
				return vals, i, err
			}
			u := binary.LittleEndian.Uint64(row[pos:])
			if c.Unsigned {
				v = Value{Kind: KUint, U: u}
			} else {
				v = Value{Kind: KInt, I: int64(u)}
			}
			pos += 8
		case TFloat:
			if err = need(row, pos, 4); err != nil {
				return vals, i, err
			}
			v = Value{Kind: KFloat, F32: math.Float32frombits(binary.LittleEndian.Uint32(row[pos:]))}
			pos += 4
		case TDouble:
			if err = need(row, pos, 8); err != nil {
				return vals, i, err
			}
			v = Value{Kind: KDouble, F64: math.Float64frombits(binary.LittleEndian.Uint64(row[pos:]))}
			pos += 8
		case TDecimal, TNewDecimal, TVarchar, TBit, TEnum, TSet, TTinyBlob, TMediumBlob, TLongBlob,
			TBlob, TVarString, TString, TGeometry, TJSON:
			l, p, e := lenenc(row, pos)
			if e != nil {
				return vals, i, e
			}
			if l > uint64(len(row)-p) {
				return vals, i, fmt.Errorf("string of %d bytes announced at offset %d, %d bytes left", l, pos, len(row)-p)
			}
			v = Value{Kind: KBytes, B: row[p : p+int(l)]}
			pos = p + int(l)
		case TDate, TDatetime, TTimestamp:
			if err = need(row, pos, 1); err != nil {
				return vals, i, err
			}
			l := int(row[pos])
			if l != 0 && l != 4 && l != 7 && l != 11 {
				return vals, i, fmt.Errorf("date/time value at offset %d has length byte %d (allowed 0,4,7,11)", pos, l)
			}
			pos++
			if err = need(row, pos, l); err != nil {
				return vals, i, err
			}
			v = Value{Kind: KDate, N: l}
			if l >= 4 {
				v.Year = int(binary.LittleEndian.Uint16(row[pos:]))
				v.Month, v.Day = int(row[pos+2]), int(row[pos+3])
			}
			if l >= 7 {
				v.Hour, v.Min, v.Sec = int(row[pos+4]), int(row[pos+5]), int(row[pos+6])
			}
			if l == 11 {
				v.Micro = int(binary.LittleEndian.Uint32(row[pos+7:]))
			}
			pos += l
		case TTime:
			if err = need(row, pos, 1); err != nil {
				return vals, i, err
			}
			l := int(row[pos])
			if l != 0 && l != 8 && l != 12 {
				return vals, i, fmt.Errorf("time value at offset %d has length byte %d (allowed 0,8,12)", pos, l)
			}
			pos++
			if err = need(row, pos, l); err != nil {
				return vals, i, err
			}
			v = Value{Kind: KTime, N: l}
			if l >= 8 {
				if row[pos] > 1 {
					return vals, i, fmt.Errorf("time value at offset %d: is_negative byte is %d", pos, row[pos])
				}
				v.Neg = row[pos] == 1
				v.Days = binary.LittleEndian.Uint32(row[pos+1:])
				v.Hour, v.Min, v.Sec = int(row[pos+5]), int(row[pos+6]), int(row[pos+7])
			}
			if l == 12 {
				v.Micro = int(binary.LittleEndian.Uint32(row[pos+8:]))
			}
			pos += l
		default:
			return vals, i, fmt.Errorf("column type %d is not a type a server sends in a binary row", c.Type)
		}
		vals = append(vals, v)
	}
	if pos != len(row) {
		return vals, n, fmt.Errorf("%d bytes left over after the last column", len(row)-pos)
	}
	return vals, -1, nil
}

// SelfTest decodes the example rows of the protocol documentation.
func SelfTest() error {
	type vec struct {
		cols []Column
		row  []byte
		chk  func(v []Value) bool
	}
	vecs := []vec{
		// DATETIME 2010-10-17 19:27:30.000001
		{[]Column{{Type: TDatetime}}, []byte{0, 0, 0x0b, 0xda, 0x07, 0x0a, 0x11, 0x13, 0x1b, 0x1e, 0x01, 0, 0, 0},
			func(v []Value) bool {
				x := v[0]
				return x.Kind == KDate && x.Year == 2010 && x.Month == 10 && x.Day == 17 && x.Hour == 19 && x.Min == 27 && x.Sec == 30 && x.Micro == 1
			}},
		// DATE 2010-10-17
		{[]Column{{Type: TDate}}, []byte{0, 0, 0x04, 0xda, 0x07, 0x0a, 0x11},
			func(v []Value) bool { return v[0].Year == 2010 && v[0].Month == 10 && v[0].Day == 17 && v[0].N == 4 }},
		// TIME -120d 19:27:30.000001
		{[]Column{{Type: TTime}}, []byte{0, 0, 0x0c, 0x01, 0x78, 0, 0, 0, 0x13, 0x1b, 0x1e, 0x01, 0, 0, 0},
			func(v []Value) bool {
				x := v[0]
				return x.Neg && x.Days == 120 && x.Hour == 19 && x.Min == 27 && x.Sec == 30 && x.Micro == 1
			}},
		// TIME -120d 19:27:30
		{[]Column{{Type: TTime}}, []byte{0, 0, 0x08, 0x01, 0x78, 0, 0, 0, 0x13, 0x1b, 0x1e},
			func(v []Value) bool { return v[0].Neg && v[0].Days == 120 && v[0].Micro == 0 && v[0].N == 8 }},
		// LONGLONG 1, LONG 1, SHORT 1, TINY 1 | DOUBLE 10.2 | FLOAT 10.2 (documentation examples)
		{[]Column{{Type: TLonglong}, {Type: TLong}, {Type: TShort}, {Type: TTiny}, {Type: TDouble}, {Type: TFloat}},
			[]byte{0, 0, 1, 0, 0, 0, 0, 0, 0, 0, 1, 0, 0, 0, 1, 0, 1, 0x66, 0x66, 0x66, 0x66, 0x66, 0x66, 0x24, 0x40, 0x33, 0x33, 0x23, 0x41},
			func(v []Value) bool {
				return v[0].I == 1 && v[1].I == 1 && v[2].I == 1 && v[3].I == 1 && v[4].F64 == 10.2 && v[5].F32 == float32(10.2)
			}},
		// NULL in column 0 and 2 of 3 (bits 2 and 4 -> 0x14), VAR_STRING "ab" in column 1
		{[]Column{{Type: TLong}, {Type: TVarString}, {Type: TLong}}, []byte{0, 0x14, 2, 'a', 'b'},
			func(v []Value) bool { return v[0].Kind == KNull && string(v[1].B) == "ab" && v[2].Kind == KNull }},
		// 7 columns need a 2-byte bitmap; column 6 NULL = bit 8 -> second byte 0x01
		{[]Column{{Type: TTiny}, {Type: TTiny}, {Type: TTiny}, {Type: TTiny}, {Type: TTiny}, {Type: TTiny}, {Type: TTiny, Unsigned: true}},
			[]byte{0, 0, 1, 0xff, 2, 3, 4, 5, 6},
			func(v []Value) bool { return v[0].I == -1 && v[5].I == 6 && v[6].Kind == KNull }},
	}
	for i, t := range vecs {
		v, _, err := DecodeRow(t.cols, t.row)
		if err != nil {
			return fmt.Errorf("binproto self-test vector %d: %v", i, err)
		}
		if !t.chk(v) {
			return fmt.Errorf("binproto self-test vector %d decoded wrongly: %+v", i, v)
		}
	}
	if _, _, err := DecodeRow([]Column{{Type: TVarString}}, []byte{0, 0, 3, 'a'}); err == nil {
		return fmt.Errorf("binproto self-test: truncated string accepted")
	}
	if _, _, err := DecodeRow([]Column{{Type: TTiny}}, []byte{0, 0, 1, 2}); err == nil {
		return fmt.Errorf("binproto self-test: trailing bytes accepted")
	}
	return nil
}
