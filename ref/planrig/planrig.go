// Package planrig is the shared plan rig of C01–C06: it builds a real models.Namespace →
// router.Router for one table layout, parses + plans a statement with the real
// parser / plan.BuildPlan and returns where the statement would be sent: the set of
// (slice, physical db, table index) targets and the per-target rewritten SQL, observed
// through Plan.ExecuteIn with a recording executor (i.e. exactly what the proxy would
// hand to the backends).
//
// Nothing here re-implements Gaea logic: configuration goes through JSON +
// Namespace.Verify() + router.NewRouter, placement of a key is Rule.FindTableIndex.
//
// Schema offered by every layout (logical database DB = "db"):
//
//	t (<key>, k, v, d)   sharded by Layout.Rule on column Key() ("id", or "ct" for date_*)
//	t2(<key>, w)         linked to t on the same column
//	g (id, name)         global table on all slices
//	u (id, k)            no rule (unsharded, default slice)
//
// A Rig is cheap to build and is NOT meant to be shared between goroutines
// (router.Router.GetRule writes to the default rule): build one per worker.
package planrig

import (
	"encoding/json"
	"errors"
	"fmt"
	"regexp"
	"sort"
	"strconv"
	"strings"

	"github.com/XiaoMi/Gaea/models"
	"github.com/XiaoMi/Gaea/mysql"
	"github.com/XiaoMi/Gaea/parser"
	"github.com/XiaoMi/Gaea/parser/ast"
	"github.com/XiaoMi/Gaea/proxy/plan"
	"github.com/XiaoMi/Gaea/proxy/router"
	"github.com/XiaoMi/Gaea/proxy/sequence"
	"github.com/XiaoMi/Gaea/util"
)

const (
	DB        = "db"  // logical database of every table of the rig
	OtherDB   = "db2" // a second allowed database without any rule
	Table     = "t"
	Child     = "t2"
	Global    = "g"
	Unsharded = "u"
)

// Rule types accepted in Layout.Rule.
var ShardRuleTypes = []string{"hash", "mod", "range", "date_year", "date_month", "date_day",
	"mycat_mod", "mycat_long", "mycat_string", "mycat_murmur", "mycat_padding_mod"}

// Layout describes the sharded table t.
//
// Params (all optional):
//
//	table_row_limit   range: rows per table (default 10) → table i holds [i*limit,(i+1)*limit)
//	date_start        date_*: first period, "2016" / "201611" / "20161230" (defaults shown;
//	                  the month/day defaults cross a year boundary)
//	date_gap          date_*: number of periods left unconfigured between two slices (default 0)
//	partition_count, partition_length, hash_slice, seed, virtual_bucket_times,
//	pad_from, pad_length, mod_begin, mod_end   mycat_*: passed through (sane defaults)
//	no_child / no_global  "1": do not configure t2 / g
type Layout struct {
	Rule           string            `json:"rule"`
	Slices         int               `json:"slices"`
	TablesPerSlice int               `json:"tables_per_slice"`
	Params         map[string]string `json:"params,omitempty"`
}

func (l Layout) String() string {
	s := fmt.Sprintf("%s/%dx%d", l.Rule, l.Slices, l.TablesPerSlice)
	if len(l.Params) > 0 {
		ks := make([]string, 0, len(l.Params))
		for k := range l.Params {
			ks = append(ks, k)
		}
		sort.Strings(ks)
		for _, k := range ks {
			s += "," + k + "=" + l.Params[k]
		}
	}
	return s
}

func (l Layout) param(k, def string) string {
	if v, ok := l.Params[k]; ok {
		return v
	}
	return def
}

// IsDate reports whether the layout is a calendar rule.
func (l Layout) IsDate() bool { return strings.HasPrefix(l.Rule, "date_") }

// IsMycat reports whether the layout is a mycat_* rule (one physical database per table,
// table name not rewritten).
func (l Layout) IsMycat() bool { return strings.HasPrefix(l.Rule, "mycat_") }

// Key is the sharding column of t and t2.
func (l Layout) Key() string {
	if l.IsDate() {
		return "ct"
	}
	return "id"
}

// Target is one statement sent to one backend.
type Target struct {
	Slice string `json:"slice"`
	DB    string `json:"db"`    // physical database the statement is executed in
	Table int    `json:"table"` // table index of the sharded table (-1: not a sharded statement / global copy)
	SQL   string `json:"sql"`
}

// Route is what the proxy would send for one statement.
type Route struct {
	Kind    string                         `json:"kind"` // "shard" (ExecuteSQLs) | "unshard" (ExecuteSQL on the default slice) | "local" (nothing sent)
	Targets []Target                       `json:"targets"`
	SQLs    map[string]map[string][]string `json:"-"` // slice → physical db → statements, as passed to the executor
}

// Indexes returns the sorted set of table indexes of the route.
func (r *Route) Indexes() []int {
	seen := map[int]bool{}
	var out []int
	for _, t := range r.Targets {
		if !seen[t.Table] {
			seen[t.Table] = true
			out = append(out, t.Table)
		}
	}
	sort.Ints(out)
	return out
}

// Has reports whether table index i is in the route.
func (r *Route) Has(i int) bool {
	for _, t := range r.Targets {
		if t.Table == i {
			return true
		}
	}
	return false
}

// Rig is a namespace + router for one layout.
type Rig struct {
	Layout    Layout
	Namespace *models.Namespace
	Router    *router.Router
	Rule      router.Rule // rule of t
	Seq       *sequence.SequenceManager
	PhyDBs    map[string]string
	tables    map[int]bool
	ps        *parser.Parser
}

// ErrParse marks statements the parser rejects.
var ErrParse = errors.New("parse error")

// ErrPanic marks a panic inside BuildPlan / ExecuteIn (the proxy recovers it in
// handleQuery and answers with an error).
var ErrPanic = errors.New("panic")

// New builds namespace JSON → Namespace.Verify → router.NewRouter.
func New(l Layout) (*Rig, error) {
	ns, err := BuildNamespace(l)
	if err != nil {
		return nil, err
	}
	return NewWith(l, ns)
}

// NewWith builds a fresh router (fresh rule objects) from an already built and verified
// namespace model of layout l — much cheaper than New when many pristine routers of one
// layout are needed (history families). The model itself is shared between such rigs.
func NewWith(l Layout, ns *models.Namespace) (*Rig, error) {
	rt, err := router.NewRouter(ns)
	if err != nil {
		return nil, fmt.Errorf("NewRouter: %w", err)
	}
	return NewAround(l, ns, rt)
}

// NewAround wraps an existing router (for instance the one inside a server.Namespace built
// from the same model), so that Plan / Route / Place observe exactly that router's state.
func NewAround(l Layout, ns *models.Namespace, rt *router.Router) (*Rig, error) {
	rule, ok := rt.GetShardRule(DB, Table)
	if !ok {
		return nil, fmt.Errorf("rule of %s.%s missing", DB, Table)
	}
	r := &Rig{Layout: l, Namespace: ns, Router: rt, Rule: rule, Seq: sequence.NewSequenceManager(),
		PhyDBs: ns.DefaultPhyDBS, tables: map[int]bool{}}
	for _, i := range rule.GetSubTableIndexes() {
		r.tables[i] = true
	}
	return r, nil
}

// Tables returns the configured table indexes of t (sorted).
func (r *Rig) Tables() []int { return append([]int(nil), r.Rule.GetSubTableIndexes()...) }

// Place returns the table index that holds rows with sharding key `key` (int64 or string),
// using the rule's own FindTableIndex; ok=false when the rule rejects the key or names a
// table that is not configured (no such row can be stored).
func (r *Rig) Place(key interface{}) (idx int, ok bool) {
	defer func() {
		if e := recover(); e != nil {
			idx, ok = -1, false
		}
	}()
	i, err := r.Rule.FindTableIndex(key)
	if err != nil || !r.tables[i] {
		return -1, false
	}
	return i, true
}

// Phys returns slice and physical database of table index i.
func (r *Rig) Phys(i int) (slice, db string) {
	slice = r.Rule.GetSlice(r.Rule.GetSliceIndexFromTableIndex(i))
	db, _ = r.Rule.GetDatabaseNameByTableIndex(i)
	return
}

// Parse parses one statement with Gaea's parser (as SessionExecutor.Parse does).
func Parse(sql string) (ast.StmtNode, error) {
	return parser.New().ParseOneStmt(sql, "", "")
}

// Parse is Parse with a parser object owned by the rig (allocating a parser per statement,
// as the proxy does, dominates the cost of a bulk enumeration; the parser resets itself on
// every call).
func (r *Rig) Parse(sql string) (ast.StmtNode, error) {
	if r.ps == nil {
		r.ps = parser.New()
	}
	return r.ps.ParseOneStmt(sql, "", "")
}

// Plan parses and plans a statement for session database db ("" = none). Errors:
// ErrParse (wrapped), ErrPanic (wrapped), or BuildPlan's own error.
func (r *Rig) Plan(db, sql string) (p plan.Plan, stmt ast.StmtNode, err error) {
	stmt, err = r.Parse(sql)
	if err != nil {
		return nil, nil, fmt.Errorf("%w: %v", ErrParse, err)
	}
	p, err = r.PlanStmt(db, sql, stmt)
	return p, stmt, err
}

// PlanStmt plans an already parsed statement (BuildPlan rewrites the AST in place: look
// at the pristine AST before calling this).
func (r *Rig) PlanStmt(db, sql string, stmt ast.StmtNode) (p plan.Plan, err error) {
	defer func() {
		if e := recover(); e != nil {
			p, err = nil, fmt.Errorf("%w: %v", ErrPanic, e)
		}
	}()
	return plan.BuildPlan(stmt, r.PhyDBs, db, sql, r.Router, r.Seq, nil)
}

// Route = Plan + observe what ExecuteIn hands to the executor.
func (r *Rig) Route(db, sql string) (*Route, error) {
	p, _, err := r.Plan(db, sql)
	if err != nil {
		return nil, err
	}
	return r.RouteOf(p)
}

var errCaptured = errors.New("planrig: captured")

type recorder struct {
	kind          string
	sqls          map[string]map[string][]string
	slice, db, sq string
}

func (c *recorder) ExecuteSQL(ctx *util.RequestContext, slice, db, sql string) (*mysql.Result, error) {
	c.kind, c.slice, c.db, c.sq = "unshard", slice, db, sql
	return nil, errCaptured
}
func (c *recorder) ExecuteSQLs(ctx *util.RequestContext, m map[string]map[string][]string) ([]*mysql.Result, error) {
	c.kind, c.sqls = "shard", m
	return nil, errCaptured
}
func (c *recorder) SetLastInsertID(uint64)  {}
func (c *recorder) GetLastInsertID() uint64 { return 0 }
func (c *recorder) HandleSet(*util.RequestContext, string, *ast.SetStmt) (*mysql.Result, error) {
	return nil, nil
}

var tableSuffix = regexp.MustCompile("`(?:" + Table + "|" + Child + ")_(\\d{4,})`")

// RouteOf observes an already built plan.
func (r *Rig) RouteOf(p plan.Plan) (rt *Route, err error) {
	defer func() {
		if e := recover(); e != nil {
			rt, err = nil, fmt.Errorf("%w: %v", ErrPanic, e)
		}
	}()
	rec := &recorder{}
	ctx := util.NewRequestContext()
	ctx.SetDefaultSlice(r.Namespace.DefaultSlice)
	_, xerr := p.ExecuteIn(ctx, rec)
	if xerr != nil && !strings.Contains(xerr.Error(), errCaptured.Error()) {
		return nil, xerr
	}
	out := &Route{Kind: rec.kind}
	switch rec.kind {
	case "":
		out.Kind = "local" // empty route / answered by the proxy itself
		out.SQLs = map[string]map[string][]string{}
	case "unshard":
		phy := rec.db
		if d, ok := r.PhyDBs[rec.db]; ok {
			phy = d
		}
		out.Targets = []Target{{Slice: rec.slice, DB: phy, Table: -1, SQL: rec.sq}}
		out.SQLs = map[string]map[string][]string{rec.slice: {phy: {rec.sq}}}
	case "shard":
		out.SQLs = rec.sqls
		slices := make([]string, 0, len(rec.sqls))
		for s := range rec.sqls {
			slices = append(slices, s)
		}
		sort.Strings(slices)
		for _, s := range slices {
			dbs := make([]string, 0, len(rec.sqls[s]))
			for d := range rec.sqls[s] {
				dbs = append(dbs, d)
			}
			sort.Strings(dbs)
			for _, d := range dbs {
				for _, q := range rec.sqls[s][d] {
					idx, ierr := r.tableIndexOf(d, q)
					if ierr != nil {
						return nil, ierr
					}
					out.Targets = append(out.Targets, Target{Slice: s, DB: d, Table: idx, SQL: q})
				}
			}
		}
	}
	return out, nil
}

// tableIndexOf recovers the table index from what is sent: the `t_NNNN` / `t2_NNNN`
// suffix for kingshard-style rules, the physical database for mycat rules.
func (r *Rig) tableIndexOf(phyDB, sql string) (int, error) {
	if r.Layout.IsMycat() {
		if !strings.Contains(sql, "`"+Table+"`") && !strings.Contains(sql, "`"+Child+"`") {
			return -1, nil
		}
		mr, ok := r.Rule.(router.MycatRule)
		if !ok {
			return -1, fmt.Errorf("planrig: rule of %s is no MycatRule", Table)
		}
		i, ok := mr.GetTableIndexByDatabaseName(phyDB)
		if !ok {
			return -1, fmt.Errorf("planrig: physical db %q is no table of %s", phyDB, Table)
		}
		return i, nil
	}
	ms := tableSuffix.FindAllStringSubmatch(sql, -1)
	if len(ms) == 0 {
		return -1, nil
	}
	idx := -1
	for _, m := range ms {
		v, _ := strconv.Atoi(m[1])
		if idx != -1 && v != idx {
			return -1, fmt.Errorf("planrig: statement mixes table indexes %d and %d: %s", idx, v, sql)
		}
		idx = v
	}
	return idx, nil
}

// BuildNamespace renders the layout as namespace JSON, decodes and verifies it.
func BuildNamespace(l Layout) (*models.Namespace, error) {
	if l.Slices < 1 || l.TablesPerSlice < 1 {
		return nil, fmt.Errorf("planrig: bad layout %v", l)
	}
	type m = map[string]interface{}
	var slices []m
	var sliceNames []string
	var locations []int
	for i := 0; i < l.Slices; i++ {
		n := fmt.Sprintf("slice-%d", i)
		sliceNames = append(sliceNames, n)
		locations = append(locations, l.TablesPerSlice)
		slices = append(slices, m{"name": n, "user_name": "root", "password": "root",
			"master": fmt.Sprintf("127.0.0.1:%d", 3306+i), "capacity": 4, "max_capacity": 8, "idle_timeout": 3600})
	}
	nTables := l.Slices * l.TablesPerSlice
	key := l.Key()
	t := m{"db": DB, "table": Table, "type": l.Rule, "key": key, "slices": sliceNames}
	var phys []string
	switch {
	case l.Rule == "hash" || l.Rule == "mod":
		t["locations"] = locations
	case l.Rule == "range":
		t["locations"] = locations
		lim, err := strconv.Atoi(l.param("table_row_limit", "10"))
		if err != nil {
			return nil, err
		}
		t["table_row_limit"] = lim
	case l.IsDate():
		dr, err := dateRanges(l)
		if err != nil {
			return nil, err
		}
		t["date_range"] = dr
	case l.IsMycat():
		t["locations"] = locations
		for i := 0; i < nTables; i++ {
			phys = append(phys, fmt.Sprintf("pdb%d", i))
		}
		t["databases"] = phys
		switch l.Rule {
		case "mycat_long", "mycat_string":
			cnt, length := strconv.Itoa(nTables), strconv.Itoa(1024/nTables)
			if 1024%nTables != 0 {
				f := 1024 / nTables
				cnt = fmt.Sprintf("%d,1", nTables-1)
				length = fmt.Sprintf("%d,%d", f, 1024-(nTables-1)*f)
			}
			t["partition_count"] = l.param("partition_count", cnt)
			t["partition_length"] = l.param("partition_length", length)
			if l.Rule == "mycat_string" {
				t["hash_slice"] = l.param("hash_slice", "0:8")
			}
		case "mycat_murmur":
			t["seed"] = l.param("seed", "0")
			t["virtual_bucket_times"] = l.param("virtual_bucket_times", "160")
		case "mycat_padding_mod":
			// left padding to 8 digits, modulus taken over the last 4 digits
			t["pad_from"] = l.param("pad_from", "0")
			t["pad_length"] = l.param("pad_length", "8")
			t["mod_begin"] = l.param("mod_begin", "4")
			t["mod_end"] = l.param("mod_end", "8")
		}
	default:
		return nil, fmt.Errorf("planrig: unknown rule type %q", l.Rule)
	}
	rules := []m{t}
	if l.param("no_child", "") == "" {
		rules = append(rules, m{"db": DB, "table": Child, "type": "linked", "key": key, "parent_table": Table})
	}
	if l.param("no_global", "") == "" {
		g := m{"db": DB, "table": Global, "type": "global", "locations": locations, "slices": sliceNames}
		if l.IsMycat() {
			g["databases"] = phys
		}
		rules = append(rules, g)
	}
	phyDefault := DB
	if l.IsMycat() {
		phyDefault = phys[0]
	}
	ns := m{
		"name": "verif_ns", "online": true, "read_only": false,
		"allowed_dbs":     m{DB: true, OtherDB: true},
		"default_phy_dbs": m{DB: phyDefault, OtherDB: OtherDB},
		"slices":          slices, "shard_rules": rules, "default_slice": sliceNames[0],
		"users": []m{{"user_name": "u1", "password": "p1", "namespace": "verif_ns", "rw_flag": 2, "rw_split": 1}},
	}
	b, err := json.Marshal(ns)
	if err != nil {
		return nil, err
	}
	out := &models.Namespace{}
	if err := json.Unmarshal(b, out); err != nil {
		return nil, err
	}
	if err := out.Verify(); err != nil {
		return nil, fmt.Errorf("Namespace.Verify: %w", err)
	}
	return out, nil
}

// Periods returns the configured periods of a calendar layout as table indexes
// (2016, 201611, 20161230, …) grouped per slice — computed by the rig's own calendar
// arithmetic only to WRITE the configuration; what Gaea made of it is Rig.Tables().
func Periods(l Layout) ([][]int, error) {
	def := map[string]string{"date_year": "2016", "date_month": "201611", "date_day": "20161230"}[l.Rule]
	start, err := strconv.Atoi(l.param("date_start", def))
	if err != nil {
		return nil, err
	}
	gap, err := strconv.Atoi(l.param("date_gap", "0"))
	if err != nil {
		return nil, err
	}
	cur := start
	next := func(p int) int {
		switch l.Rule {
		case "date_year":
			return p + 1
		case "date_month":
			y, mo := p/100, p%100
			mo++
			if mo > 12 {
				y, mo = y+1, 1
			}
			return y*100 + mo
		default:
			y, mo, d := p/10000, p/100%100, p%100
			dim := []int{0, 31, 28, 31, 30, 31, 30, 31, 31, 30, 31, 30, 31}[mo]
			if mo == 2 && (y%4 == 0 && y%100 != 0 || y%400 == 0) {
				dim = 29
			}
			d++
			if d > dim {
				d, mo = 1, mo+1
			}
			if mo > 12 {
				mo, y = 1, y+1
			}
			return y*10000 + mo*100 + d
		}
	}
	var out [][]int
	for s := 0; s < l.Slices; s++ {
		var ps []int
		for i := 0; i < l.TablesPerSlice; i++ {
			ps = append(ps, cur)
			cur = next(cur)
		}
		out = append(out, ps)
		for g := 0; g < gap; g++ {
			cur = next(cur)
		}
	}
	return out, nil
}

func dateRanges(l Layout) ([]string, error) {
	ps, err := Periods(l)
	if err != nil {
		return nil, err
	}
	var out []string
	for _, p := range ps {
		if len(p) == 1 {
			out = append(out, strconv.Itoa(p[0]))
		} else {
			out = append(out, fmt.Sprintf("%d-%d", p[0], p[len(p)-1]))
		}
	}
	return out, nil
}

// Home returns where the CONFIGURATION written by the rig puts table index i: slice name
// and the database the proxy must address ("db" for kingshard-style rules — the executor
// maps it to the physical default database — and pdb<i> for mycat rules). It is computed
// from the layout alone, independently of the router.
func (r *Rig) Home(i int) (slice, db string, ok bool) {
	l := r.Layout
	db = DB
	if l.IsMycat() {
		db = fmt.Sprintf("pdb%d", i)
	}
	if l.IsDate() {
		ps, err := Periods(l)
		if err != nil {
			return "", "", false
		}
		for s, list := range ps {
			for _, p := range list {
				if p == i {
					return fmt.Sprintf("slice-%d", s), db, true
				}
			}
		}
		return "", "", false
	}
	if i < 0 || i >= l.Slices*l.TablesPerSlice {
		return "", "", false
	}
	return fmt.Sprintf("slice-%d", i/l.TablesPerSlice), db, true
}

// HasAtHome reports whether the route contains a statement for table i on the slice and
// database the configuration assigns to it.
func (r *Rig) HasAtHome(rt *Route, i int) bool {
	s, d, ok := r.Home(i)
	if !ok {
		return false
	}
	for _, t := range rt.Targets {
		if t.Table == i && t.Slice == s && t.DB == d {
			return true
		}
	}
	return false
}

// Signature renders the route canonically (kind, then every target in order: slice, db,
// table index, SQL) — two plans of one statement are "identical" iff their signatures are.
func (r *Route) Signature() string {
	var sb strings.Builder
	sb.WriteString(r.Kind)
	for _, t := range r.Targets {
		fmt.Fprintf(&sb, "\n%s|%s|%d|%s", t.Slice, t.DB, t.Table, t.SQL)
	}
	return sb.String()
}

// RouteSignature = Route(db, sql).Signature(); a rejected statement gives "ERR: <error>".
func (r *Rig) RouteSignature(db, sql string) string {
	rt, err := r.Route(db, sql)
	if err != nil {
		return "ERR: " + err.Error()
	}
	return rt.Signature()
}
