package planrig

import (
	"fmt"

	"github.com/XiaoMi/Gaea/parser/ast"
	"github.com/XiaoMi/Gaea/parser/opcode"
	types "github.com/XiaoMi/Gaea/parser/tidb-types"
	driver "github.com/XiaoMi/Gaea/parser/tidb-types/parser_driver"
)

// Tri is SQL's three-valued logic.
type Tri int

const (
	False Tri = iota
	True
	Unknown
)

func (t Tri) String() string { return [...]string{"FALSE", "TRUE", "UNKNOWN"}[t] }

func not3(a Tri) Tri {
	switch a {
	case True:
		return False
	case False:
		return True
	}
	return Unknown
}

func and3(a, b Tri) Tri {
	if a == False || b == False {
		return False
	}
	if a == True && b == True {
		return True
	}
	return Unknown
}

func or3(a, b Tri) Tri {
	if a == True || b == True {
		return True
	}
	if a == False && b == False {
		return False
	}
	return Unknown
}

// Env gives the evaluator the row and the comparison of two non-NULL values.
//
// Values are nil (NULL), int64 or string. Compare must only be asked for values of the
// same Go type (the callers keep column and literal types equal so that no implicit-cast
// semantics of MySQL are involved); a mixed comparison is reported as an error.
type Env struct {
	// Column resolves a column reference (table may be "" when unqualified; both are
	// lower-cased) to the row's value; ok=false: unknown column (an error).
	Column func(table, column string) (v interface{}, ok bool)
	// Compare returns -1/0/+1 for two non-NULL values of the same type. nil = BytewiseCompare.
	Compare func(a, b interface{}) (int, error)
}

// BytewiseCompare orders int64 numerically and strings bytewise (a binary / ASCII
// collation; use lower-case ASCII data only).
func BytewiseCompare(a, b interface{}) (int, error) {
	switch x := a.(type) {
	case int64:
		y, ok := b.(int64)
		if !ok {
			return 0, fmt.Errorf("mixed comparison %T / %T", a, b)
		}
		switch {
		case x < y:
			return -1, nil
		case x > y:
			return 1, nil
		}
		return 0, nil
	case string:
		y, ok := b.(string)
		if !ok {
			return 0, fmt.Errorf("mixed comparison %T / %T", a, b)
		}
		switch {
		case x < y:
			return -1, nil
		case x > y:
			return 1, nil
		}
		return 0, nil
	}
	return 0, fmt.Errorf("unsupported value type %T", a)
}

// DatetimeCompare compares 'YYYY-MM-DD' and 'YYYY-MM-DD hh:mm:ss' strings as MySQL
// compares DATETIME values (a date is midnight of that day); int64 numerically.
func DatetimeCompare(a, b interface{}) (int, error) {
	x, ok1 := a.(string)
	y, ok2 := b.(string)
	if !ok1 || !ok2 {
		return BytewiseCompare(a, b)
	}
	// compare the common date part, then the time parts with a missing one = midnight
	const midnight = " 00:00:00"
	xd, xt, yd, yt := x, midnight, y, midnight
	if len(x) > 10 {
		xd, xt = x[:10], x[10:]
	}
	if len(y) > 10 {
		yd, yt = y[:10], y[10:]
	}
	if len(x) < 10 || len(y) < 10 { // not a date: plain string order
		return BytewiseCompare(a, b)
	}
	switch {
	case xd < yd:
		return -1, nil
	case xd > yd:
		return 1, nil
	case xt < yt:
		return -1, nil
	case xt > yt:
		return 1, nil
	}
	return 0, nil
}

// Eval evaluates a boolean condition of the supported fragment on one row:
// AND OR NOT ! ( ) = <> < <= > >= [NOT] IN (literals) [NOT] BETWEEN IS [NOT] NULL over
// column references and int / string / NULL literals (unary minus on ints).
// Anything else is an error (the caller generated something outside the fragment).
func Eval(e ast.ExprNode, env *Env) (Tri, error) {
	switch n := e.(type) {
	case *ast.ParenthesesExpr:
		return Eval(n.Expr, env)
	case *ast.UnaryOperationExpr:
		if n.Op == opcode.Not {
			v, err := Eval(n.V, env)
			return not3(v), err
		}
		return Unknown, fmt.Errorf("unsupported unary operator %v in condition", n.Op)
	case *ast.BinaryOperationExpr:
		switch n.Op {
		case opcode.LogicAnd, opcode.LogicOr:
			l, err := Eval(n.L, env)
			if err != nil {
				return Unknown, err
			}
			r, err := Eval(n.R, env)
			if err != nil {
				return Unknown, err
			}
			if n.Op == opcode.LogicAnd {
				return and3(l, r), nil
			}
			return or3(l, r), nil
		case opcode.EQ, opcode.NE, opcode.LT, opcode.LE, opcode.GT, opcode.GE:
			l, err := value(n.L, env)
			if err != nil {
				return Unknown, err
			}
			r, err := value(n.R, env)
			if err != nil {
				return Unknown, err
			}
			return cmp3(n.Op, l, r, env)
		}
		return Unknown, fmt.Errorf("unsupported binary operator %v", n.Op)
	case *ast.PatternInExpr:
		if n.Sel != nil {
			return Unknown, fmt.Errorf("IN (subquery) unsupported")
		}
		x, err := value(n.Expr, env)
		if err != nil {
			return Unknown, err
		}
		res := False
		if x == nil {
			res = Unknown
		} else {
			for _, it := range n.List {
				v, err := value(it, env)
				if err != nil {
					return Unknown, err
				}
				t, err := cmp3(opcode.EQ, x, v, env)
				if err != nil {
					return Unknown, err
				}
				res = or3(res, t)
			}
		}
		if n.Not {
			return not3(res), nil
		}
		return res, nil
	case *ast.BetweenExpr:
		x, err := value(n.Expr, env)
		if err != nil {
			return Unknown, err
		}
		lo, err := value(n.Left, env)
		if err != nil {
			return Unknown, err
		}
		hi, err := value(n.Right, env)
		if err != nil {
			return Unknown, err
		}
		a, err := cmp3(opcode.GE, x, lo, env)
		if err != nil {
			return Unknown, err
		}
		b, err := cmp3(opcode.LE, x, hi, env)
		if err != nil {
			return Unknown, err
		}
		res := and3(a, b)
		if n.Not {
			return not3(res), nil
		}
		return res, nil
	case *ast.IsNullExpr:
		x, err := value(n.Expr, env)
		if err != nil {
			return Unknown, err
		}
		if (x == nil) != n.Not {
			return True, nil
		}
		return False, nil
	}
	return Unknown, fmt.Errorf("unsupported condition node %T", e)
}

func cmp3(op opcode.Op, l, r interface{}, env *Env) (Tri, error) {
	if l == nil || r == nil {
		return Unknown, nil
	}
	cmp := env.Compare
	if cmp == nil {
		cmp = BytewiseCompare
	}
	c, err := cmp(l, r)
	if err != nil {
		return Unknown, err
	}
	var b bool
	switch op {
	case opcode.EQ:
		b = c == 0
	case opcode.NE:
		b = c != 0
	case opcode.LT:
		b = c < 0
	case opcode.LE:
		b = c <= 0
	case opcode.GT:
		b = c > 0
	case opcode.GE:
		b = c >= 0
	}
	if b {
		return True, nil
	}
	return False, nil
}

func value(e ast.ExprNode, env *Env) (interface{}, error) {
	switch n := e.(type) {
	case *ast.ParenthesesExpr:
		return value(n.Expr, env)
	case *ast.ColumnNameExpr:
		v, ok := env.Column(n.Name.Table.L, n.Name.Name.L)
		if !ok {
			return nil, fmt.Errorf("unknown column %s.%s", n.Name.Table.L, n.Name.Name.L)
		}
		return v, nil
	case *driver.ValueExpr:
		return LiteralValue(n)
	case *ast.UnaryOperationExpr:
		if n.Op == opcode.Minus {
			v, err := value(n.V, env)
			if err != nil {
				return nil, err
			}
			if i, ok := v.(int64); ok {
				return -i, nil
			}
		}
		return nil, fmt.Errorf("unsupported unary operator %v in value", n.Op)
	}
	return nil, fmt.Errorf("unsupported value node %T", e)
}

// LiteralValue returns nil / int64 / string for a literal.
func LiteralValue(n *driver.ValueExpr) (interface{}, error) {
	switch n.Kind() {
	case types.KindNull:
		return nil, nil
	case types.KindInt64:
		return n.GetInt64(), nil
	case types.KindUint64:
		u := n.GetUint64()
		if u > 1<<62 {
			return nil, fmt.Errorf("literal %d out of the supported range", u)
		}
		return int64(u), nil
	case types.KindString, types.KindBytes:
		return n.GetString(), nil
	}
	return nil, fmt.Errorf("unsupported literal kind %v", n.Kind())
}

// Conditions returns the row-filtering conditions of a statement of the supported forms:
// the WHERE clause and, for joins, every ON condition (inner-join semantics: a row
// combination is produced iff all of them are TRUE).
func Conditions(stmt ast.StmtNode) ([]ast.ExprNode, error) {
	var out []ast.ExprNode
	var refs *ast.TableRefsClause
	switch s := stmt.(type) {
	case *ast.SelectStmt:
		refs = s.From
		if s.Where != nil {
			out = append(out, s.Where)
		}
	case *ast.UpdateStmt:
		refs = s.TableRefs
		if s.Where != nil {
			out = append(out, s.Where)
		}
	case *ast.DeleteStmt:
		refs = s.TableRefs
		if s.Where != nil {
			out = append(out, s.Where)
		}
	default:
		return nil, fmt.Errorf("unsupported statement %T", stmt)
	}
	if refs != nil && refs.TableRefs != nil {
		if err := joinConds(refs.TableRefs, &out); err != nil {
			return nil, err
		}
	}
	return out, nil
}

func joinConds(j *ast.Join, out *[]ast.ExprNode) error {
	if j.Right != nil && j.Tp != ast.CrossJoin {
		return fmt.Errorf("only inner joins are supported (join type %v)", j.Tp)
	}
	if len(j.Using) > 0 || j.NaturalJoin {
		return fmt.Errorf("USING / NATURAL joins unsupported")
	}
	if j.On != nil {
		*out = append(*out, j.On.Expr)
	}
	if l, ok := j.Left.(*ast.Join); ok {
		return joinConds(l, out)
	}
	return nil
}

// EvalAll is the conjunction of all conditions.
func EvalAll(conds []ast.ExprNode, env *Env) (Tri, error) {
	res := True
	for _, c := range conds {
		t, err := Eval(c, env)
		if err != nil {
			return Unknown, err
		}
		res = and3(res, t)
	}
	return res, nil
}

// ---------------------------------------------------------------- compiled form

// Compiled is a set of conditions prepared for evaluation on many rows (literals are
// extracted once; evaluation allocates nothing). Semantics are exactly those of EvalAll.
type Compiled struct{ conds []*cnode }

type cnode struct {
	kind    byte // 'a' and, 'o' or, 'n' not, 'c' compare, 'i' in, 'b' between, 'z' is null, 'v' literal, 'r' column ref, 'm' unary minus
	op      opcode.Op
	not     bool
	l, r, x *cnode
	list    []*cnode
	val     interface{}
	tbl     string
	col     string
}

// Compile prepares conditions; it fails on anything outside the supported fragment.
func Compile(conds []ast.ExprNode) (*Compiled, error) {
	c := &Compiled{}
	for _, e := range conds {
		n, err := compileCond(e)
		if err != nil {
			return nil, err
		}
		c.conds = append(c.conds, n)
	}
	return c, nil
}

func compileCond(e ast.ExprNode) (*cnode, error) {
	switch n := e.(type) {
	case *ast.ParenthesesExpr:
		return compileCond(n.Expr)
	case *ast.UnaryOperationExpr:
		if n.Op == opcode.Not {
			x, err := compileCond(n.V)
			return &cnode{kind: 'n', x: x}, err
		}
		return nil, fmt.Errorf("unsupported unary operator %v in condition", n.Op)
	case *ast.BinaryOperationExpr:
		switch n.Op {
		case opcode.LogicAnd, opcode.LogicOr:
			l, err := compileCond(n.L)
			if err != nil {
				return nil, err
			}
			r, err := compileCond(n.R)
			if err != nil {
				return nil, err
			}
			k := byte('a')
			if n.Op == opcode.LogicOr {
				k = 'o'
			}
			return &cnode{kind: k, l: l, r: r}, nil
		case opcode.EQ, opcode.NE, opcode.LT, opcode.LE, opcode.GT, opcode.GE:
			l, err := compileValue(n.L)
			if err != nil {
				return nil, err
			}
			r, err := compileValue(n.R)
			if err != nil {
				return nil, err
			}
			return &cnode{kind: 'c', op: n.Op, l: l, r: r}, nil
		}
		return nil, fmt.Errorf("unsupported binary operator %v", n.Op)
	case *ast.PatternInExpr:
		if n.Sel != nil {
			return nil, fmt.Errorf("IN (subquery) unsupported")
		}
		x, err := compileValue(n.Expr)
		if err != nil {
			return nil, err
		}
		out := &cnode{kind: 'i', x: x, not: n.Not}
		for _, it := range n.List {
			v, err := compileValue(it)
			if err != nil {
				return nil, err
			}
			out.list = append(out.list, v)
		}
		return out, nil
	case *ast.BetweenExpr:
		x, err := compileValue(n.Expr)
		if err != nil {
			return nil, err
		}
		l, err := compileValue(n.Left)
		if err != nil {
			return nil, err
		}
		r, err := compileValue(n.Right)
		if err != nil {
			return nil, err
		}
		return &cnode{kind: 'b', x: x, l: l, r: r, not: n.Not}, nil
	case *ast.IsNullExpr:
		x, err := compileValue(n.Expr)
		if err != nil {
			return nil, err
		}
		return &cnode{kind: 'z', x: x, not: n.Not}, nil
	}
	return nil, fmt.Errorf("unsupported condition node %T", e)
}

func compileValue(e ast.ExprNode) (*cnode, error) {
	switch n := e.(type) {
	case *ast.ParenthesesExpr:
		return compileValue(n.Expr)
	case *ast.ColumnNameExpr:
		return &cnode{kind: 'r', tbl: n.Name.Table.L, col: n.Name.Name.L}, nil
	case *driver.ValueExpr:
		v, err := LiteralValue(n)
		return &cnode{kind: 'v', val: v}, err
	case *ast.UnaryOperationExpr:
		if n.Op == opcode.Minus {
			x, err := compileValue(n.V)
			if err != nil {
				return nil, err
			}
			if i, ok := x.val.(int64); ok && x.kind == 'v' {
				return &cnode{kind: 'v', val: -i}, nil
			}
		}
		return nil, fmt.Errorf("unsupported unary operator %v in value", n.Op)
	}
	return nil, fmt.Errorf("unsupported value node %T", e)
}

// Eval is the conjunction of all compiled conditions on the row given by env.
func (c *Compiled) Eval(env *Env) (Tri, error) {
	res := True
	for _, n := range c.conds {
		t, err := n.eval(env)
		if err != nil {
			return Unknown, err
		}
		res = and3(res, t)
	}
	return res, nil
}

func (n *cnode) value(env *Env) (interface{}, error) {
	if n.kind == 'v' {
		return n.val, nil
	}
	v, ok := env.Column(n.tbl, n.col)
	if !ok {
		return nil, fmt.Errorf("unknown column %s.%s", n.tbl, n.col)
	}
	return v, nil
}

func (n *cnode) eval(env *Env) (Tri, error) {
	switch n.kind {
	case 'n':
		t, err := n.x.eval(env)
		return not3(t), err
	case 'a', 'o':
		l, err := n.l.eval(env)
		if err != nil {
			return Unknown, err
		}
		r, err := n.r.eval(env)
		if err != nil {
			return Unknown, err
		}
		if n.kind == 'a' {
			return and3(l, r), nil
		}
		return or3(l, r), nil
	case 'c':
		l, err := n.l.value(env)
		if err != nil {
			return Unknown, err
		}
		r, err := n.r.value(env)
		if err != nil {
			return Unknown, err
		}
		return cmp3(n.op, l, r, env)
	case 'i':
		x, err := n.x.value(env)
		if err != nil {
			return Unknown, err
		}
		res := False
		if x == nil {
			res = Unknown
		} else {
			for _, it := range n.list {
				v, err := it.value(env)
				if err != nil {
					return Unknown, err
				}
				t, err := cmp3(opcode.EQ, x, v, env)
				if err != nil {
					return Unknown, err
				}
				res = or3(res, t)
			}
		}
		if n.not {
			return not3(res), nil
		}
		return res, nil
	case 'b':
		x, err := n.x.value(env)
		if err != nil {
			return Unknown, err
		}
		lo, err := n.l.value(env)
		if err != nil {
			return Unknown, err
		}
		hi, err := n.r.value(env)
		if err != nil {
			return Unknown, err
		}
		a, err := cmp3(opcode.GE, x, lo, env)
		if err != nil {
			return Unknown, err
		}
		b, err := cmp3(opcode.LE, x, hi, env)
		if err != nil {
			return Unknown, err
		}
		res := and3(a, b)
		if n.not {
			return not3(res), nil
		}
		return res, nil
	case 'z':
		x, err := n.x.value(env)
		if err != nil {
			return Unknown, err
		}
		if (x == nil) != n.not {
			return True, nil
		}
		return False, nil
	}
	return Unknown, fmt.Errorf("internal: bad compiled node %c", n.kind)
}
