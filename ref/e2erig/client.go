// Package e2erig runs a real Gaea proxy (server.Server + Manager built from in-memory
// models structs, no config files, no etcd) on a loopback port — in-process or in a child
// process of the check binary — against fakemysql backends, and provides a byte-level
// MySQL client to talk to it.
package e2erig

import (
	"bufio"
	"crypto/sha1"
	"encoding/binary"
	"errors"
	"fmt"
	"io"
	"net"
	"time"
)

const maxPacket = 1<<24 - 1

// Client capability flags used by the rig's client.
const (
	CapLongPassword     = 1 << 0
	CapFoundRows        = 1 << 1
	CapLongFlag         = 1 << 2
	CapConnectWithDB    = 1 << 3
	CapProtocol41       = 1 << 9
	CapTransactions     = 1 << 13
	CapSecureConnection = 1 << 15
	CapMultiStatements  = 1 << 16
	CapMultiResults     = 1 << 17
	CapPluginAuth       = 1 << 19
)

// MyErr is an ERR packet received from the proxy.
type MyErr struct {
	Code  uint16
	State string
	Msg   string
}

func (e *MyErr) Error() string { return fmt.Sprintf("ERROR %d (%s): %s", e.Code, e.State, e.Msg) }

// Client is a byte-level MySQL client: every packet is built and parsed here.
type Client struct {
	C       net.Conn
	r       *bufio.Reader
	Seq     uint8
	Timeout time.Duration // per read/write deadline; 0 = none
	Salt    []byte
	ConnID  uint32
	Greet   []byte
}

// DialRaw connects and reads the server greeting; the caller sends the handshake response.
func DialRaw(addr string, timeout time.Duration) (*Client, error) {
	c, err := net.DialTimeout("tcp4", addr, 10*time.Second)
	if err != nil {
		return nil, err
	}
	if tc, ok := c.(*net.TCPConn); ok {
		tc.SetNoDelay(true)
	}
	cl := &Client{C: c, r: bufio.NewReaderSize(c, 8<<10), Timeout: timeout}
	g, err := cl.ReadPacket()
	if err != nil {
		c.Close()
		return nil, fmt.Errorf("read greeting: %v", err)
	}
	cl.Greet = g
	if len(g) < 1 || g[0] != 10 {
		c.Close()
		return nil, fmt.Errorf("unexpected greeting % x", g)
	}
	pos := 1
	for pos < len(g) && g[pos] != 0 {
		pos++
	}
	pos++
	if pos+4+8+1+2+1+2+2+1+10+12 > len(g) {
		c.Close()
		return nil, errors.New("short greeting")
	}
	cl.ConnID = binary.LittleEndian.Uint32(g[pos:])
	pos += 4
	cl.Salt = append(cl.Salt, g[pos:pos+8]...)
	pos += 8 + 1 + 2 + 1 + 2 + 2 + 1 + 10
	cl.Salt = append(cl.Salt, g[pos:pos+12]...)
	return cl, nil
}

// NativePassword computes the mysql_native_password proof.
func NativePassword(salt []byte, password string) []byte {
	if password == "" {
		return nil
	}
	h1 := sha1.Sum([]byte(password))
	h2 := sha1.Sum(h1[:])
	h := sha1.New()
	h.Write(salt)
	h.Write(h2[:])
	h3 := h.Sum(nil)
	out := make([]byte, 20)
	for i := range out {
		out[i] = h1[i] ^ h3[i]
	}
	return out
}

// HandshakeResponse builds a HandshakeResponse41 payload.
func HandshakeResponse(caps uint32, collation byte, user string, auth []byte, db string, plugin string) []byte {
	b := make([]byte, 32)
	binary.LittleEndian.PutUint32(b, caps)
	binary.LittleEndian.PutUint32(b[4:], 1<<24)
	b[8] = collation
	b = append(b, user...)
	b = append(b, 0)
	b = append(b, byte(len(auth)))
	b = append(b, auth...)
	if caps&CapConnectWithDB != 0 {
		b = append(b, db...)
		b = append(b, 0)
	}
	if caps&CapPluginAuth != 0 {
		b = append(b, plugin...)
		b = append(b, 0)
	}
	return b
}

// DefaultCaps are the capabilities the rig's client announces (no plugin auth, classic EOF).
const DefaultCaps = CapLongPassword | CapLongFlag | CapProtocol41 | CapTransactions | CapSecureConnection | CapMultiResults

// Dial connects and authenticates; collation is the handshake character-set byte.
func Dial(addr, user, password, db string, collation byte, timeout time.Duration) (*Client, error) {
	cl, err := DialRaw(addr, timeout)
	if err != nil {
		return nil, err
	}
	caps := uint32(DefaultCaps)
	if db != "" {
		caps |= CapConnectWithDB
	}
	if err := cl.WritePacket(HandshakeResponse(caps, collation, user, NativePassword(cl.Salt, password), db, "")); err != nil {
		cl.Close()
		return nil, err
	}
	p, err := cl.ReadPacket()
	if err != nil {
		cl.Close()
		return nil, fmt.Errorf("read auth result: %v", err)
	}
	if len(p) > 0 && p[0] == 0xff {
		cl.Close()
		return nil, ParseErr(p)
	}
	if len(p) == 0 || p[0] != 0x00 {
		cl.Close()
		return nil, fmt.Errorf("unexpected auth result % x", p)
	}
	return cl, nil
}

func (c *Client) Close() { c.C.Close() }

func (c *Client) deadline() {
	if c.Timeout > 0 {
		c.C.SetDeadline(time.Now().Add(c.Timeout))
	}
}

// WriteRaw writes bytes as they are (no framing).
func (c *Client) WriteRaw(b []byte) error {
	c.deadline()
	_, err := c.C.Write(b)
	return err
}

// Frame returns payload framed as one or more physical packets starting at sequence seq.
func Frame(seq uint8, payload []byte) []byte {
	var out []byte
	for {
		n := len(payload)
		if n > maxPacket {
			n = maxPacket
		}
		out = append(out, byte(n), byte(n>>8), byte(n>>16), seq)
		out = append(out, payload[:n]...)
		seq++
		payload = payload[n:]
		if n < maxPacket {
			return out
		}
	}
}

// WritePacket frames payload with the client's current sequence id.
func (c *Client) WritePacket(payload []byte) error {
	b := Frame(c.Seq, payload)
	c.Seq += uint8(len(payload)/maxPacket + 1)
	return c.WriteRaw(b)
}

// Command sends a command packet with sequence 0.
func (c *Client) Command(cmd byte, arg []byte) error {
	c.Seq = 0
	return c.WritePacket(append([]byte{cmd}, arg...))
}

// ReadPacket reads one logical packet (re-assembling continuation packets) and checks the
// sequence ids.
func (c *Client) ReadPacket() ([]byte, error) {
	var out []byte
	for {
		c.deadline()
		var h [4]byte
		if _, err := io.ReadFull(c.r, h[:]); err != nil {
			return nil, err
		}
		n := int(h[0]) | int(h[1])<<8 | int(h[2])<<16
		if h[3] != c.Seq {
			return nil, fmt.Errorf("protocol: sequence id %d, expected %d", h[3], c.Seq)
		}
		c.Seq++
		if n > 0 {
			old := len(out)
			if out == nil {
				out = make([]byte, n)
			} else {
				out = append(out, make([]byte, n)...)
			}
			for off := old; off < len(out); {
				c.deadline()
				m, err := c.r.Read(out[off:])
				off += m
				if err != nil {
					return nil, err
				}
			}
		}
		if n < maxPacket {
			return out, nil
		}
	}
}

func ParseErr(p []byte) *MyErr {
	e := &MyErr{}
	if len(p) >= 3 {
		e.Code = binary.LittleEndian.Uint16(p[1:])
	}
	rest := p[min(3, len(p)):]
	if len(rest) >= 6 && rest[0] == '#' {
		e.State = string(rest[1:6])
		rest = rest[6:]
	}
	e.Msg = string(rest)
	return e
}

// ReadLenEnc decodes a length-encoded integer; n = bytes consumed (0 = malformed/NULL).
func ReadLenEnc(b []byte) (v uint64, n int, isNull bool) {
	if len(b) == 0 {
		return 0, 0, false
	}
	switch b[0] {
	case 0xfb:
		return 0, 1, true
	case 0xfc:
		if len(b) < 3 {
			return 0, 0, false
		}
		return uint64(b[1]) | uint64(b[2])<<8, 3, false
	case 0xfd:
		if len(b) < 4 {
			return 0, 0, false
		}
		return uint64(b[1]) | uint64(b[2])<<8 | uint64(b[3])<<16, 4, false
	case 0xfe:
		if len(b) < 9 {
			return 0, 0, false
		}
		return binary.LittleEndian.Uint64(b[1:]), 9, false
	}
	return uint64(b[0]), 1, false
}

func PutLenEnc(b []byte, v uint64) []byte {
	switch {
	case v < 251:
		return append(b, byte(v))
	case v < 1<<16:
		return append(b, 0xfc, byte(v), byte(v>>8))
	case v < 1<<24:
		return append(b, 0xfd, byte(v), byte(v>>8), byte(v>>16))
	}
	var x [8]byte
	binary.LittleEndian.PutUint64(x[:], v)
	return append(append(b, 0xfe), x[:]...)
}

// ResultInfo describes what the client received in answer to a statement.
type ResultInfo struct {
	OK       bool   // OK packet (no result set)
	Err      *MyErr // ERR packet (possibly after some rows)
	Cols     int
	Rows     int  // rows received before the terminating EOF / the error
	Complete bool // the terminating EOF of the row section was received
	Status   uint16
}

func isEOF(p []byte) bool { return len(p) > 0 && p[0] == 0xfe && len(p) <= 5 }

// ReadResult reads the response to COM_QUERY / COM_STMT_EXECUTE (classic EOF framing).
// onRow receives each row payload (text or binary row as sent).
func (c *Client) ReadResult(onRow func(row []byte)) (ResultInfo, error) {
	var ri ResultInfo
	p, err := c.ReadPacket()
	if err != nil {
		return ri, err
	}
	if len(p) == 0 {
		return ri, errors.New("protocol: empty first response packet")
	}
	switch p[0] {
	case 0x00:
		ri.OK = true
		_, n1, _ := ReadLenEnc(p[1:])
		_, n2, _ := ReadLenEnc(p[1+n1:])
		if len(p) >= 1+n1+n2+2 {
			ri.Status = binary.LittleEndian.Uint16(p[1+n1+n2:])
		}
		return ri, nil
	case 0xff:
		ri.Err = ParseErr(p)
		return ri, nil
	}
	cnt, n, _ := ReadLenEnc(p)
	if n == 0 || n != len(p) {
		return ri, fmt.Errorf("protocol: bad column count packet % x", p[:min(len(p), 16)])
	}
	ri.Cols = int(cnt)
	for i := 0; i < ri.Cols; i++ {
		p, err = c.ReadPacket()
		if err != nil {
			return ri, err
		}
		if len(p) > 0 && p[0] == 0xff {
			ri.Err = ParseErr(p)
			return ri, nil
		}
	}
	p, err = c.ReadPacket()
	if err != nil {
		return ri, err
	}
	if !isEOF(p) {
		return ri, fmt.Errorf("protocol: expected EOF after column definitions, got % x", p[:min(len(p), 16)])
	}
	for {
		p, err = c.ReadPacket()
		if err != nil {
			return ri, err
		}
		if isEOF(p) {
			ri.Complete = true
			if len(p) >= 5 {
				ri.Status = binary.LittleEndian.Uint16(p[3:])
			}
			return ri, nil
		}
		if len(p) > 0 && p[0] == 0xff {
			ri.Err = ParseErr(p)
			return ri, nil
		}
		ri.Rows++
		if onRow != nil {
			onRow(p)
		}
	}
}

// Query sends COM_QUERY and reads the response.
func (c *Client) Query(sql string, onRow func(row []byte)) (ResultInfo, error) {
	if err := c.Command(0x03, []byte(sql)); err != nil {
		return ResultInfo{}, err
	}
	return c.ReadResult(onRow)
}

// Prepared is the answer to COM_STMT_PREPARE.
type Prepared struct {
	ID      uint32
	Columns int
	Params  int
}

// Prepare sends COM_STMT_PREPARE and reads the whole response.
func (c *Client) Prepare(sql string) (*Prepared, *MyErr, error) {
	if err := c.Command(0x16, []byte(sql)); err != nil {
		return nil, nil, err
	}
	p, err := c.ReadPacket()
	if err != nil {
		return nil, nil, err
	}
	if len(p) > 0 && p[0] == 0xff {
		return nil, ParseErr(p), nil
	}
	if len(p) < 12 || p[0] != 0 {
		return nil, nil, fmt.Errorf("protocol: bad prepare response % x", p)
	}
	st := &Prepared{ID: binary.LittleEndian.Uint32(p[1:]), Columns: int(binary.LittleEndian.Uint16(p[5:])), Params: int(binary.LittleEndian.Uint16(p[7:]))}
	for _, n := range []int{st.Params, st.Columns} {
		if n == 0 {
			continue
		}
		for i := 0; i < n; i++ {
			if _, err := c.ReadPacket(); err != nil {
				return nil, nil, err
			}
		}
		if p, err = c.ReadPacket(); err != nil {
			return nil, nil, err
		} else if !isEOF(p) {
			return nil, nil, fmt.Errorf("protocol: expected EOF in prepare response")
		}
	}
	return st, nil, nil
}

// ExecuteInts sends COM_STMT_EXECUTE with every parameter bound as a signed LONGLONG.
func ExecutePayload(id uint32, params []int64) []byte {
	b := []byte{0, 0, 0, 0, 0x00, 1, 0, 0, 0}
	binary.LittleEndian.PutUint32(b, id)
	if len(params) > 0 {
		b = append(b, make([]byte, (len(params)+7)/8)...)
		b = append(b, 1)
		for range params {
			b = append(b, 0x08, 0x00)
		}
		for _, v := range params {
			var x [8]byte
			binary.LittleEndian.PutUint64(x[:], uint64(v))
			b = append(b, x[:]...)
		}
	}
	return b
}

// Execute sends COM_STMT_EXECUTE (LONGLONG parameters) and reads the binary result.
func (c *Client) Execute(id uint32, params []int64, onRow func(row []byte)) (ResultInfo, error) {
	if err := c.Command(0x17, ExecutePayload(id, params)); err != nil {
		return ResultInfo{}, err
	}
	return c.ReadResult(onRow)
}

// BinaryRowSingleString extracts the value of a binary-protocol row with exactly one
// string-typed column (header 0x00, 1-byte NULL bitmap, length-encoded string).
func BinaryRowSingleString(row []byte) ([]byte, error) {
	if len(row) < 2 || row[0] != 0 {
		return nil, errors.New("bad binary row header")
	}
	if row[1]&0x04 != 0 {
		return nil, nil
	}
	l, n, _ := ReadLenEnc(row[2:])
	if n == 0 || 2+n+int(l) != len(row) {
		return nil, fmt.Errorf("binary row length mismatch: header says %d, have %d", l, len(row)-2-n)
	}
	return row[2+n:], nil
}

// TextRowSingleString extracts the value of a text-protocol row with exactly one column.
func TextRowSingleString(row []byte) ([]byte, error) {
	l, n, null := ReadLenEnc(row)
	if null {
		return nil, nil
	}
	if n == 0 || n+int(l) != len(row) {
		return nil, fmt.Errorf("text row length mismatch: header says %d, have %d", l, len(row)-n)
	}
	return row[n:], nil
}
