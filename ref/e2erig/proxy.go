package e2erig

import (
	"bufio"
	"bytes"
	"encoding/json"
	"fmt"
	"io"
	"os"
	"os/exec"
	"path/filepath"
	"strings"
	"sync"
	"time"

	"github.com/XiaoMi/Gaea/models"
	"github.com/XiaoMi/Gaea/proxy/server"

	"verif/ref/fakemysql"
)

// User / password every rig namespace uses unless the namespace says otherwise.
const (
	User     = "verif"
	Password = "verifpw"
	DB       = "db"
)

// Namespace returns a minimal one-namespace configuration: database "db", one read-write
// user, the given slices' masters (fakemysql addresses; slice i is "slice-i", pool
// capacity as given), no shard rules. The caller may adjust the struct before starting.
func Namespace(name string, capacity int, backends ...string) *models.Namespace {
	ns := &models.Namespace{
		Name:              name,
		Online:            true,
		AllowedDBS:        map[string]bool{DB: true},
		DefaultPhyDBS:     map[string]string{DB: DB},
		DefaultSlice:      "slice-0",
		Users:             []*models.User{{UserName: User, Password: Password, Namespace: name, RWFlag: models.ReadWrite, RWSplit: models.NoReadWriteSplit}},
		DefaultCharset:    "utf8mb4",
		DefaultCollation:  "utf8mb4_general_ci",
		MaxSqlExecuteTime: 0,
		MaxSqlResultSize:  -1,
		DownAfterNoAlive:  1 << 30, // never mark a backend down because of a slow health check
	}
	for i, b := range backends {
		ns.Slices = append(ns.Slices, &models.Slice{
			Name: fmt.Sprintf("slice-%d", i), UserName: "root", Password: "root", Master: b,
			Capacity: capacity, MaxCapacity: capacity, IdleTimeout: 3600, HandshakeTimeout: 20000,
		})
	}
	return ns
}

// Proxy is a running in-process Gaea proxy.
type Proxy struct {
	Srv    *server.Server
	Mgr    *server.Manager
	Addr   string
	logDir string
	done   chan struct{}
}

// StartProxy builds Manager + Server from the namespaces and serves on 127.0.0.1:0.
// scratchPrefix names the temporary log directory (/tmp/<prefix>-*), removed by Close.
func StartProxy(scratchPrefix string, nss ...*models.Namespace) (*Proxy, error) {
	removeStaleScratch(scratchPrefix)
	dir, err := os.MkdirTemp(scratchRoot(), scratchPrefix+"-")
	if err != nil {
		return nil, err
	}
	cfg := &models.Proxy{
		ConfigType:     models.ConfigFile,
		Cluster:        "verif",
		Service:        "verif_proxy",
		LogPath:        dir,
		LogLevel:       "none",
		LogFileName:    "gaea",
		LogOutput:      "file",
		ProtoType:      "tcp4",
		ProxyAddr:      "127.0.0.1:0",
		AdminAddr:      "127.0.0.1:0",
		AdminUser:      "admin",
		AdminPassword:  "admin",
		SlowSQLTime:    1 << 40,
		SessionTimeout: 3600,
		StatsEnabled:   "false",
		StatsInterval:  3600,
		EncryptKey:     "1234abcd5678efg*",
		ServerVersion:  "5.7.25-gaea",
	}
	m := map[string]*models.Namespace{}
	for _, ns := range nss {
		m[ns.Name] = ns
	}
	mgr, err := server.CreateManager(cfg, m)
	if err != nil {
		os.RemoveAll(dir)
		return nil, fmt.Errorf("CreateManager: %v", err)
	}
	for _, ns := range nss {
		if mgr.GetNamespace(ns.Name) == nil {
			mgr.Close()
			os.RemoveAll(dir)
			return nil, fmt.Errorf("namespace %s was not created (invalid configuration)", ns.Name)
		}
	}
	srv, err := server.NewServer(cfg, mgr)
	if err != nil {
		os.RemoveAll(dir)
		return nil, fmt.Errorf("NewServer: %v", err)
	}
	p := &Proxy{Srv: srv, Mgr: mgr, Addr: srv.Listener().Addr().String(), logDir: dir, done: make(chan struct{})}
	go func() {
		srv.Run()
		close(p.done)
	}()
	return p, nil
}

// removeStaleScratch deletes scratch directories of earlier runs that ended without Close
// (engine error, killed process): /tmp/<prefix>-<digits> not modified for 30 minutes.
func removeStaleScratch(prefix string) {
	ms, _ := filepath.Glob(filepath.Join(scratchRoot(), prefix+"-[0-9]*"))
	for _, m := range ms {
		if fi, err := os.Stat(m); err == nil && fi.IsDir() && time.Since(fi.ModTime()) > 30*time.Minute {
			os.RemoveAll(m)
		}
	}
}

// ReloadNamespace replaces a namespace by a freshly built one (two-phase reload of the
// real Manager): new Namespace object, new slices, new connection pools, empty plan
// cache. Only one Manager can exist per process (Gaea's stats registry panics on a second
// one), so this is how an in-process harness gets "fresh" backend connections. The old
// namespace's pools are closed by Gaea in the background after its delay.
func (p *Proxy) ReloadNamespace(ns *models.Namespace) error {
	if err := p.Mgr.ReloadNamespacePrepare(ns); err != nil {
		return err
	}
	return p.Mgr.ReloadNamespaceCommit(ns.Name)
}

// Close shuts the proxy down and removes its scratch directory.
func (p *Proxy) Close() {
	p.Srv.Close()
	select {
	case <-p.done:
	case <-time.After(10 * time.Second):
	}
	os.RemoveAll(p.logDir)
}

// ---- child-process mode ---------------------------------------------------------------

// ChildSpec tells the child what to run: Backends fakemysql servers and one proxy whose
// namespaces' slice masters "@0", "@1", ... are replaced by the backends' addresses.
type ChildSpec struct {
	Prefix     string              `json:"prefix"`
	Backends   int                 `json:"backends"`
	Handler    string              `json:"handler"` // name registered with RegisterHandler ("" = default)
	Namespaces []*models.Namespace `json:"namespaces"`
}

var handlers = map[string]func(c *fakemysql.ConnInfo, sql string) *fakemysql.Result{}

// RegisterHandler names a fakemysql query handler so that a child process can use it.
func RegisterHandler(name string, h func(c *fakemysql.ConnInfo, sql string) *fakemysql.Result) {
	handlers[name] = h
}

var childCommands = map[string]func(p *Proxy, arg string) string{}

// RegisterChildCommand names a function the parent can invoke in the child through
// Child.Command (e.g. to read a counter of the real Manager through an inject accessor).
func RegisterChildCommand(name string, h func(p *Proxy, arg string) string) {
	childCommands[name] = h
}

const childEnv = "VERIF_E2ERIG_CHILD"

// MaybeChild must be called first in main (after RegisterHandler calls): in a child
// process it serves until stdin is closed and never returns.
func MaybeChild() {
	js := os.Getenv(childEnv)
	if js == "" {
		return
	}
	var spec ChildSpec
	if err := json.Unmarshal([]byte(js), &spec); err != nil {
		fmt.Println("ERROR bad spec:", err)
		os.Exit(3)
	}
	var fakes []*fakemysql.Server
	for i := 0; i < spec.Backends; i++ {
		f, err := fakemysql.Start(fakemysql.Options{Name: fmt.Sprintf("b%d", i), Query: handlers[spec.Handler], NoLog: true})
		if err != nil {
			fmt.Println("ERROR fakemysql:", err)
			os.Exit(3)
		}
		fakes = append(fakes, f)
	}
	for _, ns := range spec.Namespaces {
		for _, sl := range ns.Slices {
			if strings.HasPrefix(sl.Master, "@") {
				var i int
				fmt.Sscanf(sl.Master, "@%d", &i)
				sl.Master = fakes[i].Addr()
			}
		}
	}
	p, err := StartProxy(spec.Prefix, spec.Namespaces...)
	if err != nil {
		fmt.Println("ERROR proxy:", err)
		os.Exit(3)
	}
	fmt.Println("READY " + p.Addr)
	// serve control commands until the parent closes stdin (or dies) -> shut down
	in := bufio.NewScanner(os.Stdin)
	for in.Scan() {
		name, arg := in.Text(), ""
		if i := strings.IndexByte(name, ' '); i >= 0 {
			name, arg = name[:i], name[i+1:]
		}
		if h := childCommands[name]; h != nil {
			fmt.Println("R " + h(p, arg))
		} else {
			fmt.Println("R ERR unknown command " + name)
		}
	}
	p.Close()
	for _, f := range fakes {
		f.Close()
	}
	os.Exit(0)
}

// Child is a proxy running in a child process of the check binary.
type Child struct {
	Addr   string
	cmd    *exec.Cmd
	stdin  io.WriteCloser
	exited chan struct{}
	mu     sync.Mutex
	stderr bytes.Buffer
	state  *os.ProcessState

	replies chan string
	cmdMu   sync.Mutex
}

type lockedWriter struct {
	c *Child
}

func (w lockedWriter) Write(b []byte) (int, error) {
	w.c.mu.Lock()
	defer w.c.mu.Unlock()
	if w.c.stderr.Len() < 1<<20 {
		w.c.stderr.Write(b)
	}
	return len(b), nil
}

// StartChild re-executes the running binary as a rig child.
func StartChild(spec ChildSpec) (*Child, error) {
	js, err := json.Marshal(spec)
	if err != nil {
		return nil, err
	}
	exe, err := os.Executable()
	if err != nil {
		return nil, err
	}
	cmd := exec.Command(exe)
	cmd.Env = append(os.Environ(), childEnv+"="+string(js))
	c := &Child{cmd: cmd, exited: make(chan struct{})}
	cmd.Stderr = lockedWriter{c}
	c.stdin, err = cmd.StdinPipe()
	if err != nil {
		return nil, err
	}
	out, err := cmd.StdoutPipe()
	if err != nil {
		return nil, err
	}
	if err := cmd.Start(); err != nil {
		return nil, err
	}
	lines := make(chan string, 16)
	c.replies = make(chan string, 16)
	go func() {
		sc := bufio.NewScanner(out)
		first := true
		for sc.Scan() {
			if first {
				lines <- sc.Text()
				first = false
			} else if strings.HasPrefix(sc.Text(), "R ") {
				select {
				case c.replies <- strings.TrimPrefix(sc.Text(), "R "):
				default:
				}
			}
		}
		if first {
			lines <- ""
		}
		cmd.Wait()
		c.mu.Lock()
		c.state = cmd.ProcessState
		c.mu.Unlock()
		close(c.exited)
	}()
	select {
	case l := <-lines:
		if !strings.HasPrefix(l, "READY ") {
			c.Close()
			return nil, fmt.Errorf("child did not start: %q %s", l, c.Stderr())
		}
		c.Addr = strings.TrimPrefix(l, "READY ")
	case <-time.After(60 * time.Second):
		c.Close()
		return nil, fmt.Errorf("child start timed out")
	}
	return c, nil
}

// Command sends one line ("name arg") to the child and returns the reply of the handler
// registered there with RegisterChildCommand.
func (c *Child) Command(line string) (string, error) {
	c.cmdMu.Lock()
	defer c.cmdMu.Unlock()
	for len(c.replies) > 0 {
		<-c.replies
	}
	if _, err := io.WriteString(c.stdin, line+"\n"); err != nil {
		return "", err
	}
	select {
	case r := <-c.replies:
		return r, nil
	case <-c.exited:
		return "", fmt.Errorf("child exited")
	case <-time.After(30 * time.Second):
		return "", fmt.Errorf("no reply from child to %q", line)
	}
}

// Pid is the child's process id.
func (c *Child) Pid() int { return c.cmd.Process.Pid }

// Alive reports whether the child process is still running.
func (c *Child) Alive() bool {
	select {
	case <-c.exited:
		return false
	default:
		return true
	}
}

// Stderr returns what the child wrote to stderr so far (panic traces end up here).
func (c *Child) Stderr() string {
	c.mu.Lock()
	defer c.mu.Unlock()
	return c.stderr.String()
}

// ExitState describes how the child ended ("" while alive).
func (c *Child) ExitState() string {
	c.mu.Lock()
	defer c.mu.Unlock()
	if c.state == nil {
		return ""
	}
	return c.state.String()
}

// Close asks the child to shut down (stdin EOF), kills it if it does not, and waits.
func (c *Child) Close() {
	c.stdin.Close()
	select {
	case <-c.exited:
		return
	case <-time.After(15 * time.Second):
	}
	c.cmd.Process.Kill()
	<-c.exited
}

// scratchRoot is the directory for per-run scratch files: the check's build directory
// under /verif/.build when run through ./check, else the system temp directory.
func scratchRoot() string {
	if d := os.Getenv("VERIF_BUILD_DIR"); d != "" {
		return d
	}
	return os.TempDir()
}
