// Package fakepool is a tiny scripted implementation of backend.ConnectionPool and
// backend.PooledConnect for harnesses that drive backend.Slice / DBInfo / NodeInfo without
// a MySQL server. Everything observable is decided by function fields set by the harness;
// nothing here sleeps, dials or reads the wall clock.
package fakepool

import (
	"context"
	"sync"
	"time"

	"github.com/XiaoMi/Gaea/backend"
	"github.com/XiaoMi/Gaea/mysql"
)

// Pool implements backend.ConnectionPool.
type Pool struct {
	AddrS string
	DC    string
	// GetFn decides Get; nil = hand out a fresh healthy Conn.
	GetFn func(p *Pool) (backend.PooledConnect, error)
	// GetCheckFn decides GetCheck; nil = hand out the pool's check Conn (created on demand).
	GetCheckFn func(p *Pool) (backend.PooledConnect, error)
	// Clock is the time source of SetLastChecked (unix seconds). Must be set by harnesses
	// that use health checks (normally vclock.Now().Unix()).
	Clock func() int64

	mu          sync.Mutex
	lastChecked int64
	nextID      int64
	checkConn   *Conn
	Gets        int
	GetChecks   int
	Puts        int
	Closed      bool
}

func New(addr, dc string) *Pool { return &Pool{AddrS: addr, DC: dc} }

// NewConn makes a healthy connection of this pool.
func (p *Pool) NewConn() *Conn {
	p.mu.Lock()
	p.nextID++
	id := p.nextID
	p.mu.Unlock()
	return &Conn{Pool: p, ID: id}
}

func (p *Pool) Open() error        { return nil }
func (p *Pool) Addr() string       { return p.AddrS }
func (p *Pool) Datacenter() string { return p.DC }
func (p *Pool) Close() {
	p.mu.Lock()
	p.Closed = true
	p.mu.Unlock()
}

func (p *Pool) Get(ctx context.Context) (backend.PooledConnect, error) {
	p.mu.Lock()
	p.Gets++
	f := p.GetFn
	p.mu.Unlock()
	if f != nil {
		return f(p)
	}
	return p.NewConn(), nil
}

func (p *Pool) GetCheck(ctx context.Context) (backend.PooledConnect, error) {
	p.mu.Lock()
	p.GetChecks++
	f := p.GetCheckFn
	p.mu.Unlock()
	if f != nil {
		return f(p)
	}
	p.mu.Lock()
	if p.checkConn == nil || p.checkConn.IsClosed() {
		p.nextID++
		p.checkConn = &Conn{Pool: p, ID: p.nextID}
	}
	c := p.checkConn
	p.mu.Unlock()
	return c, nil
}

func (p *Pool) Put(pc backend.PooledConnect) {
	p.mu.Lock()
	p.Puts++
	p.mu.Unlock()
}

func (p *Pool) SetCapacity(capacity int) error          { return nil }
func (p *Pool) SetIdleTimeout(idleTimeout time.Duration) {}
func (p *Pool) StatsJSON() string                       { return "{}" }
func (p *Pool) Capacity() int64                         { return 1 }
func (p *Pool) Available() int64                        { return 1 }
func (p *Pool) Active() int64                           { return 0 }
func (p *Pool) InUse() int64                            { return 0 }
func (p *Pool) MaxCap() int64                           { return 1 }
func (p *Pool) WaitCount() int64                        { return 0 }
func (p *Pool) WaitTime() time.Duration                 { return 0 }
func (p *Pool) IdleTimeout() time.Duration              { return 0 }
func (p *Pool) IdleClosed() int64                       { return 0 }

func (p *Pool) SetLastChecked() {
	p.mu.Lock()
	defer p.mu.Unlock()
	if p.Clock == nil {
		panic("fakepool: SetLastChecked without Clock")
	}
	p.lastChecked = p.Clock()
}

func (p *Pool) GetLastChecked() int64 {
	p.mu.Lock()
	defer p.mu.Unlock()
	return p.lastChecked
}

// ForceLastChecked sets the last-checked time directly (harness set-up only).
func (p *Pool) ForceLastChecked(t int64) {
	p.mu.Lock()
	p.lastChecked = t
	p.mu.Unlock()
}

// Conn implements backend.PooledConnect.
type Conn struct {
	Pool *Pool
	ID   int64
	// ExecFn decides Execute / ExecuteWithTimeout; nil = empty OK result.
	ExecFn func(c *Conn, sql string) (*mysql.Result, error)
	// PingFn decides Ping / PingWithTimeout; nil = success.
	PingFn func(c *Conn) error

	mu       sync.Mutex
	closed   bool
	Recycled int
	Execs    []string
}

func (c *Conn) Recycle() {
	c.mu.Lock()
	c.Recycled++
	c.mu.Unlock()
	c.Pool.Put(c)
}
func (c *Conn) Reconnect() error {
	c.mu.Lock()
	c.closed = false
	c.mu.Unlock()
	return nil
}
func (c *Conn) Close() {
	c.mu.Lock()
	c.closed = true
	c.mu.Unlock()
}
func (c *Conn) IsClosed() bool {
	c.mu.Lock()
	defer c.mu.Unlock()
	return c.closed
}
func (c *Conn) UseDB(db string) error { return nil }
func (c *Conn) Execute(sql string, maxRows int) (*mysql.Result, error) {
	c.mu.Lock()
	c.Execs = append(c.Execs, sql)
	f := c.ExecFn
	c.mu.Unlock()
	if f != nil {
		return f(c, sql)
	}
	return &mysql.Result{Resultset: &mysql.Resultset{}}, nil
}
func (c *Conn) ExecuteWithTimeout(sql string, maxRows int, timeout time.Duration) (*mysql.Result, error) {
	return c.Execute(sql, maxRows)
}
func (c *Conn) SetAutoCommit(v uint8) error { return nil }
func (c *Conn) Begin() error                { return nil }
func (c *Conn) Commit() error               { return nil }
func (c *Conn) Rollback() error             { return nil }
func (c *Conn) Ping() error {
	if c.PingFn != nil {
		return c.PingFn(c)
	}
	return nil
}
func (c *Conn) PingWithTimeout(timeout time.Duration) error { return c.Ping() }
func (c *Conn) SetCharset(charset string, collation mysql.CollationID) (bool, error) {
	return false, nil
}
func (c *Conn) FieldList(table string, wildcard string) ([]*mysql.Field, error) { return nil, nil }
func (c *Conn) GetAddr() string                                                 { return c.Pool.AddrS }
func (c *Conn) SetSessionVariables(frontend *mysql.SessionVariables) (bool, error) {
	return false, nil
}
func (c *Conn) SyncSessionVariables(frontend *mysql.SessionVariables) error { return nil }
func (c *Conn) WriteSetStatement() error                                    { return nil }
func (c *Conn) GetConnectionID() int64                                      { return c.ID }
func (c *Conn) GetReturnTime() time.Time                                    { return time.Time{} }
func (c *Conn) MoreRowsExist() bool                                         { return false }
func (c *Conn) MoreResultsExist() bool                                      { return false }
func (c *Conn) FetchMoreRows(result *mysql.Result, maxRows int) error       { return nil }
func (c *Conn) ReadMoreResult(maxRows int) (*mysql.Result, error)           { return nil, nil }

var (
	_ backend.ConnectionPool = (*Pool)(nil)
	_ backend.PooledConnect  = (*Conn)(nil)
)

// SlaveStatusResult builds the result of "show slave status;" as Gaea's GetSlaveStatus reads it.
func SlaveStatusResult(secondsBehind uint64, ioRunning, sqlRunning string) *mysql.Result {
	names := []string{"Seconds_Behind_Master", "Slave_IO_Running", "Slave_SQL_Running", "Master_Log_File",
		"Read_Master_Log_Pos", "Relay_Master_Log_File", "Exec_Master_Log_Pos"}
	rs := &mysql.Resultset{FieldNames: map[string]int{}}
	for i, n := range names {
		rs.Fields = append(rs.Fields, &mysql.Field{Name: []byte(n)})
		rs.FieldNames[n] = i
	}
	rs.Values = [][]interface{}{{secondsBehind, ioRunning, sqlRunning, "mysql-bin.000001", uint64(4), "mysql-bin.000001", uint64(4)}}
	return &mysql.Result{Status: 2, Resultset: rs}
}

// EmptyResult is a result set without rows (what a master answers to "show slave status").
func EmptyResult() *mysql.Result { return &mysql.Result{Resultset: &mysql.Resultset{}} }
