// Package fakeadmin is a reference proxy behind the proxy admin HTTP API that Gaea's control
// plane (cc/proxy.APIClient) talks to:
//
//	GET /api/proxy/ping                      -> 200 "OK"
//	PUT /api/proxy/config/prepare/:name      -> load the namespace from the coordinator into the prepared slot
//	PUT /api/proxy/config/commit/:name       -> make the prepared configuration the active one
//	PUT /api/proxy/namespace/delete/:name    -> drop the active configuration (idempotent)
//
// all behind HTTP basic auth, errors as status 800 + JSON string (proxy/server/admin.go).
//
// The reference proxy is deliberately tiny (the state the property talks about and nothing
// else): one prepared slot (namespace, version) like server.Manager's single `other` slot +
// reloadPrepared flag, and an active version per namespace. prepare reads the namespace from
// the coordinator through Load (the real proxy calls Store.LoadNamespace); commit without a
// prepared configuration fails (ErrNamespaceNotPrepared).
//
// Every call consults Script(kind, name, nth) — nth is the 1-based count of calls of that kind
// on this proxy — for the scripted behaviour of exactly that call:
//
//	OK          apply, answer 200
//	FailBefore  do not apply, answer HTTP 500 at once
//	FailAfter   apply, then answer HTTP 500 (the caller sees a failure although the proxy changed:
//	            lost reply / timeout)
//	DropBefore  do not apply, close the connection without an answer
//	DropAfter   apply, close the connection without an answer

package fakeadmin

import (
	"encoding/json"
	"net/http"
	"strings"
	"sync"
)

type Mode int

const (
	OK Mode = iota
	FailBefore
	FailAfter
	DropBefore
	DropAfter
)

func (m Mode) String() string {
	return [...]string{"ok", "fail_before", "fail_after", "drop_before", "drop_after"}[m]
}

// Call is one logged admin call.
type Call struct {
	Kind string `json:"kind"`
	Name string `json:"name,omitempty"`
	Nth  int    `json:"nth"`
	Mode string `json:"mode"`
	Res  string `json:"res"`
}

type Proxy struct {
	mu       sync.Mutex
	User     string
	Password string
	// Load returns the version of namespace `name` currently stored in the coordinator.
	Load   func(name string) (version string, ok bool)
	Script func(kind, name string, nth int) Mode
	// Gate, when set, is called for prepare/commit/delete before the call is applied and may
	// block (a harness uses it to fix the interleaving of two exchanges); the returned
	// function is called when the call has been applied and answered.
	Gate func(kind, name string) (leave func())

	prepNS, prepVer string
	prepared        bool
	active          map[string]string
	seen            map[string]int
	calls           []Call
}

func New(user, password string) *Proxy {
	return &Proxy{User: user, Password: password, active: map[string]string{}, seen: map[string]int{}}
}

// Reset clears all state; active gives the initially running versions.
func (p *Proxy) Reset(active map[string]string) {
	p.mu.Lock()
	defer p.mu.Unlock()
	p.prepared, p.prepNS, p.prepVer = false, "", ""
	p.active = map[string]string{}
	for k, v := range active {
		p.active[k] = v
	}
	p.seen = map[string]int{}
	p.calls = nil
	p.Script = nil
	p.Load = nil
	p.Gate = nil
}

func (p *Proxy) SetGate(g func(kind, name string) func()) {
	p.mu.Lock()
	p.Gate = g
	p.mu.Unlock()
}

func (p *Proxy) Configure(load func(string) (string, bool), script func(kind, name string, nth int) Mode) {
	p.mu.Lock()
	p.Load, p.Script = load, script
	p.mu.Unlock()
}

// Active returns the running version of a namespace.
func (p *Proxy) Active(name string) (string, bool) {
	p.mu.Lock()
	defer p.mu.Unlock()
	v, ok := p.active[name]
	return v, ok
}

// Prepared returns the content of the prepared slot.
func (p *Proxy) Prepared() (ns, ver string, ok bool) {
	p.mu.Lock()
	defer p.mu.Unlock()
	return p.prepNS, p.prepVer, p.prepared
}

func (p *Proxy) Calls() []Call {
	p.mu.Lock()
	defer p.mu.Unlock()
	return append([]Call(nil), p.calls...)
}

// apply performs the state change of one call; returns "" or an error text.
func (p *Proxy) apply(kind, name string) string {
	switch kind {
	case "ping":
		return ""
	case "prepare":
		if p.Load == nil {
			return "coordinator unavailable"
		}
		v, ok := p.Load(name)
		if !ok {
			return "node " + name + " not exists"
		}
		p.prepNS, p.prepVer, p.prepared = name, v, true
		return ""
	case "commit":
		if !p.prepared {
			return "namespace is not prepared"
		}
		p.active[p.prepNS] = p.prepVer
		p.prepared = false
		return ""
	case "delete":
		delete(p.active, name)
		return ""
	}
	return "unknown call"
}

func drop(w http.ResponseWriter) {
	if hj, ok := w.(http.Hijacker); ok {
		if c, _, err := hj.Hijack(); err == nil {
			c.Close()
			return
		}
	}
	panic(http.ErrAbortHandler)
}

func reply(w http.ResponseWriter, code int, v interface{}) {
	b, _ := json.Marshal(v)
	w.Header().Set("Content-Type", "application/json; charset=utf-8")
	w.WriteHeader(code)
	w.Write(b)
}

func (p *Proxy) ServeHTTP(w http.ResponseWriter, r *http.Request) {
	u, pw, ok := r.BasicAuth()
	if !ok || u != p.User || pw != p.Password {
		w.Header().Set("WWW-Authenticate", `Basic realm="Authorization Required"`)
		w.WriteHeader(http.StatusUnauthorized)
		return
	}
	kind, name := "", ""
	path := r.URL.Path
	switch {
	case r.Method == "GET" && path == "/api/proxy/ping":
		kind = "ping"
	case r.Method == "PUT" && strings.HasPrefix(path, "/api/proxy/config/prepare/"):
		kind, name = "prepare", strings.TrimPrefix(path, "/api/proxy/config/prepare/")
	case r.Method == "PUT" && strings.HasPrefix(path, "/api/proxy/config/commit/"):
		kind, name = "commit", strings.TrimPrefix(path, "/api/proxy/config/commit/")
	case r.Method == "PUT" && strings.HasPrefix(path, "/api/proxy/namespace/delete/"):
		kind, name = "delete", strings.TrimPrefix(path, "/api/proxy/namespace/delete/")
	default:
		http.NotFound(w, r)
		return
	}
	name = strings.TrimSpace(name)
	if kind != "ping" && (name == "" || strings.Contains(name, "/")) {
		reply(w, 800, "missing namespace name")
		return
	}
	p.mu.Lock()
	gate := p.Gate
	p.mu.Unlock()
	if gate != nil && kind != "ping" {
		if leave := gate(kind, name); leave != nil {
			defer leave()
		}
	}
	p.mu.Lock()
	p.seen[kind]++
	nth := p.seen[kind]
	mode := OK
	if p.Script != nil {
		mode = p.Script(kind, name, nth)
	}
	res := "not_applied"
	if mode == OK || mode == FailAfter || mode == DropAfter {
		res = p.apply(kind, name)
		if res == "" {
			res = "applied"
		}
	}
	p.calls = append(p.calls, Call{Kind: kind, Name: name, Nth: nth, Mode: mode.String(), Res: res})
	p.mu.Unlock()
	switch mode {
	case FailBefore, FailAfter:
		http.Error(w, "fakeadmin: injected failure", http.StatusInternalServerError)
	case DropBefore, DropAfter:
		drop(w)
	default:
		if res != "applied" {
			reply(w, 800, res)
			return
		}
		reply(w, http.StatusOK, "OK")
	}
}
