package sessrig

import (
	"context"
	"fmt"
	"strings"
	"time"

	"github.com/XiaoMi/Gaea/backend"
	"github.com/XiaoMi/Gaea/mysql"
)

// Entry is one line of the connection ledger. Entries of different connections that were
// written during the same step (= one client command) may interleave differently from
// run to run (the executor runs per-slice work in goroutines); per connection the order
// is deterministic. Use the accessors of Ledger, which never expose cross-connection
// order inside a step.
type Entry struct {
	Seq   int    `json:"seq"`
	Step  int    `json:"step"`  // index of the client command during which it happened
	Actor string `json:"actor"` // session that was executing ("" = nobody / rig)
	Pool  string `json:"pool"`  // "g0/slice-0/master"
	Role  string `json:"role"`  // master | slave | stat_slave | mon_master | mon_slave
	Slice string `json:"slice"`
	Conn  int    `json:"conn"`  // connection id, 0 for pool level entries without connection
	Lease int    `json:"lease"` // acquisition id (every successful Get starts a new lease)
	Op    string `json:"op"`
	Arg   string `json:"arg,omitempty"`
	Res   string `json:"res"` // ok | err | closed | ...
}

// Ops (Entry.Op):
//
//	get            pool.Get; Res ok|err                     (faultable)
//	use_db         COM_INIT_DB, only when the db changes    (faultable)
//	write_set      SET statement for charset / variables    (faultable)
//	set_autocommit Arg 0|1                                  (faultable)
//	begin commit rollback                                   (faultable)
//	execute        Arg = sql                                (faultable)
//	ping                                                    (faultable)
//	close          Close() called on the connection
//	recycle        Recycle() called: Res = idle (went back to the pool after reset) |
//	               discard (was closed: slot released) | dup (lease was already returned)
//	pool_rollback / pool_autocommit   reset-on-put performed by the pool (the real
//	               connectionPoolImpl.Put -> tryReuse -> DirectConnection.ResetConnection)
var FaultableOps = map[string]bool{"get": true, "use_db": true, "write_set": true, "set_autocommit": true,
	"begin": true, "commit": true, "rollback": true, "execute": true, "ping": true}

// Fault makes the Nth (0-based) faultable call on pool Pool ("slice-0/master") during the
// step it is armed for answer Kind instead of ok:
//
//	err     the backend answers with an error packet; the connection stays healthy
//	        (for op get: the pool returns an error)
//	closed  the call fails and the connection is closed (IsClosed() == true), as the real
//	        DirectConnection is after a broken pipe whose reconnect failed
//	commit_reload  not a fault: the call answers ok, and the reload prepared with
//	        World.PrepareReload is committed while the call is in flight
//	hang    (execute only) the call blocks until Close() is called on the connection, then
//	        fails - the max_sql_execute_time path
type Fault struct {
	Pool string `json:"pool"`
	Nth  int    `json:"nth"`
	Kind string `json:"kind"`
}

func (f Fault) String() string { return fmt.Sprintf("%s#%d=%s", f.Pool, f.Nth, f.Kind) }

// Pool is a fake backend.ConnectionPool.
type Pool struct {
	w     *World
	Gen   int
	Slice string
	Role  string
	addr  string
	idle  []*Conn
	// Outstanding leases (taken, not yet recycled).
	out map[int]*Conn
}

func (p *Pool) Key() string  { return p.Slice + "/" + p.Role }
func (p *Pool) Name() string { return fmt.Sprintf("g%d/%s/%s", p.Gen, p.Slice, p.Role) }

// Conn is a fake backend.PooledConnect modelling the backend session state the real
// DirectConnection tracks from the server status flags.
type Conn struct {
	w    *World
	pool *Pool
	ID   int
	// lease state
	Lease   int    // current (or last) lease id
	Holder  string // session holding the current lease, "" when in the pool / discarded
	Out     bool   // lease outstanding
	nRecyc  int    // Recycle() calls during the current lease
	Closed  bool
	AutoCom bool
	InTx    bool
	db      string
	charset string
	coll    mysql.CollationID
	vars    *mysql.SessionVariables
	varsSet bool
	needSet bool
	hang    chan struct{}
	Used    bool // a statement was executed during the current lease
}

var _ backend.PooledConnect = (*Conn)(nil)
var _ backend.ConnectionPool = (*Pool)(nil)

func errBackend(op string) error {
	return mysql.NewError(1105, "verif: injected backend error on "+op)
}

func errClosed(op string) error {
	return fmt.Errorf("verif: connection closed during %s: %v", op, mysql.ErrBadConn)
}

// ---- pool ----

func (p *Pool) Open() error        { return nil }
func (p *Pool) Addr() string       { return p.addr }
func (p *Pool) Datacenter() string { return "c3" }
func (p *Pool) Close()             {}

func (p *Pool) Get(ctx context.Context) (backend.PooledConnect, error) {
	w := p.w
	w.mu.Lock()
	defer w.mu.Unlock()
	kind := w.answer(p, "get")
	if kind != "" {
		w.log(p, nil, "get", "", "err")
		return nil, fmt.Errorf("verif: injected pool get error")
	}
	var c *Conn
	if len(p.idle) > 0 {
		c = p.idle[0]
		p.idle = p.idle[1:]
	} else {
		w.nextConn++
		c = &Conn{w: w, pool: p, ID: w.nextConn, AutoCom: true, vars: mysql.NewSessionVariables(), charset: "utf8", coll: 33}
		w.conns = append(w.conns, c)
	}
	w.nextLease++
	c.Lease = w.nextLease
	c.Holder = w.actor
	c.Out = true
	c.nRecyc = 0
	c.Used = false
	p.out[c.Lease] = c
	w.log(p, c, "get", "", "ok")
	return c, nil
}

func (p *Pool) GetCheck(ctx context.Context) (backend.PooledConnect, error) {
	return nil, fmt.Errorf("verif: no check connection")
}

func (p *Pool) Put(pc backend.PooledConnect) {
	if pc == nil {
		p.w.mu.Lock()
		p.w.log(p, nil, "put_nil", "", "ok")
		p.w.mu.Unlock()
		return
	}
	pc.Recycle()
}

func (p *Pool) SetCapacity(capacity int) error          { return nil }
func (p *Pool) SetIdleTimeout(idleTimeout time.Duration) {}
func (p *Pool) StatsJSON() string                        { return "{}" }
func (p *Pool) Capacity() int64                          { return 64 }
func (p *Pool) Available() int64                         { return 64 - p.InUse() }
func (p *Pool) Active() int64                            { return p.InUse() }
func (p *Pool) MaxCap() int64                            { return 64 }
func (p *Pool) WaitCount() int64                         { return 0 }
func (p *Pool) WaitTime() time.Duration                  { return 0 }
func (p *Pool) IdleTimeout() time.Duration               { return 0 }
func (p *Pool) IdleClosed() int64                        { return 0 }
func (p *Pool) SetLastChecked()                          {}
func (p *Pool) GetLastChecked() int64                    { return 0 }
func (p *Pool) InUse() int64 {
	p.w.mu.Lock()
	defer p.w.mu.Unlock()
	return int64(len(p.out))
}

// ---- connection ----

// call handles the common part of a faultable backend round trip. It returns the error to
// hand back ("" kind = ok).
func (c *Conn) call(op, arg string) (string, error) {
	w := c.w
	if c.Closed {
		w.log(c.pool, c, op, arg, "on_closed")
		return "closed", errClosed(op)
	}
	kind := w.answer(c.pool, op)
	switch kind {
	case "":
		return "", nil
	case "err":
		w.log(c.pool, c, op, arg, "err")
		return kind, errBackend(op)
	case "closed":
		c.Closed = true
		c.InTx = false // the backend session is gone, and with it its transaction
		w.log(c.pool, c, op, arg, "closed")
		return kind, errClosed(op)
	case "hang":
		// only a statement executed under the executor's max_sql_execute_time watchdog can be
		// rescued from a hang; everywhere else the rig degrades the answer to an error
		if op != "execute" || isSavepointSQL(arg) {
			w.log(c.pool, c, op, arg, "err")
			return "err", errBackend(op)
		}
		return kind, nil
	}
	return "", nil
}

func (c *Conn) Recycle() {
	w := c.w
	w.mu.Lock()
	defer w.mu.Unlock()
	p := c.pool
	c.nRecyc++
	if !c.Out {
		w.log(p, c, "recycle", "", "dup")
		return
	}
	c.Out = false
	c.Holder = ""
	delete(p.out, c.Lease)
	if c.Closed {
		// pooledConnectImpl.Recycle: IsClosed -> pool.Put(nil): slot released, connection dropped.
		w.log(p, c, "recycle", "", "discard")
		return
	}
	// connectionPoolImpl.Put -> tryReuse -> ResetConnection
	if c.InTx {
		c.InTx = false
		w.log(p, c, "pool_rollback", "", "ok")
	}
	if !c.AutoCom {
		c.AutoCom = true
		w.log(p, c, "pool_autocommit", "1", "ok")
	}
	w.log(p, c, "recycle", "", "idle")
	p.idle = append(p.idle, c)
}

func (c *Conn) Reconnect() error {
	c.w.mu.Lock()
	defer c.w.mu.Unlock()
	c.Closed = false
	c.InTx = false
	c.AutoCom = true
	c.w.log(c.pool, c, "reconnect", "", "ok")
	return nil
}

func (c *Conn) Close() {
	c.w.mu.Lock()
	defer c.w.mu.Unlock()
	c.Closed = true
	// a closed backend session loses its transaction
	c.InTx = false
	c.w.log(c.pool, c, "close", "", "ok")
	if c.hang != nil {
		close(c.hang)
		c.hang = nil
	}
}

func (c *Conn) IsClosed() bool {
	c.w.mu.Lock()
	defer c.w.mu.Unlock()
	return c.Closed
}

func (c *Conn) UseDB(db string) error {
	c.w.mu.Lock()
	defer c.w.mu.Unlock()
	if c.db == db || db == "" {
		return nil
	}
	if k, err := c.call("use_db", db); k != "" {
		return err
	}
	c.db = db
	c.w.log(c.pool, c, "use_db", db, "ok")
	return nil
}

func isSavepointSQL(sql string) bool {
	s := strings.ToLower(strings.TrimSpace(sql))
	return strings.HasPrefix(s, "savepoint ") || strings.HasPrefix(s, "rollback to ") || strings.HasPrefix(s, "release savepoint ")
}

func (c *Conn) Execute(sql string, maxRows int) (*mysql.Result, error) {
	w := c.w
	w.mu.Lock()
	k, err := c.call("execute", sql)
	if k == "hang" {
		ch := make(chan struct{})
		c.hang = ch
		w.log(c.pool, c, "execute", sql, "hang")
		w.mu.Unlock()
		<-ch
		return nil, errClosed("execute")
	}
	defer w.mu.Unlock()
	if k != "" {
		return nil, err
	}
	if !isSavepointSQL(sql) {
		c.Used = true
		if !c.AutoCom {
			c.InTx = true
		}
	}
	w.log(c.pool, c, "execute", sql, "ok")
	return c.result(sql), nil
}

func (c *Conn) status() uint16 {
	var st uint16
	if c.AutoCom {
		st |= mysql.ServerStatusAutocommit
	}
	if c.InTx {
		st |= mysql.ServerStatusInTrans
	}
	return st
}

func (c *Conn) result(sql string) *mysql.Result {
	r := &mysql.Result{Status: c.status()}
	s := strings.ToLower(strings.TrimSpace(sql))
	if strings.HasPrefix(s, "select") || strings.HasPrefix(s, "show") {
		f := &mysql.Field{Name: []byte("id"), Type: mysql.TypeLonglong, Charset: 63}
		v := int64(c.ID)
		r.Resultset = &mysql.Resultset{
			Fields:     []*mysql.Field{f},
			FieldNames: map[string]int{"id": 0},
			Values:     [][]interface{}{{v}},
		}
		row := mysql.AppendLenEncStringBytes(nil, []byte(fmt.Sprintf("%d", v)))
		r.RowDatas = []mysql.RowData{row}
	} else {
		r.AffectedRows = 1
	}
	return r
}

func (c *Conn) ExecuteWithTimeout(sql string, maxRows int, timeout time.Duration) (*mysql.Result, error) {
	return c.Execute(sql, maxRows)
}

func (c *Conn) SetAutoCommit(v uint8) error {
	c.w.mu.Lock()
	defer c.w.mu.Unlock()
	arg := fmt.Sprintf("%d", v)
	if k, err := c.call("set_autocommit", arg); k != "" {
		return err
	}
	if v == 0 {
		c.AutoCom = false
	} else {
		if !c.AutoCom {
			// MySQL: switching autocommit from 0 to 1 commits the open transaction.
			c.InTx = false
		}
		c.AutoCom = true
	}
	c.w.log(c.pool, c, "set_autocommit", arg, "ok")
	return nil
}

func (c *Conn) Begin() error {
	c.w.mu.Lock()
	defer c.w.mu.Unlock()
	if k, err := c.call("begin", ""); k != "" {
		return err
	}
	c.InTx = true
	c.w.log(c.pool, c, "begin", "", "ok")
	return nil
}

func (c *Conn) Commit() error {
	c.w.mu.Lock()
	defer c.w.mu.Unlock()
	if k, err := c.call("commit", ""); k != "" {
		return err
	}
	c.InTx = false
	c.w.log(c.pool, c, "commit", "", "ok")
	return nil
}

func (c *Conn) Rollback() error {
	c.w.mu.Lock()
	defer c.w.mu.Unlock()
	if k, err := c.call("rollback", ""); k != "" {
		return err
	}
	c.InTx = false
	c.w.log(c.pool, c, "rollback", "", "ok")
	return nil
}

func (c *Conn) Ping() error { return c.PingWithTimeout(0) }

func (c *Conn) PingWithTimeout(timeout time.Duration) error {
	c.w.mu.Lock()
	defer c.w.mu.Unlock()
	if k, err := c.call("ping", ""); k != "" {
		return err
	}
	c.w.log(c.pool, c, "ping", "", "ok")
	return nil
}

func (c *Conn) SetCharset(charset string, collation mysql.CollationID) (bool, error) {
	c.w.mu.Lock()
	defer c.w.mu.Unlock()
	if c.charset == charset && c.coll == collation {
		return false, nil
	}
	c.charset, c.coll = charset, collation
	c.needSet = true
	return true, nil
}

func (c *Conn) FieldList(table string, wildcard string) ([]*mysql.Field, error) {
	return nil, fmt.Errorf("verif: FieldList not modelled")
}

func (c *Conn) GetAddr() string { return c.pool.addr }

func (c *Conn) SetSessionVariables(frontend *mysql.SessionVariables) (bool, error) {
	c.w.mu.Lock()
	defer c.w.mu.Unlock()
	changed, err := c.vars.SetEqualsWith(frontend)
	if changed {
		c.needSet = true
		c.varsSet = true
	}
	return changed, err
}

func (c *Conn) writeSetLocked() error {
	if !c.needSet {
		return nil
	}
	if k, err := c.call("write_set", ""); k != "" {
		return err
	}
	c.needSet = false
	c.w.log(c.pool, c, "write_set", "", "ok")
	return nil
}

func (c *Conn) SyncSessionVariables(frontend *mysql.SessionVariables) error {
	c.w.mu.Lock()
	defer c.w.mu.Unlock()
	changed, err := c.vars.SetEqualsWith(frontend)
	if err != nil {
		return err
	}
	if !changed {
		return nil
	}
	c.needSet = true
	c.varsSet = true
	return c.writeSetLocked()
}

func (c *Conn) WriteSetStatement() error {
	c.w.mu.Lock()
	defer c.w.mu.Unlock()
	return c.writeSetLocked()
}

func (c *Conn) GetConnectionID() int64   { return int64(c.ID) }
func (c *Conn) GetReturnTime() time.Time { return time.Time{} }
func (c *Conn) MoreRowsExist() bool      { return false }
func (c *Conn) MoreResultsExist() bool   { return false }
func (c *Conn) FetchMoreRows(result *mysql.Result, maxRows int) error {
	return nil
}
func (c *Conn) ReadMoreResult(maxRows int) (*mysql.Result, error) { return nil, nil }
