//go:build verif

// Injected into github.com/XiaoMi/Gaea/util by the session rig (/verif/ref/sessrig).
package util

import "time"

// VerifInertTimeWheel returns a TimeWheel that is never started: Add / Remove only enqueue
// (Add drops when the queue is full, Remove would block - the rig keeps well below queueCap
// operations per wheel). NewTimeWheel's 4096-slot queue and 1024-entry index map dominate
// the cost of building a fresh world for every replay; this one has the same behaviour for
// an unstarted wheel at a fraction of the allocation.
func VerifInertTimeWheel(queueCap int) *TimeWheel {
	return &TimeWheel{
		tick:          5 * time.Second,
		bucketsNum:    1,
		bucketIndexes: make(map[interface{}]int),
		buckets:       []map[interface{}]*Task{make(map[interface{}]*Task)},
		pipelineC:     make(chan PipeLineItem, queueCap),
	}
}

// VerifQueued reports how many operations are queued in the wheel.
func (tw *TimeWheel) VerifQueued() int { return len(tw.pipelineC) }

// VerifSessStopTimers stops the capacity / idle timers NewResourcePool starts (the rig's pools
// live for one replay; no timer may outlive or influence it).
func VerifSessStopTimers(rp *ResourcePool) {
	if rp.idleTimer != nil {
		rp.idleTimer.Stop()
		rp.idleTimer = nil
	}
	if rp.capTimer != nil {
		rp.capTimer.Stop()
		rp.capTimer = nil
	}
}
