//go:build verif

// Injected into github.com/XiaoMi/Gaea/proxy/server by the session rig (/verif/ref/sessrig).
// Thin constructors and accessors only: everything that decides behaviour (Session.Run,
// SessionExecutor, Namespace, Slice, Manager.ReloadNamespacePrepare) is the real code.
package server

import (
	"net"
	"sort"
	"sync"
	"time"

	"github.com/XiaoMi/Gaea/backend"
	"github.com/XiaoMi/Gaea/models"
	"github.com/XiaoMi/Gaea/mysql"
	"github.com/XiaoMi/Gaea/util"
)

type verifNullLogger struct{}

func (verifNullLogger) SetLevel(name, level string) error                          { return nil }
func (verifNullLogger) Debug(format string, a ...interface{}) (err error)          { return nil }
func (verifNullLogger) Trace(format string, a ...interface{}) (err error)          { return nil }
func (verifNullLogger) Notice(format string, a ...interface{}) (err error)         { return nil }
func (verifNullLogger) Warn(format string, a ...interface{}) (err error)           { return nil }
func (verifNullLogger) Fatal(format string, a ...interface{}) (err error)          { return nil }
func (verifNullLogger) Debugx(logID, format string, a ...interface{}) (err error)  { return nil }
func (verifNullLogger) Tracex(logID, format string, a ...interface{}) (err error)  { return nil }
func (verifNullLogger) Noticex(logID, format string, a ...interface{}) (err error) { return nil }
func (verifNullLogger) Warnx(logID, format string, a ...interface{}) (err error)   { return nil }
func (verifNullLogger) Fatalx(logID, format string, a ...interface{}) (err error)  { return nil }
func (verifNullLogger) Close()                                                     {}
func (verifNullLogger) Dropped(i int) uint64                                       { return 0 }

var (
	verifStatsOnce sync.Once
	verifStats     *StatisticManager
	verifStatsErr  error
)

// verifSharedStats builds ONE StatisticManager per process (its metric objects register
// process-global names and are written concurrently by design); it only collects metrics
// and is not part of any checked state. The SQL log goes to a sink.
func verifSharedStats(nsNames []string) (*StatisticManager, error) {
	verifStatsOnce.Do(func() {
		cfg := &models.Proxy{StatsEnabled: "false", Service: "verif", Cluster: "verif"}
		sm := NewStatisticManager()
		sm.clusterName = cfg.Cluster
		sm.SQLResponsePercentile = make(map[string]*SQLResponse)
		if err := sm.Init(cfg); err != nil {
			verifStatsErr = err
			return
		}
		sm.generalLogger = verifNullLogger{}
		for _, n := range nsNames {
			sm.SQLResponsePercentile[n] = NewSQLResponse(n)
		}
		verifStats = sm
	})
	return verifStats, verifStatsErr
}

// VerifTwCap is the queue size of the per-world inert session-timeout wheel: every client
// command enqueues one Add, every ended session one Remove.
const VerifTwCap = 128

// VerifWorld is a Manager + Server shell around one namespace, without listeners, admin
// server, health checks or timers.
type VerifWorld struct {
	M   *Manager
	Srv *Server
}

// VerifNewWorld builds a Manager holding the namespace built by the real NewNamespace
// (through NamespaceManager.RebuildNamespace, i.e. without Namespace.Init, so no health
// check goroutines are started). The session-timeout wheel is created but never
// started: Add / Remove only enqueue, no timer exists.
func VerifNewWorld(cfg *models.Namespace, dc string) (*VerifWorld, error) {
	sm, err := verifSharedStats([]string{cfg.Name})
	if err != nil {
		return nil, err
	}
	m := NewManager()
	m.statistics = sm
	current, _, _ := m.switchIndex.Get()
	nm := NewNamespaceManager()
	nm.serverIDC = dc
	if err := nm.RebuildNamespace(cfg); err != nil {
		return nil, err
	}
	m.namespaces[current] = nm
	um, err := CreateUserManager(map[string]*models.Namespace{cfg.Name: cfg})
	if err != nil {
		return nil, err
	}
	m.users[current] = um
	tw := util.VerifInertTimeWheel(VerifTwCap)
	srv := &Server{
		manager:                    m,
		tw:                         tw,
		sessionTimeout:             24 * time.Hour,
		ServerVersion:              "5.6.20-gaea",
		ServerVersionCompareStatus: util.NewVersionCompareStatus("5.6.20-gaea"),
		ServerConfig:               &models.Proxy{},
	}
	return &VerifWorld{M: m, Srv: srv}, nil
}

// VerifNamespace returns the namespace currently served by the manager.
func (w *VerifWorld) VerifNamespace(name string) *Namespace { return w.M.GetNamespace(name) }

// VerifTwQueued reports the fill of the inert time wheel queue.
func (w *VerifWorld) VerifTwQueued() int { return w.Srv.tw.VerifQueued() }

// VerifReload performs a namespace configuration change: the real
// Manager.ReloadNamespacePrepare builds the new Namespace and sets
// namespaceChangeIndex = old+1; `patch` lets the rig replace the freshly created connection
// pools before the namespace becomes visible; the switch is what ReloadNamespaceCommit does
// minus closing the old namespace after 60 s and starting health checks (both are
// free-running goroutines).
func (w *VerifWorld) VerifReload(cfg *models.Namespace, patch func(ns *Namespace)) error {
	if err := w.VerifReloadPrepare(cfg, patch); err != nil {
		return err
	}
	w.VerifReloadCommit()
	return nil
}

// VerifReloadPrepare is the first half of VerifReload (real ReloadNamespacePrepare + pool
// patching); the new namespace is not visible yet.
func (w *VerifWorld) VerifReloadPrepare(cfg *models.Namespace, patch func(ns *Namespace)) error {
	if err := w.M.ReloadNamespacePrepare(cfg); err != nil {
		return err
	}
	_, other, _ := w.M.switchIndex.Get()
	if patch != nil {
		patch(w.M.namespaces[other].GetNamespace(cfg.Name))
	}
	return nil
}

// VerifReloadCommit is the second half: the generation switch of ReloadNamespaceCommit (two
// atomic stores), callable from any goroutine - in particular from inside a backend call or
// a response write of a running command, which is how a commit lands "during command k".
func (w *VerifWorld) VerifReloadCommit() {
	_, _, index := w.M.switchIndex.Get()
	w.M.reloadPrepared.Set(false)
	w.M.switchIndex.Set(!index)
}

// VerifChangeIndex exposes Namespace.namespaceChangeIndex.
func (n *Namespace) VerifChangeIndex() uint32 { return n.namespaceChangeIndex }

// VerifNewSession mirrors newSession + the post-handshake part of Server.onConn for an
// already authenticated client on an arbitrary net.Conn.
func (w *VerifWorld) VerifNewSession(co net.Conn, connID uint32, nsName, user, db string) *Session {
	s := w.Srv
	cc := new(Session)
	cc.c = NewClientConn(mysql.NewConn(co), s.manager)
	cc.proxy = s
	cc.manager = s.manager
	cc.c.SetConnectionID(connID)
	cc.c.proxy = s
	cc.c.capability = DefaultCapability &^ mysql.ClientMultiStatements
	cc.executor = newSessionExecutor(s.manager)
	cc.executor.clientAddr = co.RemoteAddr().String()
	cc.closed.Store(false)
	cc.executor.session = cc
	cc.executor.serverAddr = co.LocalAddr()

	// handleHandshakeResponse
	cc.executor.user = user
	cc.executor.SetCollationID(mysql.CollationID(33))
	cc.executor.SetCharset("utf8")
	cc.executor.SetDatabase(db)
	cc.namespace = nsName
	cc.executor.namespace = nsName
	cc.c.namespace = nsName
	cc.executor.SetContextNamespace()

	// onConn
	cc.executor.keepSession = cc.getNamespace().setForKeepSession
	cc.executor.userPriv = cc.getNamespace().userProperties[user].RWFlag
	cc.executor.userType = cc.getNamespace().userProperties[user].OtherProperty
	return cc
}

// VerifConnRef is one entry of txConns / ksConns.
type VerifConnRef struct {
	Slice string
	Conn  backend.PooledConnect
}

// VerifSessState is a read-only snapshot of the session fields the properties talk about.
type VerifSessState struct {
	Status       uint16
	AutoCommit   bool
	InTrans      bool
	InTx         bool // isInTransaction()
	KeepSession  bool
	Closed       bool
	Savepoints   []string
	TxConns      []VerifConnRef
	KsConns      []VerifConnRef
	ContinueConn bool
	NsIndexOld   uint32
	NsIndexNow   uint32 // change index of the namespace the manager serves now
	NsIndexCtx   uint32 // change index of the executor's context namespace
}

func verifRefs(m map[string]backend.PooledConnect) []VerifConnRef {
	out := make([]VerifConnRef, 0, len(m))
	for k, v := range m {
		out = append(out, VerifConnRef{Slice: k, Conn: v})
	}
	sort.Slice(out, func(i, j int) bool { return out[i].Slice < out[j].Slice })
	return out
}

// VerifState must only be called while the session goroutine is parked in Read (or ended).
func (cc *Session) VerifState() VerifSessState {
	se := cc.executor
	st := VerifSessState{
		Status:       se.status,
		AutoCommit:   se.isAutoCommit(),
		InTrans:      se.status&mysql.ServerStatusInTrans > 0,
		InTx:         se.isInTransaction(),
		KeepSession:  se.keepSession,
		Closed:       cc.IsClosed(),
		Savepoints:   append([]string(nil), se.savepoints...),
		TxConns:      verifRefs(se.txConns),
		KsConns:      verifRefs(se.ksConns),
		ContinueConn: cc.continueConn != nil,
		NsIndexOld:   se.nsChangeIndexOld,
	}
	if ns := cc.getNamespace(); ns != nil {
		st.NsIndexNow = ns.namespaceChangeIndex
	}
	if ns := se.contextNamespace; ns != nil {
		st.NsIndexCtx = ns.namespaceChangeIndex
	}
	return st
}
