//go:build verif

// Injected into github.com/XiaoMi/Gaea/backend by the session rig (/verif/ref/sessrig): a REAL
// connectionPoolImpl / pooledConnectImpl / DirectConnection stack whose sockets are in-memory
// pipes served by the rig (idea taken from checks/c24's VerifNewPool). Only the dial and the
// handshake are replaced; Get / Recycle / Put / tryReuse / ResetConnection / Close and the
// whole wire protocol of DirectConnection are the real code.
package backend

import (
	"net"
	"strconv"
	"strings"
	"sync/atomic"

	"github.com/XiaoMi/Gaea/mysql"
	"github.com/XiaoMi/Gaea/util"
)

// VerifNewPipePool builds a real connection pool for addr. Every new connection is one end of
// a net.Pipe; serve(id, peer) is started in a goroutine with the other end.
func VerifNewPipePool(addr string, capacity int, nextID *int64, serve func(id int, peer net.Conn)) (ConnectionPool, error) {
	cp := &connectionPoolImpl{addr: addr, capacity: capacity, maxCapacity: capacity, charset: "utf8", collationID: 33}
	factory := func() (util.Resource, error) {
		c1, c2 := net.Pipe()
		id := int(atomic.AddInt64(nextID, 1))
		mc := mysql.NewConn(c1)
		mc.ConnectionID = uint32(id)
		dc := &DirectConnection{
			conn:             mc,
			addr:             addr,
			user:             "verif-" + strconv.Itoa(id), // carries the id (never sent: no handshake)
			status:           mysql.ServerStatusAutocommit,
			capability:       mysql.ClientProtocol41 | mysql.ClientTransactions,
			sessionVariables: mysql.NewSessionVariables(),
			charset:          "utf8",
			collation:        33,
			defaultCharset:   "utf8",
			defaultCollation: 33,
		}
		pc := &pooledConnectImpl{directConnection: dc, pool: cp}
		go serve(id, c2)
		return pc, nil
	}
	rp, err := util.NewResourcePool(factory, capacity, capacity, 0)
	if err != nil {
		return nil, err
	}
	util.VerifSessStopTimers(rp)
	cp.connections = rp
	return cp, nil
}

// VerifRealPoolCounters returns the resource pool's capacity / in-use / available counters.
func VerifRealPoolCounters(p ConnectionPool) (capacity, inUse, available, active int64, ok bool) {
	cp, isReal := p.(*connectionPoolImpl)
	if !isReal || cp.connections == nil {
		return 0, 0, 0, 0, false
	}
	rp := cp.connections
	return rp.Capacity(), rp.InUse(), rp.Available(), rp.Active(), true
}

// VerifRealConnID maps a pooled connection built by VerifNewPipePool to its id.
func VerifRealConnID(pc PooledConnect) (int, bool) {
	p, ok := pc.(*pooledConnectImpl)
	if !ok {
		return 0, false
	}
	u := p.directConnection.user
	if !strings.HasPrefix(u, "verif-") {
		return 0, false
	}
	id, err := strconv.Atoi(u[len("verif-"):])
	return id, err == nil
}

// VerifRealConnStatus returns the status word the client side last saw and whether the
// session closed the connection.
func VerifRealConnStatus(pc PooledConnect) (status uint16, closed bool) {
	p := pc.(*pooledConnectImpl)
	return p.directConnection.status, p.directConnection.IsClosed()
}

