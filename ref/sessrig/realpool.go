package sessrig

import (
	"encoding/binary"
	"fmt"
	"io"
	"net"
	"strings"

	"github.com/XiaoMi/Gaea/backend"
	"github.com/XiaoMi/Gaea/mysql"
)

// Real-pool layer (Config.RealMasters): the master pool of every slice is a REAL
// backend.connectionPoolImpl (real util.ResourcePool, pooledConnectImpl, DirectConnection)
// whose connections are in-memory pipes answered by a minimal MySQL responder of the rig.
// What is observed at this layer is the pool's own accounting (capacity / in use / available)
// and the server-side view of every connection; the responder consults the same fault script
// as the fake pools (ops use_db, begin, commit, rollback, set_autocommit, execute, ping; kinds
// err = ERR packet, closed = the server drops the socket without answering, hang = no answer
// until the client closes the socket).

// RealConn is the server side of one real pooled connection.
type RealConn struct {
	ID      int
	Pool    string // "slice-0/master"
	AutoCom bool
	InTx    bool
	Gone    bool // socket closed (by either side)
}

type realPool struct {
	key  string
	gen  int
	pool backend.ConnectionPool
}

func (w *World) newRealPool(gen int, slice, role, addr string) backend.ConnectionPool {
	key := slice + "/" + role
	p, err := backend.VerifNewPipePool(addr, 4, &w.realNext, func(id int, peer net.Conn) { w.serveReal(key, gen, slice, role, id, peer) })
	if err != nil {
		panic(err)
	}
	w.realPools = append(w.realPools, realPool{key: key, gen: gen, pool: p})
	return p
}

// PoolCounters is the accounting of one real pool.
type PoolCounters struct {
	Pool                       string
	Gen                        int
	Capacity, InUse, Available int64
	Active                     int64 // live connections (in use + idle)
}

// RealCounters returns the counters of every real pool (all generations).
func (w *World) RealCounters() []PoolCounters {
	var out []PoolCounters
	for _, rp := range w.realPools {
		c, u, a, act, ok := backend.VerifRealPoolCounters(rp.pool)
		if ok {
			out = append(out, PoolCounters{Pool: rp.key, Gen: rp.gen, Capacity: c, InUse: u, Available: a, Active: act})
		}
	}
	return out
}

// RealConnOf maps a PooledConnect of a real pool to the server-side state of its connection.
func (w *World) RealConnOf(pc backend.PooledConnect) (RealConn, bool) {
	id, ok := backend.VerifRealConnID(pc)
	if !ok {
		return RealConn{}, false
	}
	w.mu.Lock()
	defer w.mu.Unlock()
	rc, ok := w.realConns[id]
	if !ok {
		return RealConn{}, false
	}
	return *rc, true
}

// RealIdle returns, per pool key, how many server-side connections are alive and not in the
// given set of referenced connection ids (i.e. sit idle in their pool).
func (w *World) RealIdle(referenced map[int]bool) []string {
	w.mu.Lock()
	defer w.mu.Unlock()
	n := map[string]int{}
	for id, rc := range w.realConns {
		if !rc.Gone && !referenced[id] {
			n[rc.Pool]++
		}
	}
	var out []string
	for _, k := range SortedKeys(n) {
		out = append(out, fmt.Sprintf("%s=%d", k, n[k]))
	}
	return out
}

// ClientView returns what the proxy side knows about a real connection: the last status word
// and whether the session closed it.
func ClientView(pc backend.PooledConnect) (autocommit, inTx, closed bool) {
	st, cl := backend.VerifRealConnStatus(pc)
	return st&mysql.ServerStatusAutocommit > 0, st&mysql.ServerStatusInTrans > 0, cl
}

func readPacket(c net.Conn) ([]byte, byte, error) {
	var h [4]byte
	if _, err := io.ReadFull(c, h[:]); err != nil {
		return nil, 0, err
	}
	n := int(h[0]) | int(h[1])<<8 | int(h[2])<<16
	b := make([]byte, n)
	if _, err := io.ReadFull(c, b); err != nil {
		return nil, 0, err
	}
	return b, h[3], nil
}

func writePacketTo(c net.Conn, seq byte, payload []byte) error {
	b := make([]byte, 4+len(payload))
	b[0], b[1], b[2], b[3] = byte(len(payload)), byte(len(payload)>>8), byte(len(payload)>>16), seq
	copy(b[4:], payload)
	_, err := c.Write(b)
	return err
}

// serveReal is the responder of one connection: strictly request -> answer, it never acts on
// its own.
func (w *World) serveReal(key string, gen int, slice, role string, id int, peer net.Conn) {
	rc := &RealConn{ID: id, Pool: key, AutoCom: true}
	fp := &Pool{w: w, Gen: gen, Slice: slice, Role: role} // only for ledger entries / fault addressing
	w.mu.Lock()
	if w.realConns == nil {
		w.realConns = map[int]*RealConn{}
	}
	w.realConns[id] = rc
	w.mu.Unlock()
	defer func() {
		peer.Close()
		w.mu.Lock()
		rc.Gone = true
		rc.InTx = false
		w.mu.Unlock()
	}()
	for {
		req, seq, err := readPacket(peer)
		if err != nil || len(req) == 0 {
			return
		}
		op, arg := "", ""
		switch req[0] {
		case mysql.ComQuit:
			return
		case mysql.ComPing:
			op = "ping"
		case mysql.ComInitDB:
			op, arg = "use_db", string(req[1:])
		case mysql.ComQuery:
			arg = string(req[1:])
			q := strings.ToLower(strings.TrimSpace(arg))
			switch {
			case q == "begin" || strings.HasPrefix(q, "start transaction"):
				op = "begin"
			case q == "commit":
				op = "commit"
			case q == "rollback":
				op = "rollback"
			case strings.HasPrefix(q, "set autocommit"):
				op = "set_autocommit"
			case strings.HasPrefix(q, "set "):
				op = "write_set"
			default:
				op = "execute"
			}
		default:
			op = "execute"
		}
		w.mu.Lock()
		kind := w.answer(fp, op)
		if kind == "hang" && (op != "execute" || isSavepointSQL(arg)) {
			kind = "err"
		}
		res := "ok"
		if kind != "" {
			res = kind
		}
		if kind == "" {
			q := strings.ToLower(strings.TrimSpace(arg))
			switch op {
			case "begin":
				rc.InTx = true
			case "commit", "rollback":
				rc.InTx = false
			case "set_autocommit":
				if strings.HasSuffix(q, "0") {
					rc.AutoCom = false
				} else {
					if !rc.AutoCom {
						rc.InTx = false
					}
					rc.AutoCom = true
				}
			case "execute":
				if !isSavepointSQL(arg) && !rc.AutoCom {
					rc.InTx = true
				}
			}
		}
		var status uint16
		if rc.AutoCom {
			status |= mysql.ServerStatusAutocommit
		}
		if rc.InTx {
			status |= mysql.ServerStatusInTrans
		}
		w.log(fp, nil, op, fmt.Sprintf("rc%d %s", id, arg), "real:"+res) // pool-level entry: real connections have no leases
		w.mu.Unlock()
		switch kind {
		case "":
			ok := []byte{mysql.OKHeader, 1, 0, 0, 0, 0, 0}
			binary.LittleEndian.PutUint16(ok[3:], status)
			if writePacketTo(peer, seq+1, ok) != nil {
				return
			}
		case "err":
			msg := "verif: injected backend error on " + op
			e := append([]byte{mysql.ErrHeader, 0x51, 0x04, '#', 'H', 'Y', '0', '0', '0'}, msg...)
			if writePacketTo(peer, seq+1, e) != nil {
				return
			}
		case "closed":
			return // drop the socket without an answer
		case "hang":
			// no answer; wait until the client gives up and closes the socket
			var one [1]byte
			peer.Read(one[:])
			return
		default:
			panic(fmt.Sprintf("sessrig: unknown answer kind %q", kind))
		}
	}
}
