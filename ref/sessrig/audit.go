package sessrig

import (
	"fmt"
	"sort"
)

// Leases follows the ledger and keeps, per lease (= one successful pool.Get), who took it
// and whether it was given back. It reports the three ledger-level contract breaches that
// all session properties share:
//
//	use_after_release  a call on a connection whose lease was already returned
//	foreign_connection a call by a session that did not take the lease
//	double_release     Recycle() on a lease that was already returned
type Leases struct {
	Owner    map[int]string
	Conn     map[int]int // lease -> connection id
	Pool     map[int]string
	Released map[int]int // lease -> number of Recycle calls
	next     int         // ledger position consumed so far
}

func NewLeases() *Leases {
	return &Leases{Owner: map[int]string{}, Conn: map[int]int{}, Pool: map[int]string{}, Released: map[int]int{}}
}

// Breach is one contract breach found by Feed.
type Breach struct {
	Kind  string
	Entry Entry
}

// String renders the breach without ledger positions or connection numbers (those depend on
// the order in which the executor happened to visit its connection maps).
func (b Breach) String() string {
	return fmt.Sprintf("%s: %s by session %s on a connection of %s", b.Kind, b.Entry.Op, b.Entry.Actor, b.Entry.Pool)
}

// Feed consumes the ledger entries not seen yet. Entries are processed per connection (the
// only order that is deterministic), connections ordered by pool name, then id.
func (l *Leases) Feed(ledger []Entry) []Breach {
	fresh := ledger[l.next:]
	l.next = len(ledger)
	by := map[int][]Entry{}
	var ids []int
	for _, e := range fresh {
		if e.Conn == 0 {
			continue
		}
		if _, ok := by[e.Conn]; !ok {
			ids = append(ids, e.Conn)
		}
		by[e.Conn] = append(by[e.Conn], e)
	}
	sort.Slice(ids, func(i, j int) bool {
		a, b := by[ids[i]][0].Pool, by[ids[j]][0].Pool
		if a != b {
			return a < b
		}
		return ids[i] < ids[j]
	})
	var out []Breach
	for _, id := range ids {
		for _, e := range by[id] {
			switch e.Op {
			case "get":
				l.Owner[e.Lease] = e.Actor
				l.Conn[e.Lease] = e.Conn
				l.Pool[e.Lease] = e.Pool
			case "recycle":
				l.Released[e.Lease]++
				if e.Res == "dup" || l.Released[e.Lease] > 1 {
					out = append(out, Breach{"double_release", e})
				}
				if l.Owner[e.Lease] != e.Actor {
					out = append(out, Breach{"foreign_connection", e})
				}
			case "pool_rollback", "pool_autocommit":
			default:
				if l.Released[e.Lease] > 0 {
					out = append(out, Breach{"use_after_release", e})
				} else if l.Owner[e.Lease] != e.Actor {
					out = append(out, Breach{"foreign_connection", e})
				}
			}
		}
	}
	return out
}
