// Package sessrig is the shared session rig of C18 / C19 / C23: a real server.Manager +
// server.Namespace (2 slices x (master + 1 replica)) + real server.Session objects running
// the real Session.Run loop, on fake connection pools that keep a per-connection ledger and
// answer every backend call from a script (ok by default, or an injected fault).
//
// Determinism: a client command is handed to the session goroutine through an in-memory
// net.Conn; the harness continues only when that goroutine is parked in Read again (or
// Session.Run returned), so harness and session alternate strictly. No timers are started
// (time wheel not started, no health checks, no delayed namespace close). The executor's own
// per-slice goroutines are joined by the executor before the command returns; the ledger is
// mutex-protected and never exposes cross-connection order within one command.
//
// A World is self-contained; several Worlds may be used concurrently (the only process
// globals touched are Gaea's metric counters, which are concurrency-safe by design).
package sessrig

import (
	"encoding/binary"
	"fmt"
	"io"
	"net"
	"sort"
	"strings"
	"sync"
	"sync/atomic"
	"time"

	"github.com/XiaoMi/Gaea/backend"
	"github.com/XiaoMi/Gaea/models"
	"github.com/XiaoMi/Gaea/mysql"
	"github.com/XiaoMi/Gaea/proxy/server"
)

const (
	NsName   = "verif_ns"
	UserRW   = "u_rw"    // read-write user, no read/write splitting
	UserRWS  = "u_split" // read-write user with read/write splitting
	UserRO   = "u_ro"    // read-only user
	// user types (models.User.OtherProperty): the slice picks the pool group by it
	UserStat  = "u_stat"  // read-write statistic user (other_property=1), no rw-splitting
	UserMon   = "u_mon"   // read-write monitor user (other_property=2), with rw-splitting
	UserAdmin = "u_admin" // read-write admin / pass-through user (other_property=3), with rw-splitting
	Database = "db_ks"
)

// Config of a World.
type Config struct {
	KeepSession bool `json:"keep_session"`
	// MaxExecMs > 0 sets max_sql_execute_time (needed for Fault kind "hang"). It arms real
	// context timers inside the executor; keep it far above any scheduling hiccup.
	MaxExecMs int `json:"max_exec_ms,omitempty"`
	// RealMasters puts a real backend connection pool (see realpool.go) under the master group
	// of every slice instead of a fake pool.
	RealMasters bool `json:"real_masters,omitempty"`
}

func nsConfig(c Config) *models.Namespace {
	mk := func(name, master, slave, stat string) *models.Slice {
		return &models.Slice{Name: name, UserName: "root", Password: "root", Master: master, Slaves: []string{slave},
			StatisticSlaves: []string{stat}, Capacity: 1, MaxCapacity: 1, IdleTimeout: 0}
	}
	return &models.Namespace{
		Name:          NsName,
		Online:        true,
		AllowedDBS:    map[string]bool{Database: true},
		DefaultPhyDBS: map[string]string{Database: Database},
		Slices: []*models.Slice{
			mk("slice-0", "127.0.0.1:1#c3", "127.0.0.2:1#c3", "127.0.0.5:1#c3"),
			mk("slice-1", "127.0.0.3:1#c3", "127.0.0.4:1#c3", "127.0.0.6:1#c3"),
		},
		ShardRules: []*models.Shard{{DB: Database, Table: "tbl_ks", Type: "mod", Key: "id",
			Locations: []int{1, 1}, Slices: []string{"slice-0", "slice-1"}}},
		Users: []*models.User{
			{UserName: UserRW, Password: "p", Namespace: NsName, RWFlag: models.ReadWrite, RWSplit: models.NoReadWriteSplit},
			{UserName: UserRWS, Password: "p", Namespace: NsName, RWFlag: models.ReadWrite, RWSplit: models.ReadWriteSplit},
			{UserName: UserRO, Password: "p", Namespace: NsName, RWFlag: models.ReadOnly, RWSplit: models.ReadWriteSplit},
			{UserName: UserStat, Password: "p", Namespace: NsName, RWFlag: models.ReadWrite, RWSplit: models.NoReadWriteSplit, OtherProperty: models.StatisticUser},
			{UserName: UserMon, Password: "p", Namespace: NsName, RWFlag: models.ReadWrite, RWSplit: models.ReadWriteSplit, OtherProperty: models.MonitorUser},
			{UserName: UserAdmin, Password: "p", Namespace: NsName, RWFlag: models.ReadWrite, RWSplit: models.ReadWriteSplit, OtherProperty: models.AdminUser},
		},
		DefaultSlice:                "slice-0",
		SetForKeepSession:           c.KeepSession,
		MaxSqlExecuteTime:           c.MaxExecMs,
		FuseEnabled:                 "off",
		FallbackToMasterOnSlaveFail: "off",
	}
}

// World = one manager/namespace + fake pools + ledger.
type World struct {
	mu  sync.Mutex
	cfg Config
	vw  *server.VerifWorld
	gen int

	pools     []*Pool
	conns     []*Conn
	nextConn  int
	nextLease int
	ledger    []Entry

	step    int
	actor   string
	armed   []Fault
	fired   []Fault
	counter map[string]int // faultable calls per pool key in the current step

	sessions []*Sess
	nextSess uint32

	realPools []realPool
	realConns map[int]*RealConn
	realNext  int64

	prepared   bool  // a reload is prepared but not committed
	committing int32 // guards CommitReload
}

// New builds a fresh world.
func New(cfg Config) (*World, error) {
	w := &World{cfg: cfg, counter: map[string]int{}}
	vw, err := server.VerifNewWorld(nsConfig(cfg), "c3")
	if err != nil {
		return nil, err
	}
	w.vw = vw
	w.patch(vw.VerifNamespace(NsName))
	return w, nil
}

// IsMasterRole tells whether a fake pool role is a pool of the slice's master instance
// (business master pool or the monitor users' own master pool) as opposed to a replica group
// (slave, stat_slave, mon_slave).
func IsMasterRole(role string) bool { return role == "master" || role == "mon_master" }

// patch replaces every pool group of every slice (master, slaves, statistic slaves, monitor
// master, monitor slaves) by distinguishable fakes and closes the real pools (their capacity timers would otherwise keep running).
func (w *World) patch(ns *server.Namespace) {
	for _, name := range []string{"slice-0", "slice-1"} {
		sl := ns.GetSlice(name)
		swap := func(info *backend.DBInfo, role string) {
			if info == nil {
				return
			}
			for _, n := range info.Nodes {
				n.ConnPool.Close()
				if role == "" {
					continue
				}
				if role == "master" && w.cfg.RealMasters {
					n.ConnPool = w.newRealPool(w.gen, name, role, n.Address)
					continue
				}
				p := &Pool{w: w, Gen: w.gen, Slice: name, Role: role, addr: n.Address, out: map[int]*Conn{}}
				w.pools = append(w.pools, p)
				n.ConnPool = p
			}
		}
		swap(sl.Master, "master")
		swap(sl.Slave, "slave")
		swap(sl.StatisticSlave, "stat_slave")
		swap(sl.MonitorMaster, "mon_master")
		swap(sl.MonitorSlave, "mon_slave")
	}
}

// Reload performs a namespace configuration change (same configuration content; the change
// index is bumped by the real ReloadNamespacePrepare). The new namespace gets new fake
// pools of generation gen+1, exactly like a real reload creates new pools.
func (w *World) Reload() error {
	w.mu.Lock()
	w.gen++
	w.mu.Unlock()
	return w.vw.VerifReload(nsConfig(w.cfg), func(ns *server.Namespace) { w.patch(ns) })
}

// PrepareReload builds the next namespace generation (real ReloadNamespacePrepare, new fake
// pools) without making it visible. CommitReload - or a Fault of kind "commit_reload", or
// CommitOnWrite - makes it visible.
func (w *World) PrepareReload() error {
	w.mu.Lock()
	w.gen++
	w.prepared = true
	w.mu.Unlock()
	return w.vw.VerifReloadPrepare(nsConfig(w.cfg), func(ns *server.Namespace) { w.patch(ns) })
}

// CommitReload makes a prepared reload visible (no-op if none is pending); it reports whether
// it did something. Safe to call from the session's goroutines.
func (w *World) CommitReload() bool {
	if !atomic.CompareAndSwapInt32(&w.committing, 0, 1) {
		return false
	}
	defer atomic.StoreInt32(&w.committing, 0)
	if !w.prepared {
		return false
	}
	w.prepared = false
	w.vw.VerifReloadCommit()
	return true
}

// ReloadPending reports whether a prepared reload has not been committed yet.
func (w *World) ReloadPending() bool { return w.prepared }

// CommitOnWrite arms a one-shot hook: the prepared reload is committed when the session
// writes the first byte of its answer to the running command (i.e. after the command was
// executed, before Session.Run evaluates its post-command checks).
func (s *Sess) CommitOnWrite() {
	s.conn.mu.Lock()
	s.conn.onWrite = func() { s.w.CommitReload() }
	s.conn.mu.Unlock()
}

// ChangeIndex of the namespace currently served.
func (w *World) ChangeIndex() uint32 { return w.vw.VerifNamespace(NsName).VerifChangeIndex() }

// ---- ledger / script (callers hold w.mu) ----

func (w *World) log(p *Pool, c *Conn, op, arg, res string) {
	e := Entry{Seq: len(w.ledger), Step: w.step, Actor: w.actor, Pool: p.Name(), Role: p.Role, Slice: p.Slice, Op: op, Arg: arg, Res: res}
	if c != nil {
		e.Conn = c.ID
		e.Lease = c.Lease
	}
	w.ledger = append(w.ledger, e)
}

// answer consumes one faultable call slot on pool p and returns the injected kind ("" = ok).
func (w *World) answer(p *Pool, op string) string {
	if !FaultableOps[op] {
		return ""
	}
	k := p.Key()
	n := w.counter[k]
	w.counter[k] = n + 1
	for i, f := range w.armed {
		if f.Pool == k && f.Nth == n {
			w.armed = append(w.armed[:i:i], w.armed[i+1:]...)
			w.fired = append(w.fired, f)
			if f.Kind == "commit_reload" {
				// not a fault: the prepared namespace reload commits right now, while this
				// backend call of the running command is in flight; the call itself answers ok
				w.CommitReload()
				return ""
			}
			return f.Kind
		}
	}
	return ""
}

func (w *World) beginStep(actor string, faults []Fault) {
	w.mu.Lock()
	w.step++
	w.actor = actor
	w.armed = append([]Fault(nil), faults...)
	w.fired = nil
	w.counter = map[string]int{}
	w.mu.Unlock()
}

func (w *World) endStep() (fired []Fault, calls map[string]int) {
	w.mu.Lock()
	defer w.mu.Unlock()
	w.actor = ""
	w.armed = nil
	fired = w.fired
	calls = w.counter
	w.counter = map[string]int{}
	return
}

// Ledger returns a copy of all entries.
func (w *World) Ledger() []Entry {
	w.mu.Lock()
	defer w.mu.Unlock()
	return append([]Entry(nil), w.ledger...)
}

// StepEntries returns the entries of one step grouped per connection (key = connection
// id; 0 = pool level entries), each group in its deterministic order.
func StepEntries(l []Entry, step int) map[int][]Entry {
	m := map[int][]Entry{}
	for _, e := range l {
		if e.Step == step {
			m[e.Conn] = append(m[e.Conn], e)
		}
	}
	return m
}

// Step returns the number of the last started step.
func (w *World) Step() int { w.mu.Lock(); defer w.mu.Unlock(); return w.step }

// ConnInfo is the state of one fake connection.
type ConnInfo struct {
	ID      int
	Pool    string // "g0/slice-0/master"
	Slice   string
	Role    string
	Gen     int
	Lease   int
	Holder  string
	Out     bool
	Closed  bool
	AutoCom bool
	InTx    bool
	Used    bool
	// Init describes how much of the per-connection initialisation already happened (it
	// decides which backend calls the next use will make): "d" = database selected,
	// "v" = session variables stored, "s" = a SET statement is still owed.
	Init string
}

func (c *Conn) info() ConnInfo {
	init := ""
	if c.db != "" {
		init += "d"
	}
	if c.varsSet {
		init += "v"
	}
	if c.needSet {
		init += "s"
	}
	return ConnInfo{ID: c.ID, Pool: c.pool.Name(), Slice: c.pool.Slice, Role: c.pool.Role, Gen: c.pool.Gen, Lease: c.Lease,
		Holder: c.Holder, Out: c.Out, Closed: c.Closed, AutoCom: c.AutoCom, InTx: c.InTx, Used: c.Used, Init: init}
}

// Idle returns, per pool name, the idle connections in the order Get will hand them out.
func (w *World) Idle() map[string][]ConnInfo {
	w.mu.Lock()
	defer w.mu.Unlock()
	out := map[string][]ConnInfo{}
	for _, p := range w.pools {
		for _, c := range p.idle {
			out[p.Name()] = append(out[p.Name()], c.info())
		}
	}
	return out
}

// Conns returns the state of every connection ever created, by id.
func (w *World) Conns() []ConnInfo {
	w.mu.Lock()
	defer w.mu.Unlock()
	out := make([]ConnInfo, 0, len(w.conns))
	for _, c := range w.conns {
		out = append(out, c.info())
	}
	return out
}

// Outstanding returns the connections whose lease has not been returned, by id.
func (w *World) Outstanding() []ConnInfo {
	var out []ConnInfo
	for _, c := range w.Conns() {
		if c.Out {
			out = append(out, c)
		}
	}
	return out
}

// InfoOf maps a PooledConnect handed out by this world to its state.
func (w *World) InfoOf(pc backend.PooledConnect) (ConnInfo, bool) {
	c, ok := pc.(*Conn)
	if !ok || c == nil {
		return ConnInfo{}, false
	}
	w.mu.Lock()
	defer w.mu.Unlock()
	return c.info(), true
}

// ---- in-memory client connection ----

type addr string

func (a addr) Network() string { return "verif" }
func (a addr) String() string  { return string(a) }

type stepConn struct {
	in      chan []byte
	idle    chan struct{}
	pending []byte
	mu      sync.Mutex
	out     []byte
	closed  bool
	onWrite func() // one-shot hook, see Sess.CommitOnWrite
}

func newStepConn() *stepConn {
	return &stepConn{in: make(chan []byte), idle: make(chan struct{})}
}

func (c *stepConn) Read(p []byte) (int, error) {
	if len(c.pending) == 0 {
		c.mu.Lock()
		cl := c.closed
		c.mu.Unlock()
		if cl {
			return 0, io.ErrClosedPipe
		}
		c.idle <- struct{}{} // parked: the harness may look at the state / send the next command
		data, ok := <-c.in
		if !ok {
			return 0, io.EOF
		}
		c.pending = data
	}
	n := copy(p, c.pending)
	c.pending = c.pending[n:]
	return n, nil
}

func (c *stepConn) Write(p []byte) (int, error) {
	c.mu.Lock()
	defer c.mu.Unlock()
	if c.closed {
		return 0, io.ErrClosedPipe
	}
	if h := c.onWrite; h != nil {
		c.onWrite = nil
		h()
	}
	c.out = append(c.out, p...)
	return len(p), nil
}

func (c *stepConn) Close() error {
	c.mu.Lock()
	c.closed = true
	c.mu.Unlock()
	return nil
}

func (c *stepConn) takeOut() []byte {
	c.mu.Lock()
	defer c.mu.Unlock()
	o := c.out
	c.out = nil
	return o
}

func (c *stepConn) isClosed() bool { c.mu.Lock(); defer c.mu.Unlock(); return c.closed }

func (c *stepConn) LocalAddr() net.Addr                { return addr("127.0.0.1:13306") }
func (c *stepConn) RemoteAddr() net.Addr               { return addr("127.0.0.9:50000") }
func (c *stepConn) SetDeadline(t time.Time) error      { return nil }
func (c *stepConn) SetReadDeadline(t time.Time) error  { return nil }
func (c *stepConn) SetWriteDeadline(t time.Time) error { return nil }

// ---- sessions ----

// Sess is one client connection served by a real server.Session running Session.Run.
type Sess struct {
	w     *World
	Name  string
	User  string
	cc    *server.Session
	conn  *stepConn
	done  chan struct{}
	Ended bool // Session.Run has returned
}

// Resp is what the client received for one command.
type Resp struct {
	Kind    string `json:"kind"` // ok | err | result | eof | none | gone (session already ended)
	ErrCode uint16 `json:"err_code,omitempty"`
	ErrMsg  string `json:"err_msg,omitempty"`
	Status  uint16 `json:"status,omitempty"`
	Ended   bool   `json:"ended,omitempty"` // the proxy ended the session during / right after this command
	Fired   []Fault
	Calls   map[string]int // faultable backend calls per pool key made during the command
}

// NewSession connects a client (already authenticated as user) and starts Session.Run.
func (w *World) NewSession(name, user string) *Sess {
	w.nextSess++
	s := &Sess{w: w, Name: name, User: user, conn: newStepConn(), done: make(chan struct{})}
	s.cc = w.vw.VerifNewSession(s.conn, 100+w.nextSess, NsName, user, Database)
	w.sessions = append(w.sessions, s)
	go func() {
		defer close(s.done)
		s.cc.Run()
	}()
	s.wait()
	return s
}

// wait blocks until the session goroutine is parked in Read or has ended.
func (s *Sess) wait() {
	select {
	case <-s.conn.idle:
	case <-s.done:
		s.Ended = true
	}
}

func packet(payload []byte) []byte {
	b := make([]byte, 4+len(payload))
	b[0] = byte(len(payload))
	b[1] = byte(len(payload) >> 8)
	b[2] = byte(len(payload) >> 16)
	b[3] = 0
	copy(b[4:], payload)
	return b
}

// Do sends one command packet and waits until the session is quiescent again.
func (s *Sess) Do(cmd byte, data []byte, faults ...Fault) Resp {
	if s.Ended {
		return Resp{Kind: "gone", Ended: true}
	}
	if s.w.vw.VerifTwQueued() > server.VerifTwCap-8 {
		panic("sessrig: too many commands for one world (inert time wheel queue nearly full)")
	}
	s.w.beginStep(s.Name, faults)
	s.conn.in <- packet(append([]byte{cmd}, data...))
	s.wait()
	s.conn.mu.Lock()
	s.conn.onWrite = nil // a command without an answer leaves the hook unused
	s.conn.mu.Unlock()
	fired, calls := s.w.endStep()
	r := parseResp(s.conn.takeOut())
	r.Ended = s.Ended
	r.Fired = fired
	r.Calls = calls
	return r
}

// Query sends COM_QUERY.
func (s *Sess) Query(sql string, faults ...Fault) Resp {
	return s.Do(mysql.ComQuery, []byte(sql), faults...)
}

// Ping sends COM_PING; Quit sends COM_QUIT.
func (s *Sess) Ping(faults ...Fault) Resp { return s.Do(mysql.ComPing, nil, faults...) }
func (s *Sess) Quit(faults ...Fault) Resp { return s.Do(mysql.ComQuit, nil, faults...) }

// Disconnect closes the client side of the connection (the proxy sees EOF).
func (s *Sess) Disconnect(faults ...Fault) Resp {
	if s.Ended {
		return Resp{Kind: "gone", Ended: true}
	}
	s.w.beginStep(s.Name, faults)
	close(s.conn.in)
	<-s.done
	s.Ended = true
	fired, calls := s.w.endStep()
	return Resp{Kind: "none", Ended: true, Fired: fired, Calls: calls}
}

// Close ends every session that is still running (client disconnect) so that no goroutine
// outlives the world. Call it after the verdict of a replay has been computed.
func (w *World) Close() {
	for _, s := range w.sessions {
		if !s.Ended {
			s.Disconnect()
		}
	}
}

// State returns the session's executor state (only valid between commands).
func (s *Sess) State() server.VerifSessState { return s.cc.VerifState() }

// ClientConnClosed reports whether the proxy closed the client connection.
func (s *Sess) ClientConnClosed() bool { return s.conn.isClosed() }

func parseResp(b []byte) Resp {
	if len(b) < 5 {
		return Resp{Kind: "none"}
	}
	n := int(b[0]) | int(b[1])<<8 | int(b[2])<<16
	if 4+n > len(b) {
		return Resp{Kind: "none", ErrMsg: "short packet"}
	}
	p := b[4 : 4+n]
	switch p[0] {
	case mysql.OKHeader:
		r := Resp{Kind: "ok"}
		pos := 1
		skip := func() {
			if pos >= len(p) {
				return
			}
			switch p[pos] {
			case 0xfc:
				pos += 3
			case 0xfd:
				pos += 4
			case 0xfe:
				pos += 9
			default:
				pos++
			}
		}
		skip()
		skip()
		if pos+2 <= len(p) {
			r.Status = binary.LittleEndian.Uint16(p[pos:])
		}
		return r
	case mysql.ErrHeader:
		r := Resp{Kind: "err"}
		if len(p) >= 3 {
			r.ErrCode = binary.LittleEndian.Uint16(p[1:])
		}
		if len(p) > 9 && p[3] == '#' {
			r.ErrMsg = string(p[9:])
		} else if len(p) > 3 {
			r.ErrMsg = string(p[3:])
		}
		return r
	case mysql.EOFHeader:
		if n < 9 {
			return Resp{Kind: "eof"}
		}
	}
	return Resp{Kind: "result"}
}

// SortedKeys is a small helper for canonical renderings.
func SortedKeys(m map[string]int) []string {
	ks := make([]string, 0, len(m))
	for k := range m {
		ks = append(ks, k)
	}
	sort.Strings(ks)
	return ks
}

// PoolKeys lists the fake pool keys of a world configuration.
var PoolKeys = []string{"slice-0/master", "slice-0/slave", "slice-0/stat_slave", "slice-0/mon_master", "slice-0/mon_slave",
	"slice-1/master", "slice-1/slave", "slice-1/stat_slave", "slice-1/mon_master", "slice-1/mon_slave"}

// SeqOrder returns, for one step, the order in which pools were first touched by an op
// that the executor issues from a sequential loop (everything except use_db / statement
// execute / write_set, which run in the per-slice goroutines). Early-exit loops over Go
// maps (getBackendConns, handleBegin) make the outcome of a faulted command depend on this
// order; checks use it to pin the order they explore.
func SeqOrder(l []Entry, step int) []string {
	var order []string
	seen := map[string]bool{}
	for _, e := range l {
		if e.Step != step {
			continue
		}
		switch e.Op {
		case "use_db", "write_set", "close", "recycle", "pool_rollback", "pool_autocommit":
			continue
		case "execute":
			if !isSavepointSQL(e.Arg) {
				continue
			}
		}
		k := e.Slice + "/" + e.Role
		if !seen[k] {
			seen[k] = true
			order = append(order, k)
		}
	}
	return order
}

// Describe renders ledger entries compactly (for witnesses).
func Describe(es []Entry) []string {
	out := make([]string, 0, len(es))
	for _, e := range es {
		s := fmt.Sprintf("#%d step%d %s %s c%d/l%d %s", e.Seq, e.Step, e.Actor, e.Pool, e.Conn, e.Lease, e.Op)
		if e.Arg != "" {
			a := e.Arg
			if len(a) > 40 {
				a = a[:40] + "..."
			}
			s += "(" + a + ")"
		}
		s += " -> " + e.Res
		out = append(out, strings.TrimSpace(s))
	}
	return out
}
