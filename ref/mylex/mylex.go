// Package mylex is a small, independent lexer for MySQL statement text, written from the
// MySQL reference manual (9.1 Literal Values, 9.2 Schema Object Names, 9.7 Comments,
// 5.1.11 Server SQL Modes), NOT from Gaea's or TiDB's lexer. It knows exactly what the
// properties C14/C15/C17 talk about: where string literals, quoted identifiers and comments
// begin and end under a given sql_mode, what value a string literal denotes, and where
// parameter markers and statement separators are. Everything else is split into words,
// numbers and operator characters without interpretation.
//
// Assumptions: the connection character set is ASCII-compatible and has no multi-byte
// character whose trailing byte is 0x5c or 0x27 (true for utf8/utf8mb4/latin1/binary; not
// for gbk/big5/sjis).
package mylex

import (
	"fmt"
	"strings"
)

type Kind int

const (
	String      Kind = iota // '...' or "..." (without ANSI_QUOTES); Val = denoted bytes
	QuotedIdent             // `...` or "..." under ANSI_QUOTES; Val = identifier
	Number                  // integer / decimal / float / 0x.. literal (raw text)
	Word                    // unquoted identifier or keyword
	Param                   // ?
	Semicolon               // ;
	Op                      // any other punctuation (one token per operator)
	Comment                 // -- , # or /* */ comment (Val = body); Exec=true for /*! ... */
	Error                   // unterminated literal / comment; always the last token
)

func (k Kind) String() string {
	return [...]string{"String", "QuotedIdent", "Number", "Word", "Param", "Semicolon", "Op", "Comment", "Error"}[k]
}

type Token struct {
	Kind  Kind
	Off   int    // byte offset of the first byte of the token
	End   int    // byte offset after the last byte
	Text  string // raw text
	Val   string // decoded value for String / QuotedIdent / Comment
	Quote byte   // opening quote for String / QuotedIdent
	Exec  bool   // Comment only: /*! or /*+ (content is significant to the server)
}

// Mode is the part of sql_mode that changes lexing.
type Mode struct {
	NoBackslashEscapes bool
	AnsiQuotes         bool
}

// ParseMode extracts the lexing-relevant flags from an sql_mode value such as
// "ANSI_QUOTES,NO_BACKSLASH_ESCAPES" (quotes around the list and case are ignored; the
// combination modes that imply ANSI_QUOTES are honoured).
func ParseMode(sqlMode string) Mode {
	var m Mode
	s := strings.ToUpper(strings.Trim(strings.TrimSpace(sqlMode), "'\"`"))
	for _, f := range strings.Split(s, ",") {
		switch strings.TrimSpace(f) {
		case "NO_BACKSLASH_ESCAPES":
			m.NoBackslashEscapes = true
		case "ANSI_QUOTES", "ANSI", "DB2", "MAXDB", "MSSQL", "ORACLE", "POSTGRESQL":
			m.AnsiQuotes = true
		}
	}
	return m
}

func isSpace(c byte) bool {
	return c == ' ' || c == '\t' || c == '\n' || c == '\r' || c == '\f' || c == '\v'
}
func isDigit(c byte) bool { return c >= '0' && c <= '9' }
func isWordByte(c byte) bool {
	return c == '_' || c == '$' || isDigit(c) || (c >= 'a' && c <= 'z') || (c >= 'A' && c <= 'Z') || c >= 0x80
}

// Lex tokenises s under mode m. includeComments selects whether Comment tokens are
// returned (they never carry meaning except Exec comments, which are always returned).
func Lex(s string, m Mode, includeComments bool) []Token {
	var out []Token
	i := 0
	n := len(s)
	for i < n {
		c := s[i]
		switch {
		case isSpace(c):
			i++
		case c == '#':
			j := i + 1
			for j < n && s[j] != '\n' {
				j++
			}
			if includeComments {
				out = append(out, Token{Kind: Comment, Off: i, End: j, Text: s[i:j], Val: s[i+1 : j]})
			}
			i = j
		case c == '-' && i+2 <= n && i+1 < n && s[i+1] == '-' && (i+2 == n || isSpace(s[i+2]) || s[i+2] < 0x20):
			// "--" must be followed by whitespace or a control character (or end of text)
			j := i + 2
			for j < n && s[j] != '\n' {
				j++
			}
			if includeComments {
				out = append(out, Token{Kind: Comment, Off: i, End: j, Text: s[i:j], Val: s[i+2 : j]})
			}
			i = j
		case c == '/' && i+1 < n && s[i+1] == '*':
			j := strings.Index(s[i+2:], "*/")
			if j < 0 {
				out = append(out, Token{Kind: Error, Off: i, End: n, Text: s[i:], Val: "unterminated comment"})
				return out
			}
			end := i + 2 + j + 2
			body := s[i+2 : end-2]
			exec := strings.HasPrefix(body, "!") || strings.HasPrefix(body, "+")
			if includeComments || exec {
				out = append(out, Token{Kind: Comment, Off: i, End: end, Text: s[i:end], Val: body, Exec: exec})
			}
			i = end
		case c == '\'' || c == '"' || c == '`':
			ident := c == '`' || (c == '"' && m.AnsiQuotes)
			val, end, ok := scanQuoted(s, i, c, ident || m.NoBackslashEscapes)
			if !ok {
				out = append(out, Token{Kind: Error, Off: i, End: n, Text: s[i:], Val: "unterminated quote", Quote: c})
				return out
			}
			k := String
			if ident {
				k = QuotedIdent
			}
			out = append(out, Token{Kind: k, Off: i, End: end, Text: s[i:end], Val: val, Quote: c})
			i = end
		case c == '?':
			out = append(out, Token{Kind: Param, Off: i, End: i + 1, Text: "?"})
			i++
		case c == ';':
			out = append(out, Token{Kind: Semicolon, Off: i, End: i + 1, Text: ";"})
			i++
		case isDigit(c) || (c == '.' && i+1 < n && isDigit(s[i+1])):
			j := scanNumber(s, i)
			// a word may start with digits (e.g. 1a); MySQL lexes "1a" as an identifier
			if j < n && isWordByte(s[j]) && !strings.ContainsAny(s[i:j], ".") {
				k := j
				for k < n && isWordByte(s[k]) {
					k++
				}
				out = append(out, Token{Kind: Word, Off: i, End: k, Text: s[i:k]})
				i = k
				break
			}
			out = append(out, Token{Kind: Number, Off: i, End: j, Text: s[i:j]})
			i = j
		case isWordByte(c):
			j := i
			for j < n && isWordByte(s[j]) {
				j++
			}
			out = append(out, Token{Kind: Word, Off: i, End: j, Text: s[i:j]})
			i = j
		default:
			j := i + 1
			for _, op := range [...]string{"<=>", "->>", "<=", ">=", "<>", "!=", ":=", "||", "&&", "<<", ">>", "->", "@@"} {
				if strings.HasPrefix(s[i:], op) {
					j = i + len(op)
					break
				}
			}
			out = append(out, Token{Kind: Op, Off: i, End: j, Text: s[i:j]})
			i = j
		}
	}
	return out
}

// scanQuoted scans a quoted string or identifier starting at s[i]==q. A doubled quote
// denotes one quote character. Unless raw, backslash escapes are recognised as MySQL
// defines them for string literals.
func scanQuoted(s string, i int, q byte, raw bool) (val string, end int, ok bool) {
	var b []byte
	j := i + 1
	for j < len(s) {
		c := s[j]
		switch {
		case c == q:
			if j+1 < len(s) && s[j+1] == q {
				b = append(b, q)
				j += 2
				continue
			}
			return string(b), j + 1, true
		case c == '\\' && !raw:
			if j+1 >= len(s) {
				return "", len(s), false
			}
			e := s[j+1]
			switch e {
			case '0':
				b = append(b, 0)
			case 'b':
				b = append(b, '\b')
			case 'n':
				b = append(b, '\n')
			case 'r':
				b = append(b, '\r')
			case 't':
				b = append(b, '\t')
			case 'Z':
				b = append(b, 0x1a)
			case '%', '_':
				b = append(b, '\\', e)
			default:
				b = append(b, e)
			}
			j += 2
		default:
			b = append(b, c)
			j++
		}
	}
	return "", len(s), false
}

func scanNumber(s string, i int) int {
	n := len(s)
	j := i
	if s[j] == '0' && j+1 < n && (s[j+1] == 'x' || s[j+1] == 'X') {
		k := j + 2
		for k < n && (isDigit(s[k]) || (s[k] >= 'a' && s[k] <= 'f') || (s[k] >= 'A' && s[k] <= 'F')) {
			k++
		}
		if k > j+2 {
			return k
		}
	}
	for j < n && isDigit(s[j]) {
		j++
	}
	if j < n && s[j] == '.' {
		j++
		for j < n && isDigit(s[j]) {
			j++
		}
	}
	if j < n && (s[j] == 'e' || s[j] == 'E') {
		k := j + 1
		if k < n && (s[k] == '+' || s[k] == '-') {
			k++
		}
		if k < n && isDigit(s[k]) {
			for k < n && isDigit(s[k]) {
				k++
			}
			j = k
		}
	}
	return j
}

// Split cuts s at the top-level statement separators: a ';' that is not inside a string
// literal, quoted identifier or comment. Pieces that contain no token other than
// comments are "empty statements" and are omitted. The returned pieces are substrings of
// s (not trimmed). err is set when s ends inside a literal or comment.
func Split(s string, m Mode) (pieces []string, err error) {
	toks := Lex(s, m, false)
	begin := 0
	nonEmpty := false
	for _, t := range toks {
		switch t.Kind {
		case Error:
			return nil, fmt.Errorf("%s at offset %d", t.Val, t.Off)
		case Semicolon:
			if nonEmpty {
				pieces = append(pieces, s[begin:t.Off])
			}
			begin = t.End
			nonEmpty = false
		default:
			nonEmpty = true
		}
	}
	if nonEmpty {
		pieces = append(pieces, s[begin:])
	}
	return pieces, nil
}

// Params returns the byte offsets of the parameter markers of s.
func Params(s string, m Mode) (offs []int, err error) {
	for _, t := range Lex(s, m, false) {
		if t.Kind == Error {
			return nil, fmt.Errorf("%s at offset %d", t.Val, t.Off)
		}
		if t.Kind == Param {
			offs = append(offs, t.Off)
		}
	}
	return offs, nil
}
