package mylex

import (
	"reflect"
	"testing"
)

func TestStrings(t *testing.T) {
	cases := []struct {
		s    string
		m    Mode
		vals []string
	}{
		{`'a''b'`, Mode{}, []string{"a'b"}},
		{`'a\'b'`, Mode{}, []string{"a'b"}},
		{`'a\\'`, Mode{}, []string{`a\`}},
		{`'a\\'`, Mode{NoBackslashEscapes: true}, []string{`a\\`}},
		{`'a\' 'b'`, Mode{NoBackslashEscapes: true}, []string{`a\`, "b"}},
		{`'\0\n\Z\%\_\q'`, Mode{}, []string{"\x00\n\x1a\\%\\_q"}},
		{`"x""y"`, Mode{}, []string{`x"y`}},
		{`'a' 'b'`, Mode{}, []string{"a", "b"}},
	}
	for _, c := range cases {
		var got []string
		for _, tk := range Lex(c.s, c.m, false) {
			if tk.Kind != String {
				t.Fatalf("%q: token %v", c.s, tk)
			}
			got = append(got, tk.Val)
		}
		if !reflect.DeepEqual(got, c.vals) {
			t.Errorf("%q %+v: got %q want %q", c.s, c.m, got, c.vals)
		}
	}
}

func TestParamsAndSplit(t *testing.T) {
	offs, err := Params("select ?, '?', \"?\", `?`, 1 -- ?\n, ? # ?\n /* ? */ , ?", Mode{})
	if err != nil || !reflect.DeepEqual(offs, []int{7, 34, 51}) {
		t.Errorf("params %v %v", offs, err)
	}
	offs, _ = Params(`select "?" , ?`, Mode{AnsiQuotes: true})
	if !reflect.DeepEqual(offs, []int{13}) {
		t.Errorf("ansi params %v", offs)
	}
	if offs, _ = Params("select 1--?", Mode{}); len(offs) != 1 {
		t.Errorf("-- without space is not a comment: %v", offs)
	}
	p, err := Split("select ';' ; ; select `a;b` /* ; */ ;-- ;\n ; select 2", Mode{})
	want := []string{"select ';' ", " select `a;b` /* ; */ ", " select 2"}
	if err != nil || !reflect.DeepEqual(p, want) {
		t.Errorf("split %q %v", p, err)
	}
	if _, err = Split("select 'a", Mode{}); err == nil {
		t.Errorf("unterminated must fail")
	}
}

func TestParseMode(t *testing.T) {
	if m := ParseMode("'ansi_quotes,NO_BACKSLASH_ESCAPES'"); !m.AnsiQuotes || !m.NoBackslashEscapes {
		t.Errorf("%+v", m)
	}
	if m := ParseMode(""); m.AnsiQuotes || m.NoBackslashEscapes {
		t.Errorf("%+v", m)
	}
}
