package javaref

import (
	"math"
	"testing"
)

func js(s string) []uint16 { u, _ := JavaString(s); return u }

// Hand-computed: s[0]*31^(n-1) + ... (Java's String.hashCode recurrence in long arithmetic).
func TestStringHashHand(t *testing.T) {
	cases := []struct {
		s          string
		start, end int
		want       int64
	}{
		{"", 0, 0, 0},
		{"a", 0, 1, 97},
		{"ab", 0, 2, 97*31 + 98},
		{"abc", 0, 3, (97*31+98)*31 + 99},
		{"abc", 1, 3, 98*31 + 99},
		{"abc", -5, 99, (97*31+98)*31 + 99}, // clipped at both ends
		{"abc", 2, 1, 0},                    // empty slice
		{"中", 0, 1, 0x4E2D},
		{"中文", 0, 2, 0x4E2D*31 + 0x6587},
		{"𝄞", 0, 2, 0xD834*31 + 0xDD1E}, // U+1D11E = surrogate pair D834 DD1E
		{"𝄞", 0, 1, 0xD834},
		{"a𝄞b", 3, 4, 98}, // length() is 4: a, D834, DD1E, b
	}
	for _, c := range cases {
		if got := StringHash(js(c.s), c.start, c.end); got != c.want {
			t.Errorf("StringHash(%q,%d,%d)=%d want %d", c.s, c.start, c.end, got, c.want)
		}
	}
	if n := len(js("a𝄞b")); n != 4 {
		t.Errorf("length of a𝄞b = %d, want 4 UTF-16 units", n)
	}
	if n := len(js("中文ab")); n != 4 {
		t.Errorf("length of 中文ab = %d, want 4", n)
	}
	// long wrap-around: 13 chars of U+FFFF overflow 63 bits; recurrence computed with big steps by hand is
	// impractical, so check the algebraic identity h(n+1) = 31*h(n) + c under wrapping instead.
	s := make([]uint16, 20)
	for i := range s {
		s[i] = 0xFFFF
	}
	var h int64
	for i := 0; i < 20; i++ {
		h = h*31 + 0xFFFF
	}
	if got := StringHash(s, 0, 20); got != h {
		t.Errorf("wrap-around: got %d want %d", got, h)
	}
}

func TestSequenceSlicingJavadoc(t *testing.T) {
	cases := []struct {
		in   string
		s, e int
	}{{"2", 0, 2}, {"-2", -2, 0}, {"1:2", 1, 2}, {"1:", 1, 0}, {"-1:", -1, 0}, {":-1", 0, -1}, {":", 0, 0}, {" 1 : 2 ", 1, 2}, {"0:0", 0, 0}}
	for _, c := range cases {
		s, e, err := SequenceSlicing(c.in)
		if err != nil || s != c.s || e != c.e {
			t.Errorf("SequenceSlicing(%q)=(%d,%d,%v) want (%d,%d)", c.in, s, e, err, c.s, c.e)
		}
	}
	if _, _, err := SequenceSlicing("a:b"); err == nil {
		t.Errorf("a:b must fail")
	}
}

func TestPartitionByStringSlices(t *testing.T) {
	// 1024 nodes of length 1 would need count 1024; use 8x128 and check through the hash by hand.
	node := func(h int64) int { return int(h&1023) / 128 }
	mk := func(slice string) *PartitionByString {
		p, err := NewPartitionByString("8", "128", slice)
		if err != nil {
			t.Fatal(err)
		}
		return p
	}
	cases := []struct {
		slice, key string
		hash       int64
	}{
		{"2", "abc", 97*31 + 98},
		{"-2", "abc", 98*31 + 99},               // start = 3-2 = 1, end = 3+0 = 3
		{":-1", "abc", 97*31 + 98},              // end = 3-1
		{"1:", "abc", 98*31 + 99},               // end = length
		{":", "abc", (97*31+98)*31 + 99},        // whole string
		{"0:0", "abc", (97*31+98)*31 + 99},      // end 0 means length
		{"2:5", "abc", 99},                      // clipped
		{"-3:", "中文ab", (0x6587*31+97)*31 + 98}, // length 4: start = 1
		{":-1", "中文ab", (0x4E2D*31+0x6587)*31 + 97},
		{"-2", "a𝄞b", 0xDD1E*31 + 98}, // length 4: the low surrogate and b
		{"-3:", "ab", 97*31 + 98},     // start = -1 -> 0
	}
	for _, c := range cases {
		got, err := mk(c.slice).Calculate(c.key)
		if err != nil || got != node(c.hash) {
			t.Errorf("slice %q key %q: got %d,%v want node %d", c.slice, c.key, got, err, node(c.hash))
		}
	}
}

func TestPartitionUtilAndLong(t *testing.T) {
	p, err := NewPartitionByLong("2,1", "256,512")
	if err != nil {
		t.Fatal(err)
	}
	cases := map[string]int{"0": 0, "255": 0, "256": 1, "511": 1, "512": 2, "1023": 2, "1024": 0, "-1": 2, "-513": 1, "-769": 0,
		"9223372036854775807": 2, "-9223372036854775808": 0, "+5": 0, "0256": 1}
	for k, want := range cases {
		if got, err := p.Calculate(k); err != nil || got != want {
			t.Errorf("PartitionByLong(%s)=%d,%v want %d", k, got, err, want)
		}
	}
	for _, k := range []string{"", "-", "+", "abc", "1.5", " 1", "9223372036854775808", "-9223372036854775809", "1 "} {
		if _, err := p.Calculate(k); err != ErrNumberFormat {
			t.Errorf("PartitionByLong(%q) err=%v want NumberFormatException", k, err)
		}
	}
	if _, err := p.Calculate("１２"); err != ErrUndefined {
		t.Errorf("full-width digits must be undefined in this model, got %v", err)
	}
	if _, err := NewPartitionByLong("2,1", "256,256"); err == nil {
		t.Errorf("sum 768 must be refused")
	}
	if _, err := NewPartitionByLong("2", "256,512"); err == nil {
		t.Errorf("count/length size mismatch must be refused")
	}
}

func TestPartitionByModHand(t *testing.T) {
	cases := []struct {
		count int
		key   string
		want  int
	}{
		{3, "0", 0}, {3, "4", 1}, {3, "-4", 1}, {3, "-1", 1}, {5, "+7", 2}, {1, "12345", 0},
		{3, "-9223372036854775808", 2},  // 2^63 = 2*4^31 = 2 (mod 3)
		{3, "9223372036854775807", 1},   // 2^63-1
		{7, "18446744073709551616", 2},  // 2^64 = (2^3)^21*2 = 2 (mod 7)
		{16, "-9223372036854775808", 0}, // power of two
		{10, "123456789012345678901234567890", 0},
		{10, "-123456789012345678901234567891", 1},
	}
	for _, c := range cases {
		if got, err := PartitionByMod(c.count, c.key); err != nil || got != c.want {
			t.Errorf("PartitionByMod(%d,%s)=%d,%v want %d", c.count, c.key, got, err, c.want)
		}
	}
	for _, k := range []string{"", "-", "abc", "1.5", " 1", "1e3", "0x10"} {
		if _, err := PartitionByMod(3, k); err != ErrNumberFormat {
			t.Errorf("PartitionByMod(%q) err=%v want NumberFormatException", k, err)
		}
	}
}

// MurmurHash3_x86_32 verification vectors (SMHasher / the reference implementation), expressed
// as chars: hashUnencodedChars hashes the UTF-16LE bytes, so bytes 21 43 65 87 are the two
// chars U+4321 U+8765.
func TestMurmurVectors(t *testing.T) {
	cases := []struct {
		chars []uint16
		seed  uint32
		want  uint32
	}{
		{nil, 0, 0},
		{nil, 1, 0x514E28B7},
		{nil, 0xffffffff, 0x81F16F39},
		{[]uint16{0xFFFF, 0xFFFF}, 0, 0x76293B50},
		{[]uint16{0x4321, 0x8765}, 0, 0xF55B516B},
		{[]uint16{0x4321, 0x8765}, 0x5082EDEE, 0x2362F9DE},
		{[]uint16{0x4321}, 0, 0xA0F7B07A},
		{[]uint16{0, 0}, 0, 0x2362F9DE},
		{[]uint16{0}, 0, 0x30F4C306},
		{[]uint16{0x6161, 0x6161}, 0x9747b28c, 0x5A97808A}, // bytes "aaaa"
		{[]uint16{0x6161}, 0x9747b28c, 0x5D211726},         // bytes "aa"
		{[]uint16{0x6261, 0x6463}, 0x9747b28c, 0xF0478627}, // bytes "abcd"
		{[]uint16{0x6261}, 0x9747b28c, 0x74875592},         // bytes "ab"
	}
	for _, c := range cases {
		if got := uint32(Murmur3HashUnencodedChars(int32(c.seed), c.chars)); got != c.want {
			t.Errorf("murmur3(%x, seed %x)=%08x want %08x", c.chars, c.seed, got, c.want)
		}
	}
}

// Placements recorded from Mycat itself: the expectations of Gaea's
// proxy/router/shard_mycat_test.go, which states they "are calculated from mycat rule
// function". Used here only as a cross-check of this model on ASCII / BMP keys.
func TestRecordedFromMycat(t *testing.T) {
	m2 := NewPartitionByMurmurHash(0, 2, 160)
	for k, want := range map[string]int{"": 0, "hello, world": 0, "你好, 中国": 0, "?!)_FFSD": 1, "-47": 0, "-46": 1, "-45": 1, "-44": 0, "-43": 1} {
		if got, _ := m2.Calculate(k); got != want {
			t.Errorf("murmur seed0 count2 %q = %d want %d", k, got, want)
		}
	}
	m4 := NewPartitionByMurmurHash(1, 4, 160)
	for k, want := range map[string]int{"": 2, "hello, world": 1, "你好, 中国": 0, "?!)_FFSD": 1, "-50": 1, "-49": 0, "-47": 2, "-46": 3, "-43": 1} {
		if got, _ := m4.Calculate(k); got != want {
			t.Errorf("murmur seed1 count4 %q = %d want %d", k, got, want)
		}
	}
	s, err := NewPartitionByString("64", "16", "32")
	if err != nil {
		t.Fatal(err)
	}
	for k, want := range map[string]int{"": 0, "hello, world": 24, "你好, 中国": 40, "?!)_FFSD": 58, "ddda;kjelwr": 63, "-120123012": 4, "1029421093": 17, "-50": 56, "-13": 48, "-9": 26} {
		if got, _ := s.Calculate(k); got != want {
			t.Errorf("string 64x16 slice 32 %q = %d want %d", k, got, want)
		}
	}
}

func TestMurmurRing(t *testing.T) {
	// one node: everything goes to 0; tailMap wrap-around: a hash above the largest key takes the first key
	p := NewPartitionByMurmurHash(0, 1, 1)
	if len(p.keys) != 1 {
		t.Fatalf("ring size %d", len(p.keys))
	}
	for _, k := range []string{"", "a", "zzz"} {
		if got, _ := p.Calculate(k); got != 0 {
			t.Errorf("single node ring: %q -> %d", k, got)
		}
	}
	q := &PartitionByMurmurHash{seed: 0, keys: []int32{-10, 5}, val: map[int32]int{-10: 7, 5: 9}}
	h := Murmur3HashUnencodedChars(0, nil) // 0
	if h != 0 {
		t.Fatal("hash of empty string with seed 0 must be 0")
	}
	if got, _ := q.Calculate(""); got != 9 { // smallest key >= 0 is 5
		t.Errorf("tailMap lookup: got %d want 9", got)
	}
	q = &PartitionByMurmurHash{seed: 0, keys: []int32{math.MinInt32, -1}, val: map[int32]int{math.MinInt32: 3, -1: 4}}
	if got, _ := q.Calculate(""); got != 3 { // no key >= 0: first key
		t.Errorf("wrap-around: got %d want 3", got)
	}
	q = &PartitionByMurmurHash{seed: 0, keys: []int32{0, 8}, val: map[int32]int{0: 1, 8: 2}}
	if got, _ := q.Calculate(""); got != 1 { // tailMap is inclusive
		t.Errorf("inclusive bound: got %d want 1", got)
	}
}
