// Package javaref re-implements, from the Java sources' semantics, the four Mycat
// partition functions that Gaea's mycat_* rules claim compatibility with:
//
//	io.mycat.route.function.PartitionByMod          (BigInteger abs / mod)
//	io.mycat.route.function.PartitionByLong         (Long.parseLong, PartitionUtil)
//	io.mycat.route.function.PartitionByString       (PairUtil.sequenceSlicing, StringUtil.hash)
//	io.mycat.route.function.PartitionByMurmurHash   (Guava Murmur3_32.hashUnencodedChars, TreeMap.tailMap)
//
// Everything is written in terms of Java's data types: a Java String is a sequence of
// UTF-16 code units ([]uint16; String.length() = len, charAt(i) = s[i]), int is int32 with
// wrap-around, long is int64 with wrap-around, BigInteger is math/big.Int.
// Nothing here is derived from Gaea's Go code.
//
// Every Calculate function takes the column value as Mycat receives it: a string. An
// integer key k is the decimal string of k. Results: (dataNode index, nil), or an error
// where Mycat throws (NumberFormatException -> IllegalArgumentException), or ErrUndefined
// where this model does not define Java's behaviour (non-ASCII Unicode digits, which
// Character.digit accepts; strings that are not valid UTF-8 and so have no Java String).
package javaref

import (
	"errors"
	"fmt"
	"math/big"
	"sort"
	"strconv"
	"strings"
	"unicode"
	"unicode/utf16"
	"unicode/utf8"
)

var (
	// ErrNumberFormat stands for java.lang.NumberFormatException.
	ErrNumberFormat = errors.New("java.lang.NumberFormatException")
	// ErrUndefined marks inputs for which this model does not define Java's behaviour.
	ErrUndefined = errors.New("javaref: behaviour not modelled")
)

// JavaString converts a Go string (valid UTF-8) into the UTF-16 code units of the Java
// String holding the same text. ok is false for invalid UTF-8.
func JavaString(s string) (units []uint16, ok bool) {
	if !utf8.ValidString(s) {
		return nil, false
	}
	return utf16.Encode([]rune(s)), true
}

// asciiNumberBody checks the common grammar of new BigInteger(String) and
// Long.parseLong(String): an optional single '+' or '-' followed by at least one digit.
// Java accepts every Unicode decimal digit (Character.digit); this model defines ASCII
// digits only and reports ErrUndefined when another Unicode digit occurs.
func asciiNumberBody(s string) (neg bool, digits string, err error) {
	for _, r := range s {
		if r > unicode.MaxASCII && unicode.IsDigit(r) {
			return false, "", ErrUndefined
		}
	}
	if s == "" {
		return false, "", ErrNumberFormat
	}
	switch s[0] {
	case '-':
		neg, s = true, s[1:]
	case '+':
		s = s[1:]
	}
	if s == "" {
		return false, "", ErrNumberFormat
	}
	for i := 0; i < len(s); i++ {
		if s[i] < '0' || s[i] > '9' {
			return false, "", ErrNumberFormat
		}
	}
	return neg, s, nil
}

// NewBigInteger is new java.math.BigInteger(String) (radix 10).
func NewBigInteger(s string) (*big.Int, error) {
	neg, digits, err := asciiNumberBody(s)
	if err != nil {
		return nil, err
	}
	v, ok := new(big.Int).SetString(digits, 10)
	if !ok {
		return nil, ErrNumberFormat
	}
	if neg {
		v.Neg(v)
	}
	return v, nil
}

// ParseLong is java.lang.Long.parseLong(String).
func ParseLong(s string) (int64, error) {
	v, err := NewBigInteger(s)
	if err != nil {
		return 0, err
	}
	if !v.IsInt64() {
		return 0, ErrNumberFormat
	}
	return v.Int64(), nil
}

// ParseInt is java.lang.Integer.parseInt(String).
func ParseInt(s string) (int32, error) {
	v, err := ParseLong(s)
	if err != nil {
		return 0, err
	}
	if v < -1<<31 || v > 1<<31-1 {
		return 0, ErrNumberFormat
	}
	return int32(v), nil
}

// ---------------------------------------------------------------- PartitionByMod

// PartitionByMod:
//
//	BigInteger bigNum = new BigInteger(columnValue).abs();
//	return (bigNum.mod(BigInteger.valueOf(count))).intValue();
func PartitionByMod(count int, columnValue string) (int, error) {
	if count <= 0 {
		return 0, fmt.Errorf("java.lang.ArithmeticException: BigInteger: modulus not positive")
	}
	v, err := NewBigInteger(columnValue)
	if err != nil {
		return 0, err
	}
	v.Abs(v)
	v.Mod(v, big.NewInt(int64(count))) // BigInteger.mod: always non-negative
	return int(int32(v.Int64())), nil
}

// ---------------------------------------------------------------- PartitionUtil / PartitionByLong

const (
	partitionLength = 1024
	andValue        = int64(partitionLength - 1)
)

// PartitionUtil is io.mycat.route.util.PartitionUtil.
type PartitionUtil struct {
	segment [partitionLength]int
	Nodes   int // number of data nodes = sum of count
}

// NewPartitionUtil is PartitionUtil(int[] count, int[] length).
func NewPartitionUtil(count, length []int) (*PartitionUtil, error) {
	if count == nil || length == nil || len(count) != len(length) {
		return nil, errors.New("java.lang.RuntimeException: error,check your scope & scopeLength definition.")
	}
	segmentLength := 0
	for _, c := range count {
		if c < 0 {
			return nil, ErrUndefined
		}
		segmentLength += c
	}
	ai := make([]int, segmentLength+1)
	index := 0
	for i := range count {
		for j := 0; j < count[i]; j++ {
			index++
			ai[index] = ai[index-1] + length[i]
		}
	}
	if ai[len(ai)-1] != partitionLength {
		return nil, errors.New("java.lang.RuntimeException: error,check your partitionScope definition.")
	}
	p := &PartitionUtil{Nodes: segmentLength}
	for i := 1; i < len(ai); i++ {
		if ai[i-1] < 0 || ai[i] > partitionLength {
			return nil, ErrUndefined // ArrayIndexOutOfBounds in Java for negative lengths
		}
		for j := ai[i-1]; j < ai[i]; j++ {
			p.segment[j] = i - 1
		}
	}
	return p, nil
}

// Partition is PartitionUtil.partition(long hash): segment[(int)(hash & AND_VALUE)].
func (p *PartitionUtil) Partition(hash int64) int { return p.segment[int(hash&andValue)] }

// ToIntArray is the toIntArray helper of PartitionByLong/PartitionByString:
// SplitUtil.split(string, ',', true) (trimmed items) followed by Integer.parseInt.
func ToIntArray(s string) ([]int, error) {
	var out []int
	for _, it := range strings.Split(s, ",") {
		v, err := ParseInt(strings.TrimSpace(it))
		if err != nil {
			return nil, err
		}
		out = append(out, int(v))
	}
	return out, nil
}

// PartitionByLong: long key = Long.parseLong(columnValue); return partitionUtil.partition(key).
type PartitionByLong struct{ Util *PartitionUtil }

func NewPartitionByLong(partitionCount, partitionLength string) (*PartitionByLong, error) {
	c, err := ToIntArray(partitionCount)
	if err != nil {
		return nil, err
	}
	l, err := ToIntArray(partitionLength)
	if err != nil {
		return nil, err
	}
	u, err := NewPartitionUtil(c, l)
	if err != nil {
		return nil, err
	}
	return &PartitionByLong{Util: u}, nil
}

func (p *PartitionByLong) Calculate(columnValue string) (int, error) {
	k, err := ParseLong(columnValue)
	if err != nil {
		return 0, err
	}
	return p.Util.Partition(k), nil
}

// ---------------------------------------------------------------- PartitionByString

// SequenceSlicing is io.mycat.util.PairUtil.sequenceSlicing:
//
//	"2" -> (0,2)  "-2" -> (-2,0)  "1:2" -> (1,2)  "1:" -> (1,0)  "-1:" -> (-1,0)  ":-1" -> (0,-1)  ":" -> (0,0)
func SequenceSlicing(slice string) (start, end int, err error) {
	ind := strings.IndexByte(slice, ':')
	if ind < 0 {
		i, err := ParseInt(strings.TrimSpace(slice))
		if err != nil {
			return 0, 0, err
		}
		if i >= 0 {
			return 0, int(i), nil
		}
		return int(i), 0, nil
	}
	left := strings.TrimSpace(slice[:ind])
	right := strings.TrimSpace(slice[ind+1:])
	if left != "" {
		v, err := ParseInt(left)
		if err != nil {
			return 0, 0, err
		}
		start = int(v)
	}
	if right != "" {
		v, err := ParseInt(right)
		if err != nil {
			return 0, 0, err
		}
		end = int(v)
	}
	return start, end, nil
}

// StringHash is io.mycat.util.StringUtil.hash(String s, int start, int end):
//
//	if (start < 0) start = 0; if (end > s.length()) end = s.length();
//	long h = 0; for (int i = start; i < end; ++i) h = (h << 5) - h + s.charAt(i);
func StringHash(s []uint16, start, end int) int64 {
	if start < 0 {
		start = 0
	}
	if end > len(s) {
		end = len(s)
	}
	var h int64
	for i := start; i < end; i++ {
		h = (h << 5) - h + int64(s[i])
	}
	return h
}

type PartitionByString struct {
	Util                         *PartitionUtil
	HashSliceStart, HashSliceEnd int
}

func NewPartitionByString(partitionCount, partitionLength, hashSlice string) (*PartitionByString, error) {
	l, err := NewPartitionByLong(partitionCount, partitionLength)
	if err != nil {
		return nil, err
	}
	s, e, err := SequenceSlicing(hashSlice)
	if err != nil {
		return nil, err
	}
	return &PartitionByString{Util: l.Util, HashSliceStart: s, HashSliceEnd: e}, nil
}

// Calculate:
//
//	int start = hashSliceStart >= 0 ? hashSliceStart : key.length() + hashSliceStart;
//	int end = hashSliceEnd > 0 ? hashSliceEnd : key.length() + hashSliceEnd;
//	long hash = StringUtil.hash(key, start, end);
//	return partitionUtil.partition(hash);
func (p *PartitionByString) Calculate(key string) (int, error) {
	js, ok := JavaString(key)
	if !ok {
		return 0, ErrUndefined
	}
	start := p.HashSliceStart
	if start < 0 {
		start = len(js) + p.HashSliceStart
	}
	end := p.HashSliceEnd
	if end <= 0 {
		end = len(js) + p.HashSliceEnd
	}
	return p.Util.Partition(StringHash(js, start, end)), nil
}

// ---------------------------------------------------------------- Guava Murmur3_32

const (
	c1 = int32(-0x3361d2af) // 0xcc9e2d51
	c2 = int32(0x1b873593)
)

func rotl(x int32, n uint) int32 { return int32(uint32(x)<<n | uint32(x)>>(32-n)) }

func mixK1(k1 int32) int32 {
	k1 *= c1
	k1 = rotl(k1, 15)
	k1 *= c2
	return k1
}

func mixH1(h1, k1 int32) int32 {
	h1 ^= k1
	h1 = rotl(h1, 13)
	h1 = h1*5 + int32(-0x19ab949c) // 0xe6546b64
	return h1
}

func fmix(h1, length int32) int32 {
	h := uint32(h1) ^ uint32(length)
	h ^= h >> 16
	h *= 0x85ebca6b
	h ^= h >> 13
	h *= 0xc2b2ae35
	h ^= h >> 16
	return int32(h)
}

// Murmur3HashUnencodedChars is Hashing.murmur3_32(seed).hashUnencodedChars(input).asInt():
// two chars per 32-bit block (low char first), a trailing single char mixed as a tail,
// length = 2 * input.length().
func Murmur3HashUnencodedChars(seed int32, input []uint16) int32 {
	h1 := seed
	for i := 1; i < len(input); i += 2 {
		k1 := int32(uint32(input[i-1]) | uint32(input[i])<<16)
		k1 = mixK1(k1)
		h1 = mixH1(h1, k1)
	}
	if len(input)&1 == 1 {
		k1 := int32(input[len(input)-1])
		k1 = mixK1(k1)
		h1 ^= k1
	}
	return fmix(h1, int32(2*len(input)))
}

// ---------------------------------------------------------------- PartitionByMurmurHash

// PartitionByMurmurHash with the default weight 1 for every node (no weightMapFile).
type PartitionByMurmurHash struct {
	seed int32
	keys []int32       // sorted keys of the TreeMap<Integer,Integer>
	val  map[int32]int // bucketMap values
}

// NewPartitionByMurmurHash is init()/generateBucketMap():
//
//	for i in 0..count-1: StringBuilder hashName = "SHARD-" + i
//	  for n in 0..virtualBucketTimes*weight-1:
//	    bucketMap.put(hash.hashUnencodedChars(hashName.append("-NODE-").append(n)).asInt(), i)
//
// (the builder keeps growing: SHARD-0-NODE-0, SHARD-0-NODE-0-NODE-1, ...).
func NewPartitionByMurmurHash(seed int32, count, virtualBucketTimes int) *PartitionByMurmurHash {
	p := &PartitionByMurmurHash{seed: seed, val: map[int32]int{}}
	for i := 0; i < count; i++ {
		name := "SHARD-" + strconv.Itoa(i)
		for n := 0; n < virtualBucketTimes; n++ {
			name += "-NODE-" + strconv.Itoa(n)
			js, _ := JavaString(name)
			p.val[Murmur3HashUnencodedChars(seed, js)] = i // TreeMap.put replaces
		}
	}
	for k := range p.val {
		p.keys = append(p.keys, k)
	}
	sort.Slice(p.keys, func(a, b int) bool { return p.keys[a] < p.keys[b] })
	return p
}

// Calculate:
//
//	SortedMap<Integer,Integer> tail = bucketMap.tailMap(hash.hashUnencodedChars(columnValue).asInt());
//	if (tail.isEmpty()) return bucketMap.get(bucketMap.firstKey());
//	return tail.get(tail.firstKey());
func (p *PartitionByMurmurHash) Calculate(columnValue string) (int, error) {
	js, ok := JavaString(columnValue)
	if !ok {
		return 0, ErrUndefined
	}
	if len(p.keys) == 0 {
		return 0, errors.New("java.util.NoSuchElementException")
	}
	h := Murmur3HashUnencodedChars(p.seed, js)
	i := sort.Search(len(p.keys), func(i int) bool { return p.keys[i] >= h }) // tailMap is inclusive
	if i == len(p.keys) {
		i = 0
	}
	return p.val[p.keys[i]], nil
}
