package fakemysql

import (
	"fmt"
	"sort"
	"strconv"
	"strings"
)

// State is the modelled session state of one backend connection. Only settings that
// differ from the server default are stored: an absent variable has its default value.
//
// Semantics (MySQL reference manual, "SET Syntax for Variable Assignment"):
//   - SET NAMES x [COLLATE y] sets character_set_client/connection/results to x and the
//     connection collation to y (the default collation of x when omitted); explicit
//     character_set_* assignments made earlier are overwritten by it.
//   - SET a = 1, b = 2 assigns left to right; if any assignment fails the whole statement
//     fails and changes nothing (atomic).
//   - SET v = DEFAULT restores the server default; SET @u = NULL removes a user variable.
type State struct {
	Charset   string
	Collation string
	Vars      map[string]string // system variables explicitly set to a non-default value
	UserVars  map[string]string // without the leading '@', lower case
	DB        string
	Status    uint16
}

func newState(defCharset, defCollation string) *State {
	return &State{Charset: defCharset, Collation: defCollation, Vars: map[string]string{},
		UserVars: map[string]string{}, Status: statusAutocommit}
}

func (s *State) clone() *State {
	c := *s
	c.Vars = make(map[string]string, len(s.Vars))
	for k, v := range s.Vars {
		c.Vars[k] = v
	}
	c.UserVars = make(map[string]string, len(s.UserVars))
	for k, v := range s.UserVars {
		c.UserVars[k] = v
	}
	return &c
}

// Model is a stand-alone session model with the semantics of one backend connection: a
// check can feed it the SET statements a client issued to obtain the state a MySQL server
// would be in had it received them directly.
type Model struct {
	st         *State
	defCharset string
	extra      map[string]string
}

// NewModel returns a session in the server-default state.
func NewModel(defCharset string, extraVars map[string]string) *Model {
	if defCharset == "" {
		defCharset = "utf8mb4"
	}
	return &Model{st: newState(defCharset, defaultCollation[defCharset]), defCharset: defCharset, extra: extraVars}
}

// Exec applies a SET statement atomically; a non-SET statement is an error.
func (m *Model) Exec(sql string) error {
	as, isSet, perr := parseSet(sql)
	if !isSet {
		return fmt.Errorf("not a SET statement: %s", sql)
	}
	if perr != nil {
		return perr
	}
	scratch := m.st.clone()
	for _, a := range as {
		if e := scratch.apply(a, m.defCharset, m.extra); e != nil {
			return e
		}
	}
	m.st = scratch
	return nil
}

func (m *Model) Snapshot() Snapshot { return m.st.Snapshot() }

// Snapshot is an immutable copy of a State with a canonical rendering.
type Snapshot struct {
	Charset   string            `json:"charset"`
	Collation string            `json:"collation"`
	Vars      map[string]string `json:"vars,omitempty"`
	UserVars  map[string]string `json:"user_vars,omitempty"`
	DB        string            `json:"db,omitempty"`
}

func (s *State) Snapshot() Snapshot {
	c := s.clone()
	return Snapshot{Charset: c.Charset, Collation: c.Collation, Vars: c.Vars, UserVars: c.UserVars, DB: c.DB}
}

func renderMap(m map[string]string) string {
	ks := make([]string, 0, len(m))
	for k := range m {
		ks = append(ks, k)
	}
	sort.Strings(ks)
	var sb strings.Builder
	for i, k := range ks {
		if i > 0 {
			sb.WriteByte(',')
		}
		sb.WriteString(k + "=" + m[k])
	}
	return sb.String()
}

// String renders charset, collation, variables and user variables canonically (DB excluded).
func (s Snapshot) String() string {
	return fmt.Sprintf("names=%s/%s vars{%s} user{%s}", s.Charset, s.Collation, renderMap(s.Vars), renderMap(s.UserVars))
}

// ---- catalogue -----------------------------------------------------------------------

// defaultCollation of the character sets the fake knows.
var defaultCollation = map[string]string{
	"utf8mb4": "utf8mb4_general_ci",
	"utf8":    "utf8_general_ci",
	"latin1":  "latin1_swedish_ci",
	"gbk":     "gbk_chinese_ci",
	"ascii":   "ascii_general_ci",
	"binary":  "binary",
	"gb2312":  "gb2312_chinese_ci",
	"gb18030": "gb18030_chinese_ci",
	"utf16":   "utf16_general_ci",
}

// collationCharset of the collations the fake knows.
var collationCharset = map[string]string{
	"utf8mb4_general_ci": "utf8mb4", "utf8mb4_bin": "utf8mb4", "utf8mb4_unicode_ci": "utf8mb4",
	"utf8mb4_0900_ai_ci": "utf8mb4", "utf8mb4_unicode_520_ci": "utf8mb4",
	"utf8_general_ci": "utf8", "utf8_bin": "utf8", "utf8_unicode_ci": "utf8",
	"latin1_swedish_ci": "latin1", "latin1_bin": "latin1", "latin1_general_ci": "latin1", "latin1_german1_ci": "latin1",
	"gbk_chinese_ci": "gbk", "gbk_bin": "gbk",
	"ascii_general_ci": "ascii", "ascii_bin": "ascii",
	"gb2312_chinese_ci": "gb2312", "gb2312_bin": "gb2312",
	"gb18030_chinese_ci": "gb18030", "gb18030_bin": "gb18030",
	"utf16_general_ci": "utf16", "utf16_bin": "utf16",
	"binary": "binary",
}

// collationByID for the handshake's character-set byte.
var collationByID = map[byte]string{
	8: "latin1_swedish_ci", 47: "latin1_bin", 48: "latin1_general_ci", 5: "latin1_german1_ci",
	28: "gbk_chinese_ci", 87: "gbk_bin",
	33: "utf8_general_ci", 83: "utf8_bin", 192: "utf8_unicode_ci",
	45: "utf8mb4_general_ci", 46: "utf8mb4_bin", 224: "utf8mb4_unicode_ci", 246: "utf8mb4_unicode_520_ci", 255: "utf8mb4_0900_ai_ci",
	11: "ascii_general_ci", 65: "ascii_bin", 24: "gb2312_chinese_ci", 86: "gb2312_bin",
	248: "gb18030_chinese_ci", 249: "gb18030_bin",
	54: "utf16_general_ci", 55: "utf16_bin", 63: "binary",
}

var sqlModes = map[string]bool{
	"ALLOW_INVALID_DATES": true, "ANSI_QUOTES": true, "ERROR_FOR_DIVISION_BY_ZERO": true,
	"HIGH_NOT_PRECEDENCE": true, "IGNORE_SPACE": true, "NO_AUTO_CREATE_USER": true,
	"NO_AUTO_VALUE_ON_ZERO": true, "NO_BACKSLASH_ESCAPES": true, "NO_DIR_IN_CREATE": true,
	"NO_ENGINE_SUBSTITUTION": true, "NO_FIELD_OPTIONS": true, "NO_KEY_OPTIONS": true,
	"NO_TABLE_OPTIONS": true, "NO_UNSIGNED_SUBTRACTION": true, "NO_ZERO_DATE": true,
	"NO_ZERO_IN_DATE": true, "ONLY_FULL_GROUP_BY": true, "PAD_CHAR_TO_FULL_LENGTH": true,
	"PIPES_AS_CONCAT": true, "REAL_AS_FLOAT": true, "STRICT_ALL_TABLES": true,
	"STRICT_TRANS_TABLES": true, "ANSI": true, "TRADITIONAL": true,
}

type varKind int

const (
	kindInt varKind = iota
	kindBool
	kindString
	kindSQLMode
	kindTimeZone
	kindCharset
)

var systemVars = map[string]varKind{
	"sql_mode": kindSQLMode, "time_zone": kindTimeZone,
	"sql_select_limit": kindInt, "group_concat_max_len": kindInt, "lock_wait_timeout": kindInt,
	"max_execution_time": kindInt, "innodb_lock_wait_timeout": kindInt, "net_write_timeout": kindInt,
	"net_read_timeout": kindInt, "wait_timeout": kindInt, "interactive_timeout": kindInt,
	"max_join_size": kindInt, "sort_buffer_size": kindInt, "long_query_time": kindInt,
	"sql_safe_updates": kindBool, "tx_read_only": kindBool, "transaction_read_only": kindBool,
	"unique_checks": kindBool, "foreign_key_checks": kindBool, "sql_auto_is_null": kindBool,
	"transaction_isolation": kindString, "tx_isolation": kindString,
	"character_set_client": kindCharset, "character_set_connection": kindCharset, "character_set_results": kindCharset,
}

// SQLError is an ERR packet.
type SQLError struct {
	Code  uint16
	State string
	Msg   string
}

func (e *SQLError) Error() string { return fmt.Sprintf("ERROR %d (%s): %s", e.Code, e.State, e.Msg) }

func errSyntax(near string) *SQLError {
	return &SQLError{1064, "42000", "You have an error in your SQL syntax; near '" + near + "'"}
}

// ---- SET parsing ----------------------------------------------------------------------

type token struct {
	kind byte // 'w' word, 's' quoted string, 'q' back-quoted identifier, or the symbol itself
	text string
}

func tokenize(sql string) ([]token, *SQLError) {
	var out []token
	i := 0
	for i < len(sql) {
		c := sql[i]
		switch {
		case c == ' ' || c == '\t' || c == '\n' || c == '\r':
			i++
		case c == '/' && i+1 < len(sql) && sql[i+1] == '*':
			j := strings.Index(sql[i+2:], "*/")
			if j < 0 {
				return nil, errSyntax(sql[i:])
			}
			i += j + 4
		case c == '\'' || c == '"' || c == '`':
			var sb strings.Builder
			j := i + 1
			closed := false
			for j < len(sql) {
				d := sql[j]
				if d == '\\' && c != '`' && j+1 < len(sql) {
					sb.WriteByte(sql[j+1])
					j += 2
					continue
				}
				if d == c {
					if j+1 < len(sql) && sql[j+1] == c {
						sb.WriteByte(c)
						j += 2
						continue
					}
					closed = true
					j++
					break
				}
				sb.WriteByte(d)
				j++
			}
			if !closed {
				return nil, errSyntax(sql[i:])
			}
			k := byte('s')
			if c == '`' {
				k = 'q'
			}
			out = append(out, token{k, sb.String()})
			i = j
		case c == ',' || c == '=' || c == ';' || c == '(' || c == ')':
			out = append(out, token{c, string(c)})
			i++
		case c == ':' && i+1 < len(sql) && sql[i+1] == '=':
			out = append(out, token{'=', ":="})
			i += 2
		default:
			j := i
			for j < len(sql) {
				d := sql[j]
				if d == ' ' || d == '\t' || d == '\n' || d == '\r' || d == ',' || d == '=' || d == ';' ||
					d == '\'' || d == '"' || d == '`' || d == '(' || d == ')' {
					break
				}
				if d == ':' && j+1 < len(sql) && sql[j+1] == '=' {
					break
				}
				j++
			}
			out = append(out, token{'w', sql[i:j]})
			i = j
		}
	}
	return out, nil
}

type assignment struct {
	names     bool // SET NAMES
	charset   string
	collation string // "" = default of charset
	user      bool
	name      string
	value     string
	quoted    bool
	isDefault bool // bare DEFAULT
	isNull    bool // bare NULL
}

// parseSet parses "SET ..." into assignments. ok=false: not a SET statement.
func parseSet(sql string) (as []assignment, isSet bool, perr *SQLError) {
	toks, err := tokenize(sql)
	if err != nil {
		if len(sql) >= 3 && strings.EqualFold(strings.TrimSpace(sql)[:3], "set") {
			return nil, true, err
		}
		return nil, false, nil
	}
	if len(toks) == 0 || toks[0].kind != 'w' || !strings.EqualFold(toks[0].text, "set") {
		return nil, false, nil
	}
	toks = toks[1:]
	for len(toks) > 0 && toks[len(toks)-1].kind == ';' {
		toks = toks[:len(toks)-1]
	}
	if len(toks) == 0 {
		return nil, true, errSyntax("")
	}
	pos := 0
	next := func() *token {
		if pos < len(toks) {
			pos++
			return &toks[pos-1]
		}
		return nil
	}
	peek := func() *token {
		if pos < len(toks) {
			return &toks[pos]
		}
		return nil
	}
	for {
		t := next()
		if t == nil {
			return nil, true, errSyntax("")
		}
		var a assignment
		if t.kind == 'w' && strings.EqualFold(t.text, "names") && (peek() == nil || peek().kind != '=') {
			v := next()
			if v == nil || (v.kind != 'w' && v.kind != 's' && v.kind != 'q') {
				return nil, true, errSyntax("names")
			}
			a.names = true
			a.charset = strings.ToLower(v.text)
			if v.kind == 'w' && strings.EqualFold(v.text, "default") {
				a.isDefault = true
			}
			if p := peek(); p != nil && p.kind == 'w' && strings.EqualFold(p.text, "collate") {
				next()
				c := next()
				if c == nil || (c.kind != 'w' && c.kind != 's' && c.kind != 'q') {
					return nil, true, errSyntax("collate")
				}
				if !(c.kind == 'w' && strings.EqualFold(c.text, "default")) {
					a.collation = strings.ToLower(c.text)
				}
			}
		} else {
			// optional scope keyword
			if t.kind == 'w' {
				switch strings.ToLower(t.text) {
				case "global", "persist", "persist_only":
					return nil, true, &SQLError{1227, "42000", "Access denied; you need (at least one of) the SUPER privilege(s) for this operation"}
				case "session", "local":
					if p := peek(); p != nil && p.kind != '=' {
						t = next()
					}
				}
			}
			if t.kind != 'w' && t.kind != 'q' {
				return nil, true, errSyntax(t.text)
			}
			name := t.text
			if t.kind == 'w' && strings.HasPrefix(name, "@") && !strings.HasPrefix(name, "@@") {
				a.user = true
				name = name[1:]
				if name == "" {
					// @`quoted` or @'quoted'
					q := next()
					if q == nil || (q.kind != 'q' && q.kind != 's') {
						return nil, true, errSyntax("@")
					}
					name = q.text
				}
			} else {
				l := strings.ToLower(name)
				for _, p := range []string{"@@session.", "@@local.", "@@"} {
					if strings.HasPrefix(l, p) {
						name = name[len(p):]
						break
					}
				}
				if strings.HasPrefix(l, "@@global.") {
					return nil, true, &SQLError{1227, "42000", "Access denied; you need (at least one of) the SUPER privilege(s) for this operation"}
				}
				if name == "" {
					q := next()
					if q == nil || q.kind != 'q' {
						return nil, true, errSyntax("@@")
					}
					name = q.text
				}
			}
			a.name = strings.ToLower(name)
			eq := next()
			if eq == nil || eq.kind != '=' {
				return nil, true, errSyntax(a.name)
			}
			v := next()
			if v == nil || (v.kind != 'w' && v.kind != 's') {
				return nil, true, errSyntax(a.name + " =")
			}
			a.value = v.text
			a.quoted = v.kind == 's'
			if v.kind == 'w' {
				switch strings.ToLower(v.text) {
				case "default":
					a.isDefault = true
				case "null":
					a.isNull = true
				}
			}
		}
		as = append(as, a)
		sep := next()
		if sep == nil {
			return as, true, nil
		}
		if sep.kind != ',' {
			return nil, true, errSyntax(sep.text)
		}
	}
}

func isInt(s string) bool {
	_, err := strconv.ParseInt(s, 10, 64)
	return err == nil
}

func validTimeZone(v string) bool {
	if strings.EqualFold(v, "system") || strings.EqualFold(v, "utc") {
		return true
	}
	if len(v) < 5 || (v[0] != '+' && v[0] != '-') {
		return strings.Contains(v, "/") // named zone like Asia/Shanghai
	}
	p := strings.Split(v[1:], ":")
	if len(p) != 2 {
		return false
	}
	h, e1 := strconv.Atoi(p[0])
	m, e2 := strconv.Atoi(p[1])
	if e1 != nil || e2 != nil || m < 0 || m > 59 {
		return false
	}
	t := h*60 + m
	if v[0] == '-' {
		return t <= 12*60+59
	}
	return t <= 13*60
}

// apply executes one assignment on st (a scratch copy). extra lists additional known
// system variables (name -> "int"|"string"|"bool").
func (st *State) apply(a assignment, defCharset string, extra map[string]string) *SQLError {
	if a.names {
		cs := a.charset
		if a.isDefault {
			cs = defCharset
		}
		def, ok := defaultCollation[cs]
		if !ok {
			return &SQLError{1115, "42000", "Unknown character set: '" + cs + "'"}
		}
		co := def
		if a.collation != "" {
			ccs, ok := collationCharset[a.collation]
			if !ok {
				return &SQLError{1273, "HY000", "Unknown collation: '" + a.collation + "'"}
			}
			if ccs != cs {
				return &SQLError{1253, "42000", "COLLATION '" + a.collation + "' is not valid for CHARACTER SET '" + cs + "'"}
			}
			co = a.collation
		}
		st.Charset, st.Collation = cs, co
		delete(st.Vars, "character_set_client")
		delete(st.Vars, "character_set_connection")
		delete(st.Vars, "character_set_results")
		return nil
	}
	if a.user {
		n := strings.ToLower(a.name)
		if a.isNull {
			delete(st.UserVars, n)
			return nil
		}
		if a.isDefault {
			return errSyntax("DEFAULT")
		}
		if !a.quoted && !isInt(a.value) {
			if _, err := strconv.ParseFloat(a.value, 64); err != nil {
				return errSyntax(a.value) // expressions are not modelled
			}
		}
		if a.quoted {
			st.UserVars[n] = "'" + a.value + "'"
		} else {
			st.UserVars[n] = a.value
		}
		return nil
	}
	if a.name == "autocommit" {
		switch strings.ToLower(a.value) {
		case "1", "on", "default":
			st.Status |= statusAutocommit
			st.Status &^= statusInTrans
		case "0", "off":
			st.Status &^= statusAutocommit
		default:
			return &SQLError{1231, "42000", "Variable 'autocommit' can't be set to the value of '" + a.value + "'"}
		}
		return nil
	}
	kind, ok := systemVars[a.name]
	if !ok {
		switch extra[a.name] {
		case "int":
			kind, ok = kindInt, true
		case "bool":
			kind, ok = kindBool, true
		case "string":
			kind, ok = kindString, true
		}
	}
	if !ok {
		return &SQLError{1193, "HY000", "Unknown system variable '" + a.name + "'"}
	}
	if a.isDefault {
		if kind == kindCharset {
			st.Vars[a.name] = defCharset
			if st.Vars[a.name] == st.Charset {
				delete(st.Vars, a.name)
			}
			return nil
		}
		delete(st.Vars, a.name)
		return nil
	}
	wrong := func() *SQLError {
		return &SQLError{1231, "42000", "Variable '" + a.name + "' can't be set to the value of '" + a.value + "'"}
	}
	if a.isNull {
		if a.name == "character_set_results" {
			st.Vars[a.name] = "NULL"
			return nil
		}
		return wrong()
	}
	v := a.value
	switch kind {
	case kindInt:
		if !isInt(v) {
			return &SQLError{1232, "42000", "Incorrect argument type to variable '" + a.name + "'"}
		}
		n, _ := strconv.ParseInt(v, 10, 64)
		v = strconv.FormatInt(n, 10)
	case kindBool:
		switch strings.ToLower(v) {
		case "1", "on", "true":
			v = "1"
		case "0", "off", "false":
			v = "0"
		default:
			return wrong()
		}
	case kindSQLMode:
		if isInt(v) && !a.quoted {
			break
		}
		v = strings.ToUpper(v)
		if v != "" {
			for _, m := range strings.Split(v, ",") {
				if !sqlModes[m] {
					a.value = m
					return wrong()
				}
			}
		}
	case kindTimeZone:
		if !validTimeZone(v) {
			return &SQLError{1298, "HY000", "Unknown or incorrect time zone: '" + v + "'"}
		}
	case kindCharset:
		v = strings.ToLower(v)
		if _, ok := defaultCollation[v]; !ok {
			return &SQLError{1115, "42000", "Unknown character set: '" + v + "'"}
		}
		if v == st.Charset {
			delete(st.Vars, a.name)
			return nil
		}
	case kindString:
		v = strings.ToUpper(v)
	}
	st.Vars[a.name] = v
	return nil
}
