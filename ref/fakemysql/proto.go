// Package fakemysql is an in-process MySQL server on 127.0.0.1:0 speaking just enough of
// the client/server protocol for Gaea's backend.DirectConnection: handshake v10 with
// mysql_native_password (any password is accepted), COM_QUERY (OK / ERR / text result sets
// with classic EOF framing), COM_INIT_DB, COM_PING, COM_QUIT, COM_FIELD_LIST.
//
// It is written from the protocol description and does not import any Gaea package: the
// session-state semantics (session.go) and the framing (this file) are independent of the
// code under test.
package fakemysql

import (
	"bufio"
	"encoding/binary"
	"errors"
	"fmt"
	"hash/crc32"
	"io"
	"net"
)

const maxPacket = 1<<24 - 1

// capability flags (protocol documentation names)
const (
	capLongPassword     = 1 << 0
	capFoundRows        = 1 << 1
	capLongFlag         = 1 << 2
	capConnectWithDB    = 1 << 3
	capProtocol41       = 1 << 9
	capTransactions     = 1 << 13
	capSecureConnection = 1 << 15
	capMultiStatements  = 1 << 16
	capMultiResults     = 1 << 17
	capPluginAuth       = 1 << 19
)

const (
	statusInTrans    = 0x0001
	statusAutocommit = 0x0002
)

const (
	comQuit      = 0x01
	comInitDB    = 0x02
	comQuery     = 0x03
	comFieldList = 0x04
	comPing      = 0x0e
)

const (
	typeVarString = 253
	typeLongLong  = 8
)

// pconn is the packet layer of one accepted connection.
type pconn struct {
	c   net.Conn
	r   *bufio.Reader
	w   *bufio.Writer
	seq uint8
}

func newPconn(c net.Conn) *pconn {
	return &pconn{c: c, r: bufio.NewReaderSize(c, 16<<10), w: bufio.NewWriterSize(c, 64<<10)}
}

// readPacket reads one logical packet (re-assembling 0xffffff continuation packets).
func (p *pconn) readPacket() ([]byte, error) {
	var out []byte
	for {
		var h [4]byte
		if _, err := io.ReadFull(p.r, h[:]); err != nil {
			return nil, err
		}
		n := int(h[0]) | int(h[1])<<8 | int(h[2])<<16
		if h[3] != p.seq {
			return nil, fmt.Errorf("fakemysql: sequence %d, expected %d", h[3], p.seq)
		}
		p.seq++
		if n > 0 {
			old := len(out)
			out = append(out, make([]byte, n)...)
			if _, err := io.ReadFull(p.r, out[old:]); err != nil {
				return nil, err
			}
		}
		if n < maxPacket {
			return out, nil
		}
	}
}

// writePacket writes one logical packet, split into 0xffffff chunks (+ an empty trailer
// when the length is a multiple of 0xffffff).
func (p *pconn) writePacket(data []byte) error {
	for {
		n := len(data)
		if n > maxPacket {
			n = maxPacket
		}
		h := [4]byte{byte(n), byte(n >> 8), byte(n >> 16), p.seq}
		p.seq++
		if _, err := p.w.Write(h[:]); err != nil {
			return err
		}
		if _, err := p.w.Write(data[:n]); err != nil {
			return err
		}
		data = data[n:]
		if n < maxPacket {
			return nil
		}
	}
}

// streamWriter writes one logical packet of a length known in advance without holding
// it in memory.
type streamWriter struct {
	p      *pconn
	left   int // bytes of the logical packet still to come
	inPkt  int // bytes still to write in the current physical packet
	opened bool
	total  int
}

func (p *pconn) startStream(total int) *streamWriter {
	return &streamWriter{p: p, left: total, total: total}
}

func (s *streamWriter) Write(b []byte) (int, error) {
	done := 0
	for len(b) > 0 {
		if s.inPkt == 0 {
			n := s.left
			if n > maxPacket {
				n = maxPacket
			}
			h := [4]byte{byte(n), byte(n >> 8), byte(n >> 16), s.p.seq}
			s.p.seq++
			if _, err := s.p.w.Write(h[:]); err != nil {
				return done, err
			}
			s.inPkt = n
			s.opened = true
		}
		n := len(b)
		if n > s.inPkt {
			n = s.inPkt
		}
		if _, err := s.p.w.Write(b[:n]); err != nil {
			return done, err
		}
		b = b[n:]
		s.inPkt -= n
		s.left -= n
		done += n
	}
	return done, nil
}

// finish writes the empty trailer packet when the logical length is a multiple of
// 0xffffff (including zero).
func (s *streamWriter) finish() error {
	if s.left != 0 {
		return errors.New("fakemysql: stream short")
	}
	if s.total%maxPacket == 0 {
		h := [4]byte{0, 0, 0, s.p.seq}
		s.p.seq++
		_, err := s.p.w.Write(h[:])
		return err
	}
	return nil
}

func (p *pconn) flush() error { return p.w.Flush() }

func putLenEncInt(b []byte, v uint64) []byte {
	switch {
	case v < 251:
		return append(b, byte(v))
	case v < 1<<16:
		return append(b, 0xfc, byte(v), byte(v>>8))
	case v < 1<<24:
		return append(b, 0xfd, byte(v), byte(v>>8), byte(v>>16))
	default:
		var x [8]byte
		binary.LittleEndian.PutUint64(x[:], v)
		return append(append(b, 0xfe), x[:]...)
	}
}

func putLenEncStr(b []byte, s string) []byte {
	b = putLenEncInt(b, uint64(len(s)))
	return append(b, s...)
}

func (p *pconn) writeOK(affected, insertID uint64, status uint16) error {
	b := []byte{0x00}
	b = putLenEncInt(b, affected)
	b = putLenEncInt(b, insertID)
	b = append(b, byte(status), byte(status>>8), 0, 0)
	if err := p.writePacket(b); err != nil {
		return err
	}
	return p.flush()
}

func (p *pconn) writeEOF(status uint16) error {
	return p.writePacket([]byte{0xfe, 0, 0, byte(status), byte(status >> 8)})
}

func (p *pconn) writeErr(code uint16, state, msg string) error {
	if len(state) != 5 {
		state = "HY000"
	}
	b := []byte{0xff, byte(code), byte(code >> 8), '#'}
	b = append(b, state...)
	b = append(b, msg...)
	if err := p.writePacket(b); err != nil {
		return err
	}
	return p.flush()
}

func columnDef(schema, table, name string, typ byte, charset uint16, withDefault bool) []byte {
	var b []byte
	b = putLenEncStr(b, "def")
	b = putLenEncStr(b, schema)
	b = putLenEncStr(b, table)
	b = putLenEncStr(b, table)
	b = putLenEncStr(b, name)
	b = putLenEncStr(b, name)
	b = append(b, 0x0c, byte(charset), byte(charset>>8))
	b = append(b, 0xff, 0xff, 0xff, 0x00) // column length
	b = append(b, typ, 0, 0, 0, 0, 0)     // type, flags(2), decimals, filler(2)
	if withDefault {
		b = append(b, 0xfb) // NULL default (COM_FIELD_LIST)
	}
	return b
}

// ---- generated rows ----------------------------------------------------------------

const blockSize = 4096

func splitmix(x *uint64) uint64 {
	*x += 0x9e3779b97f4a7c15
	z := *x
	z = (z ^ (z >> 30)) * 0xbf58476d1ce4e5b9
	z = (z ^ (z >> 27)) * 0x94d049bb133111eb
	return z ^ (z >> 31)
}

// rowBlock is the 4 KiB pattern whose repetition (cut to the row size) is the value of
// row i of a generated result with the given seed.
func rowBlock(seed uint64, i int, need int) []byte {
	x := seed*0x100000001b3 + uint64(i)*0x9e3779b97f4a7c15 + 1
	n := blockSize
	if need < n {
		n = (need + 7) &^ 7
	}
	b := make([]byte, n)
	for k := 0; k < n; k += 8 {
		binary.LittleEndian.PutUint64(b[k:], splitmix(&x))
	}
	return b
}

// RowSum is the CRC-32 (IEEE) of the value of row i (size bytes) of a generated result.
func RowSum(seed uint64, i int, size int) uint32 {
	blk := rowBlock(seed, i, size)
	h := crc32.NewIEEE()
	for left := size; left > 0; {
		n := left
		if n > blockSize {
			n = blockSize
		}
		h.Write(blk[:n])
		left -= n
	}
	return h.Sum32()
}

// writeGeneratedRow streams a text-protocol row with one column of `size` bytes.
func (p *pconn) writeGeneratedRow(seed uint64, i int, size int) error {
	hdr := putLenEncInt(nil, uint64(size))
	sw := p.startStream(len(hdr) + size)
	if _, err := sw.Write(hdr); err != nil {
		return err
	}
	blk := rowBlock(seed, i, size)
	for left := size; left > 0; {
		n := left
		if n > blockSize {
			n = blockSize
		}
		if _, err := sw.Write(blk[:n]); err != nil {
			return err
		}
		left -= n
	}
	return sw.finish()
}
