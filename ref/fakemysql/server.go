package fakemysql

import (
	"net"
	"strings"
	"sync"
	"sync/atomic"
)

// Result is the answer to a COM_QUERY: an OK packet (Cols == nil), or a text result set
// with literal Rows, or N generated rows of one column of Size bytes each (Gen != nil).
type Result struct {
	Err      *SQLError
	Affected uint64
	InsertID uint64
	Cols     []string   // column names (all VAR_STRING, binary charset)
	Rows     [][]string // literal rows; the value "\x00NULL" is sent as NULL
	Gen      *Gen
}

// Gen describes generated rows: row i has one column whose value is Size bytes, a
// function of (Seed, i) only; see RowSum (the last row may have its own size).
type Gen struct {
	N    int
	Size int
	Seed uint64
	// LastSize > 0: the last row has this size instead of Size
	LastSize int
	// HeadN > 0: the first HeadN rows have size HeadSize instead of Size
	HeadN    int
	HeadSize int
}

// SizeOf is the size of row i.
func (g *Gen) SizeOf(i int) int {
	if i < g.HeadN {
		return g.HeadSize
	}
	if g.LastSize > 0 && i == g.N-1 {
		return g.LastSize
	}
	return g.Size
}

// Null is the literal that Rows uses for SQL NULL.
const Null = "\x00NULL"

// Entry is one logged command.
type Entry struct {
	Seq      int      `json:"seq"`  // global order of arrival at this server
	Conn     uint32   `json:"conn"` // connection id
	Kind     string   `json:"kind"` // query | set | initdb | ping | fieldlist | connect | quit
	SQL      string   `json:"sql,omitempty"`
	State    Snapshot `json:"state"` // session state when the command was executed (for set: after it)
	Rejected string   `json:"rejected,omitempty"`
	RowsSent int      `json:"rows_sent,omitempty"` // rows completely written to the socket
	RowsMade int      `json:"rows_made,omitempty"` // rows the result consists of
}

// Options configure a Server.
type Options struct {
	Name string
	// Query answers a COM_QUERY that is not handled by the session model (SET) or the
	// built-in trivial statements. nil or a nil return value: built-in default.
	Query func(c *ConnInfo, sql string) *Result
	// ExtraVars are additional known system variables: name -> "int"|"string"|"bool".
	ExtraVars      map[string]string
	DefaultCharset string // default utf8mb4
	Version        string // default 5.7.25-fakemysql
	// NoLog disables the command log (large enumerations that do not read it).
	NoLog bool
}

// ConnInfo is what a Query callback may look at.
type ConnInfo struct {
	ID    uint32
	State Snapshot
}

type Server struct {
	opts   Options
	ln     net.Listener
	nextID uint32

	mu        sync.Mutex
	log       []Entry
	seq       int
	rejectSet int // fault injection: reject that many following SET statements
	conns     map[uint32]net.Conn
	states    map[uint32]*State
	closed    bool
	wg        sync.WaitGroup
}

// Start listens on 127.0.0.1:0 and serves until Close.
func Start(opts Options) (*Server, error) {
	if opts.DefaultCharset == "" {
		opts.DefaultCharset = "utf8mb4"
	}
	if opts.Version == "" {
		opts.Version = "5.7.25-fakemysql"
	}
	ln, err := net.Listen("tcp4", "127.0.0.1:0")
	if err != nil {
		return nil, err
	}
	s := &Server{opts: opts, ln: ln, conns: map[uint32]net.Conn{}, states: map[uint32]*State{}}
	s.wg.Add(1)
	go s.acceptLoop()
	return s, nil
}

func (s *Server) Addr() string { return s.ln.Addr().String() }

// Close stops listening, closes every connection and waits for the handlers.
func (s *Server) Close() {
	s.mu.Lock()
	if s.closed {
		s.mu.Unlock()
		return
	}
	s.closed = true
	for _, c := range s.conns {
		c.Close()
	}
	s.mu.Unlock()
	s.ln.Close()
	s.wg.Wait()
}

// Log returns a copy of the command log.
func (s *Server) Log() []Entry {
	s.mu.Lock()
	defer s.mu.Unlock()
	out := make([]Entry, len(s.log))
	copy(out, s.log)
	return out
}

// LogLen returns the current length of the log (a cursor for LogSince).
func (s *Server) LogLen() int {
	s.mu.Lock()
	defer s.mu.Unlock()
	return len(s.log)
}

// LogSince returns the entries appended after the cursor.
func (s *Server) LogSince(n int) []Entry {
	s.mu.Lock()
	defer s.mu.Unlock()
	if n > len(s.log) {
		n = len(s.log)
	}
	out := make([]Entry, len(s.log)-n)
	copy(out, s.log[n:])
	return out
}

// ResetLog empties the command log and clears a pending injected rejection.
func (s *Server) ResetLog() {
	s.mu.Lock()
	s.log = nil
	s.seq = 0
	s.rejectSet = 0
	s.mu.Unlock()
}

// PendingRejects is the number of injected rejections not yet consumed.
func (s *Server) PendingRejects() int {
	s.mu.Lock()
	defer s.mu.Unlock()
	return s.rejectSet
}

// SetVersion changes the server version announced to NEW connections. A version starting
// with "5." also makes the server reject MySQL 8.0 collations (utf8mb4_0900_*) with 1273.
func (s *Server) SetVersion(v string) {
	s.mu.Lock()
	s.opts.Version = v
	s.mu.Unlock()
}

// RejectNextSet makes the server reject the next n SET statements (any connection)
// atomically with error 1205, whatever their content.
func (s *Server) RejectNextSet(n int) {
	s.mu.Lock()
	s.rejectSet = n
	s.mu.Unlock()
}

// OpenConns is the number of currently open client connections.
func (s *Server) OpenConns() int {
	s.mu.Lock()
	defer s.mu.Unlock()
	return len(s.conns)
}

// StateOf returns the current modelled state of an open connection.
func (s *Server) StateOf(id uint32) (Snapshot, bool) {
	s.mu.Lock()
	defer s.mu.Unlock()
	st, ok := s.states[id]
	if !ok {
		return Snapshot{}, false
	}
	return st.Snapshot(), true
}

func (s *Server) pre80() bool {
	s.mu.Lock()
	defer s.mu.Unlock()
	return strings.HasPrefix(s.opts.Version, "5.")
}

func (s *Server) record(e Entry) int {
	if s.opts.NoLog {
		return -1
	}
	s.mu.Lock()
	s.seq++
	e.Seq = s.seq
	s.log = append(s.log, e)
	idx := len(s.log) - 1
	s.mu.Unlock()
	return idx
}

func (s *Server) acceptLoop() {
	defer s.wg.Done()
	for {
		c, err := s.ln.Accept()
		if err != nil {
			return
		}
		id := atomic.AddUint32(&s.nextID, 1)
		s.mu.Lock()
		if s.closed {
			s.mu.Unlock()
			c.Close()
			return
		}
		s.conns[id] = c
		s.wg.Add(1)
		s.mu.Unlock()
		go func() {
			defer s.wg.Done()
			s.serve(id, c)
			c.Close()
			s.mu.Lock()
			delete(s.conns, id)
			delete(s.states, id)
			s.mu.Unlock()
		}()
	}
}

func (s *Server) serve(id uint32, c net.Conn) {
	if tc, ok := c.(*net.TCPConn); ok {
		tc.SetNoDelay(true)
	}
	p := newPconn(c)
	serverCaps := uint32(capLongPassword | capFoundRows | capLongFlag | capConnectWithDB | capProtocol41 |
		capTransactions | capSecureConnection | capMultiStatements | capMultiResults | capPluginAuth)
	salt := []byte("abcdefghijklmnopqrst")
	defColl := defaultCollation[s.opts.DefaultCharset]
	var defID byte = 45
	for k, v := range collationByID {
		if v == defColl {
			defID = k
		}
	}
	// initial handshake v10
	var g []byte
	g = append(g, 10)
	s.mu.Lock()
	version := s.opts.Version
	s.mu.Unlock()
	g = append(g, version...)
	g = append(g, 0)
	g = append(g, byte(id), byte(id>>8), byte(id>>16), byte(id>>24))
	g = append(g, salt[:8]...)
	g = append(g, 0)
	g = append(g, byte(serverCaps), byte(serverCaps>>8))
	g = append(g, defID)
	g = append(g, byte(statusAutocommit), 0)
	g = append(g, byte(serverCaps>>16), byte(serverCaps>>24))
	g = append(g, 21)
	g = append(g, make([]byte, 10)...)
	g = append(g, salt[8:]...)
	g = append(g, 0)
	g = append(g, "mysql_native_password"...)
	g = append(g, 0)
	if p.writePacket(g) != nil || p.flush() != nil {
		return
	}
	resp, err := p.readPacket()
	if err != nil || len(resp) < 32 {
		return
	}
	caps := uint32(resp[0]) | uint32(resp[1])<<8 | uint32(resp[2])<<16 | uint32(resp[3])<<24
	st := newState(s.opts.DefaultCharset, defColl)
	if co, ok := collationByID[resp[8]]; ok {
		st.Collation = co
		st.Charset = collationCharset[co]
	}
	pos := 32
	// user
	for pos < len(resp) && resp[pos] != 0 {
		pos++
	}
	pos++
	// auth response (length byte, secure connection)
	if pos < len(resp) {
		pos += 1 + int(resp[pos])
	}
	if caps&capConnectWithDB != 0 && pos < len(resp) {
		e := pos
		for e < len(resp) && resp[e] != 0 {
			e++
		}
		st.DB = string(resp[pos:e])
	}
	s.mu.Lock()
	s.states[id] = st
	s.mu.Unlock()
	if p.writeOK(0, 0, st.Status) != nil {
		return
	}
	s.record(Entry{Conn: id, Kind: "connect", State: st.Snapshot()})

	for {
		p.seq = 0
		pkt, err := p.readPacket()
		if err != nil || len(pkt) == 0 {
			return
		}
		switch pkt[0] {
		case comQuit:
			s.record(Entry{Conn: id, Kind: "quit", State: st.Snapshot()})
			return
		case comPing:
			s.record(Entry{Conn: id, Kind: "ping", State: st.Snapshot()})
			if p.writeOK(0, 0, st.Status) != nil {
				return
			}
		case comInitDB:
			s.mu.Lock()
			st.DB = string(pkt[1:])
			s.mu.Unlock()
			s.record(Entry{Conn: id, Kind: "initdb", SQL: st.DB, State: st.Snapshot()})
			if p.writeOK(0, 0, st.Status) != nil {
				return
			}
		case comFieldList:
			arg := pkt[1:]
			table := string(arg)
			if i := strings.IndexByte(table, 0); i >= 0 {
				table = table[:i]
			}
			s.record(Entry{Conn: id, Kind: "fieldlist", SQL: table, State: st.Snapshot()})
			for _, col := range []string{"id", "v"} {
				if p.writePacket(columnDef(st.DB, table, col, typeVarString, 63, true)) != nil {
					return
				}
			}
			if p.writeEOF(st.Status) != nil || p.flush() != nil {
				return
			}
		case comQuery:
			if !s.query(id, p, st, string(pkt[1:])) {
				return
			}
		default:
			if p.writeErr(1047, "08S01", "Unknown command") != nil {
				return
			}
		}
	}
}

func firstWord(sql string) string {
	t := strings.TrimLeft(sql, " \t\r\n")
	for strings.HasPrefix(t, "/*") {
		j := strings.Index(t, "*/")
		if j < 0 {
			break
		}
		t = strings.TrimLeft(t[j+2:], " \t\r\n")
	}
	e := 0
	for e < len(t) && (t[e] >= 'a' && t[e] <= 'z' || t[e] >= 'A' && t[e] <= 'Z' || t[e] == '_') {
		e++
	}
	return strings.ToLower(t[:e])
}

// query handles one COM_QUERY; false = close the connection.
func (s *Server) query(id uint32, p *pconn, st *State, sql string) bool {
	fw := firstWord(sql)
	if fw == "set" {
		as, isSet, perr := parseSet(sql)
		if isSet {
			s.mu.Lock()
			inject := s.rejectSet > 0
			if inject {
				s.rejectSet--
			}
			s.mu.Unlock()
			var rej *SQLError
			if perr != nil {
				rej = perr
			} else if inject {
				rej = &SQLError{1205, "HY000", "Lock wait timeout exceeded; try restarting transaction (injected)"}
			} else if s.pre80() && strings.Contains(strings.ToLower(sql), "_0900_") {
				rej = &SQLError{1273, "HY000", "Unknown collation: a MySQL 8.0 collation on a pre-8.0 server"}
			} else {
				scratch := st.clone()
				for _, a := range as {
					if e := scratch.apply(a, s.opts.DefaultCharset, s.opts.ExtraVars); e != nil {
						rej = e
						break
					}
				}
				if rej == nil {
					s.mu.Lock()
					*st = *scratch
					s.mu.Unlock()
				}
			}
			e := Entry{Conn: id, Kind: "set", SQL: sql, State: st.Snapshot()}
			if rej != nil {
				e.Rejected = rej.Error()
				s.record(e)
				return p.writeErr(rej.Code, rej.State, rej.Msg) == nil
			}
			s.record(e)
			return p.writeOK(0, 0, st.Status) == nil
		}
	}
	var res *Result
	if s.opts.Query != nil {
		res = s.opts.Query(&ConnInfo{ID: id, State: st.Snapshot()}, sql)
	}
	if res == nil {
		switch fw {
		case "begin", "start":
			st.Status |= statusInTrans
			res = &Result{}
		case "commit", "rollback":
			st.Status &^= statusInTrans
			res = &Result{}
		case "select":
			if strings.EqualFold(strings.TrimSpace(strings.TrimRight(strings.TrimSpace(sql), ";")), "select 1") {
				res = &Result{Cols: []string{"1"}, Rows: [][]string{{"1"}}}
			} else {
				res = &Result{Cols: []string{"v"}}
			}
		case "show", "desc", "describe", "explain":
			res = &Result{Cols: []string{"v"}}
		default:
			res = &Result{}
		}
	}
	e := Entry{Conn: id, Kind: "query", SQL: sql, State: st.Snapshot()}
	if res.Err != nil {
		e.Rejected = res.Err.Error()
		s.record(e)
		return p.writeErr(res.Err.Code, res.Err.State, res.Err.Msg) == nil
	}
	if res.Cols == nil {
		s.record(e)
		return p.writeOK(res.Affected, res.InsertID, st.Status) == nil
	}
	e.RowsMade = len(res.Rows)
	if res.Gen != nil {
		e.RowsMade = res.Gen.N
	}
	// record before answering: whoever has seen the answer can rely on the log entry
	idx := s.record(e)
	ok := s.writeResult(p, st, res, &e)
	if idx >= 0 {
		s.mu.Lock()
		if idx < len(s.log) && s.log[idx].Conn == e.Conn && s.log[idx].SQL == e.SQL {
			s.log[idx].RowsSent = e.RowsSent
		}
		s.mu.Unlock()
	}
	return ok
}

func (s *Server) writeResult(p *pconn, st *State, res *Result, e *Entry) bool {
	if p.writePacket(putLenEncInt(nil, uint64(len(res.Cols)))) != nil {
		return false
	}
	for _, c := range res.Cols {
		if p.writePacket(columnDef(st.DB, "t", c, typeVarString, 63, false)) != nil {
			return false
		}
	}
	if p.writeEOF(st.Status) != nil {
		return false
	}
	if res.Gen != nil {
		for i := 0; i < res.Gen.N; i++ {
			if p.writeGeneratedRow(res.Gen.Seed, i, res.Gen.SizeOf(i)) != nil {
				return false
			}
			// a row counts as sent when it left the buffer or fits in it together with the EOF
			e.RowsSent++
		}
	} else {
		for _, r := range res.Rows {
			var b []byte
			for _, v := range r {
				if v == Null {
					b = append(b, 0xfb)
				} else {
					b = putLenEncStr(b, v)
				}
			}
			if p.writePacket(b) != nil {
				return false
			}
			e.RowsSent++
		}
	}
	if p.writeEOF(st.Status) != nil || p.flush() != nil {
		return false
	}
	return true
}
